(* PrepQueue_proofs.v — lemmas about the prep-queue counter model (property C13).

   Structure
     1. reflection of the boolean rational comparisons
     2. the step function denoted by a breakpoint list ([den]); absorbed from
        design-spikes/prepqueue_den.v (there over Z and for a corrected copy of the code; here over Q
        and for the model's own [new_list])
     3. a strictly time-sorted list is split by the three filters of update_queues
     4. the streaming invariant of one queue and its preservation by [update_queues]
     5. [stream_q_correct]: one queue fed with start-sorted, non-empty intervals
     6. the per-pid dict: the samples of pid p emitted by [run_stage] are those of [stream_q] on p's
        Prep intervals; pass-through events
     7. the main lemmas used by props/C13.v (default mode, sorted_input = true), the empty interval
     8. hold mode (sorted_input = false, what -M registers): the stored list is strictly increasing and
        denotes count_at of the intervals so far for ANY arrival order ([hinv], [hold_step]); the
        any-order counterparts of the main lemmas *)
From Coq Require Import ZArith QArith List Bool String Lia Lqa Sorted.
Import ListNotations.
From AiuModel Require Import Base PrepQueue.
Local Open Scope Z_scope.

(* ------------------------------------------------------------------ 1. comparisons *)
Lemma Qle_b_spec a b : reflect (a <= b)%Q (Qle_b a b).
Proof. unfold Qle_b. apply iff_reflect. symmetry. apply Qle_bool_iff. Qed.
Lemma Qlt_b_spec a b : reflect (a < b)%Q (Qlt_b a b).
Proof.
  unfold Qlt_b. destruct (Qle_bool b a) eqn:H; cbn; constructor.
  - apply Qle_bool_iff in H. lra.
  - apply Qnot_le_lt. intro K. apply Qle_bool_iff in K. congruence.
Qed.

Ltac qcmp :=
  repeat match goal with
  | |- context [Qlt_b ?a ?b] => destruct (Qlt_b_spec a b)
  | |- context [Qle_b ?a ?b] => destruct (Qle_b_spec a b)
  | H : context [Qlt_b ?a ?b] |- _ => destruct (Qlt_b_spec a b)
  | H : context [Qle_b ?a ?b] |- _ => destruct (Qle_b_spec a b)
  end.

(* ------------------------------------------------------------------ 2. denotation *)
Definition all_lt (q : list bp) (b : Q) := Forall (fun p => (fst p < b)%Q) q.
Definition all_ge (q : list bp) (b : Q) := Forall (fun p => (b <= fst p)%Q) q.

Lemma Fimp {A} (P R : A -> Prop) l : Forall P l -> (forall a, P a -> R a) -> Forall R l.
Proof. intros F H. eapply Forall_impl; eauto. Qed.

Lemma lastc_app base A B : lastc base (A ++ B) = lastc (lastc base A) B.
Proof. apply fold_left_app. Qed.
Lemma lastc_cons base p F : lastc base (p :: F) = lastc (snd p) F.
Proof. reflexivity. Qed.
Lemma lastc_ne b b' F : F <> [] -> lastc b F = lastc b' F.
Proof. destruct F as [|p F]; [congruence|]. reflexivity. Qed.
Lemma upto_app t A B : upto t (A ++ B) = upto t A ++ upto t B.
Proof. apply filter_app. Qed.
Lemma den_app base A B t : den base (A ++ B) t = den (den base A t) B t.
Proof. unfold den. now rewrite upto_app, lastc_app. Qed.
Lemma upto_all t q : Forall (fun p => (fst p <= t)%Q) q -> upto t q = q.
Proof.
  unfold upto. induction 1 as [|p q Hp _ IH]; cbn [filter]; [reflexivity|].
  destruct (Qle_b_spec (fst p) t); [now rewrite IH|contradiction].
Qed.
Lemma upto_none t q : Forall (fun p => (t < fst p)%Q) q -> upto t q = [].
Proof.
  unfold upto. induction 1 as [|p q Hp _ IH]; cbn [filter]; [reflexivity|].
  destruct (Qle_b_spec (fst p) t); [lra|exact IH].
Qed.
Lemma den_all base q t : Forall (fun p => (fst p <= t)%Q) q -> den base q t = lastc base q.
Proof. intros H. unfold den. now rewrite upto_all. Qed.
Lemma den_none base q t : Forall (fun p => (t < fst p)%Q) q -> den base q t = base.
Proof. intros H. unfold den. now rewrite upto_none. Qed.
Lemma lastc_bump base F : lastc (base + 1) (bump F) = lastc base F + 1.
Proof.
  unfold lastc, bump. revert base; induction F as [|[x c] F IH]; intros base; cbn [map fold_left fst snd];
    [reflexivity|]. apply IH.
Qed.
Lemma upto_bump t M : upto t (bump M) = bump (upto t M).
Proof.
  unfold upto, bump. induction M as [|[x c] M IH]; cbn [map filter fst snd]; [reflexivity|].
  destruct (Qle_b x t); cbn [map fst snd]; now rewrite IH.
Qed.
Lemma den_bump base M t : den (base + 1) (bump M) t = den base M t + 1.
Proof. unfold den. rewrite upto_bump. apply lastc_bump. Qed.
Lemma den_hd b b' x c q t : (x <= t)%Q -> den b ((x, c) :: q) t = den b' ((x, c) :: q) t.
Proof.
  intros H. unfold den, upto. cbn [filter fst]. destruct (Qle_b_spec x t); [|contradiction].
  apply lastc_ne. discriminate.
Qed.
Lemma Forall_bump (P : Q -> Prop) M :
  Forall (fun p => P (fst p)) M -> Forall (fun p => P (fst p)) (bump M).
Proof. unfold bump. intros H. rewrite Forall_map. exact H. Qed.

(* every breakpoint of the new list is at or after s *)
Lemma new_list_ge lr M P s e :
  (s < e)%Q -> all_ge M s -> all_ge P e -> all_ge (new_list lr M P s e) s.
Proof.
  intros Hse HM HP. unfold new_list, all_ge in *.
  apply Forall_app; split; [|apply Forall_app; split; [|apply Forall_app; split]].
  - destruct M as [|[x c] M']; [repeat constructor; cbn; lra|].
    destruct (Qlt_b s x); repeat constructor; cbn; lra.
  - apply (Forall_bump (fun x => (s <= x)%Q)). exact HM.
  - destruct P as [|[y d] P']; [repeat constructor; cbn; lra|].
    destruct (Qlt_b e y); repeat constructor; cbn; lra.
  - eapply Fimp; [exact HP|cbn; intros; lra].
Qed.

(* the heart (spike: den_update): from s on, the new list denotes the old one plus the indicator of [s, e);
   the base on the left is irrelevant because the new list starts with a breakpoint at s *)
Lemma den_new_list_ge b lr M P s e t :
  (s < e)%Q -> all_ge M s -> all_lt M e -> all_ge P e -> (s <= t)%Q ->
  den b (new_list lr M P s e) t = den lr (M ++ P) t + (if Qlt_b t e then 1 else 0).
Proof.
  intros Hse HMs HMe HP Hst. unfold new_list, all_lt, all_ge in *.
  set (lo := lastc lr M).
  set (n1 := match M with [] => [(s, lr + 1)] | (x, _) :: _ => if Qlt_b s x then [(s, lr + 1)] else [] end).
  set (n3 := match P with [] => [(e, lo)] | (x, _) :: _ => if Qlt_b e x then [(e, lo)] else [] end).
  rewrite !den_app.
  (* after n1 the running value is lr + 1 or, if M starts at s, irrelevant *)
  assert (H1 : den (den b n1 t) (bump M) t = den (lr + 1) (bump M) t).
  { unfold n1. destruct M as [|[x c] M'].
    - unfold den at 2. cbn [upto filter fst]. destruct (Qle_b_spec s t); [|contradiction]. reflexivity.
    - inversion HMs as [|? ? Hx _]; subst. cbn [fst] in Hx.
      destruct (Qlt_b_spec s x).
      + unfold den at 2. cbn [upto filter fst]. destruct (Qle_b_spec s t); [|contradiction]. reflexivity.
      + unfold den at 2. cbn [upto filter]. cbn [lastc fold_left].
        change (bump ((x, c) :: M')) with ((x, c + 1) :: bump M').
        apply den_hd. lra. }
  rewrite H1, den_bump.
  destruct (Qlt_b_spec t e) as [Hte|Hte].
  - (* s <= t < e : nothing of n3, P is visible yet *)
    assert (HPn : forall k, den k P t = k).
    { intros. apply den_none. eapply Fimp; [exact HP|cbn; intros; lra]. }
    assert (H3 : forall k, den k n3 t = k).
    { intros k. apply den_none. unfold n3. destruct P as [|[y d] P']; [repeat constructor; cbn; lra|].
      destruct (Qlt_b e y); repeat constructor; cbn; lra. }
    now rewrite !HPn, !H3.
  - (* e <= t : all of M is visible, the value after M is lo + 1, reset to lo at e *)
    assert (HMa : Forall (fun p => (fst p <= t)%Q) M) by (eapply Fimp; [exact HMe|cbn; intros; lra]).
    rewrite (den_all lr M t HMa). fold lo. rewrite Z.add_0_r.
    unfold n3. destruct P as [|[y d] P'].
    + unfold den at 1 3. cbn [upto filter]. cbn [lastc fold_left].
      unfold den. cbn [upto filter fst]. destruct (Qle_b_spec e t); [|lra]. reflexivity.
    + inversion HP as [|? ? Hy _]; subst. cbn [fst] in Hy.
      destruct (Qlt_b_spec e y).
      * f_equal. unfold den at 1. cbn [upto filter fst]. destruct (Qle_b_spec e t); [|lra]. reflexivity.
      * unfold den at 2. cbn [upto filter lastc fold_left]. apply den_hd. lra.
Qed.

(* ------------------------------------------------------------------ 3. sorted lists and the three filters *)
Definition tlt (a b : bp) : Prop := (fst a < fst b)%Q.
Definition tsorted (q : list bp) : Prop := StronglySorted tlt q.

Lemma filter_none {A} (f : A -> bool) l : Forall (fun x => f x = false) l -> filter f l = [].
Proof. induction 1 as [|x l Hx _ IH]; cbn; [reflexivity|]. now rewrite Hx. Qed.
Lemma filter_all {A} (f : A -> bool) l : Forall (fun x => f x = true) l -> filter f l = l.
Proof. induction 1 as [|x l Hx _ IH]; cbn; [reflexivity|]. now rewrite Hx, IH. Qed.
Lemma Forall_filter {A} (f : A -> bool) (P : A -> Prop) l :
  (forall x, f x = true -> P x) -> Forall P (filter f l).
Proof. intros H. apply Forall_forall. intros x Hx. apply filter_In in Hx. apply H, Hx. Qed.

Lemma ready_lt s q : all_lt (filter (is_ready s) q) s.
Proof. apply Forall_filter. intros x. unfold is_ready. qcmp; [auto|discriminate]. Qed.
Lemma mid_ge s e q : all_ge (filter (is_mid s e) q) s.
Proof. apply Forall_filter. intros x. unfold is_mid. qcmp; cbn; try discriminate; auto. Qed.
Lemma mid_lt s e q : all_lt (filter (is_mid s e) q) e.
Proof. apply Forall_filter. intros x. unfold is_mid. qcmp; cbn; try discriminate; auto. Qed.
Lemma post_ge e q : all_ge (filter (is_post e) q) e.
Proof. apply Forall_filter. intros x. unfold is_post. qcmp; [auto|discriminate]. Qed.

Lemma tsorted_filter f q : tsorted q -> tsorted (filter f q).
Proof.
  induction 1 as [|x q Hs IH Hx]; cbn; [constructor|].
  destruct (f x); [|exact IH]. constructor; [exact IH|].
  apply Forall_forall. intros y Hy. apply filter_In in Hy. rewrite Forall_forall in Hx. apply Hx, Hy.
Qed.

Lemma split3 s e q :
  (s < e)%Q -> tsorted q ->
  q = filter (is_ready s) q ++ filter (is_mid s e) q ++ filter (is_post e) q.
Proof.
  intros Hse. induction 1 as [|x q Hs IH Hx]; [reflexivity|].
  cbn [filter]. unfold is_ready at 1, is_mid at 1, is_post at 1.
  destruct (Qlt_b_spec (fst x) s) as [H1|H1].
  - (* ready *)
    destruct (Qle_b_spec s (fst x)); [lra|]. destruct (Qle_b_spec e (fst x)); [lra|].
    cbn [andb app]. now rewrite <- IH.
  - assert (R0 : filter (is_ready s) q = []).
    { apply filter_none. eapply Fimp; [exact Hx|]. unfold tlt, is_ready. intros a Ha.
      destruct (Qlt_b_spec (fst a) s); [lra|reflexivity]. }
    destruct (Qle_b_spec s (fst x)); [|lra].
    destruct (Qlt_b_spec (fst x) e) as [H2|H2].
    + (* mid *)
      destruct (Qle_b_spec e (fst x)); [lra|]. cbn [andb app]. rewrite R0 in *. cbn [app] in *.
      now rewrite <- IH.
    + (* post *)
      destruct (Qle_b_spec e (fst x)); [|lra]. cbn [andb app].
      assert (M0 : filter (is_mid s e) q = []).
      { apply filter_none. eapply Fimp; [exact Hx|]. unfold tlt, is_mid. intros a Ha.
        destruct (Qlt_b_spec (fst a) e); [lra|]. apply andb_false_r. }
      rewrite R0, M0 in *. cbn [app] in *. now rewrite <- IH.
Qed.

Definition cross (A B : list bp) : Prop := Forall (fun a => Forall (fun b => tlt a b) B) A.

Lemma tsorted_app A B : tsorted A -> tsorted B -> cross A B -> tsorted (A ++ B).
Proof.
  intros HA HB HC. induction HA as [|a A HsA IH Ha]; cbn; [exact HB|].
  inversion HC as [|? ? Hab HC']; subst. constructor; [apply IH, HC'|].
  apply Forall_app; split; assumption.
Qed.
Lemma tsorted_app_inv A B : tsorted (A ++ B) -> tsorted A /\ tsorted B /\ cross A B.
Proof.
  induction A as [|a A IH]; cbn; intros H.
  - repeat split; [constructor|exact H|constructor].
  - inversion H as [|? ? Hs Hf]; subst. destruct (IH Hs) as (HA & HB & HC).
    apply Forall_app in Hf as [Hf1 Hf2]. repeat split; [constructor; assumption|assumption|].
    constructor; assumption.
Qed.
Lemma cross_lt_ge A B m : all_lt A m -> all_ge B m -> cross A B.
Proof.
  intros HA HB. unfold cross. eapply Fimp; [exact HA|]. intros a Ha. cbn in Ha.
  eapply Fimp; [exact HB|]. intros b Hb. cbn in Hb. unfold tlt. lra.
Qed.
Lemma cross_le_gt A B m :
  Forall (fun p => (fst p <= m)%Q) A -> Forall (fun p => (m < fst p)%Q) B -> cross A B.
Proof.
  intros HA HB. unfold cross. eapply Fimp; [exact HA|]. intros a Ha. cbn in Ha.
  eapply Fimp; [exact HB|]. intros b Hb. cbn in Hb. unfold tlt. lra.
Qed.
Lemma cross_nil_l B : cross [] B.
Proof. constructor. Qed.
Lemma cross_nil_r A : cross A [].
Proof. unfold cross. apply Forall_forall. intros; constructor. Qed.
Lemma cross_app_r A B C : cross A B -> cross A C -> cross A (B ++ C).
Proof.
  unfold cross. intros H1 H2. rewrite Forall_forall in *. intros a Ha. apply Forall_app. split; auto.
Qed.

Lemma tsorted_bump M : tsorted M -> tsorted (bump M).
Proof.
  induction 1 as [|x M Hs IH Hx]; cbn; [constructor|]. constructor; [exact IH|].
  unfold bump. rewrite Forall_map. eapply Fimp; [exact Hx|]. intros a Ha. exact Ha.
Qed.
Lemma tsorted_head_lt x c M : tsorted ((x, c) :: M) -> Forall (fun p => (x < fst p)%Q) M.
Proof. intros H. inversion H; subst. assumption. Qed.

(* the new list is strictly sorted *)
Lemma new_list_sorted lr M P s e :
  (s < e)%Q -> tsorted M -> tsorted P -> all_ge M s -> all_lt M e -> all_ge P e ->
  tsorted (new_list lr M P s e).
Proof.
  intros Hse HsM HsP HMs HMe HP. unfold new_list.
  set (lo := lastc lr M).
  assert (HB : tsorted (bump M)) by now apply tsorted_bump.
  assert (HBs : all_ge (bump M) s) by (apply (Forall_bump (fun x => (s <= x)%Q)); exact HMs).
  assert (HBe : all_lt (bump M) e) by (apply (Forall_bump (fun x => (x < e)%Q)); exact HMe).
  (* tail: n3 ++ P *)
  assert (T3 : tsorted (match P with [] => [(e, lo)] | (x, _) :: _ => if Qlt_b e x then [(e, lo)] else [] end ++ P)
               /\ all_ge (match P with [] => [(e, lo)] | (x, _) :: _ => if Qlt_b e x then [(e, lo)] else [] end ++ P) e).
  { destruct P as [|[y d] P'].
    - split; [repeat constructor|]. repeat constructor; cbn; lra.
    - destruct (Qlt_b_spec e y).
      + split.
        * cbn [app]. constructor; [exact HsP|]. constructor; [unfold tlt; cbn; lra|].
          eapply Fimp; [apply (tsorted_head_lt _ _ _ HsP)|]. unfold tlt; cbn; intros; lra.
        * constructor; [cbn; lra|exact HP].
      + split; [exact HsP|exact HP]. }
  destruct T3 as [T3s T3g].
  (* middle: bump M ++ tail *)
  assert (T2 : tsorted (bump M ++ match P with [] => [(e, lo)] | (x, _) :: _ => if Qlt_b e x then [(e, lo)] else [] end ++ P)).
  { apply tsorted_app; [exact HB|exact T3s|]. eapply cross_lt_ge; eassumption. }
  destruct M as [|[x c] M'].
  - cbn [bump map app] in *. constructor; [exact T3s|]. eapply Fimp; [exact T3g|]. unfold tlt; cbn; intros; lra.
  - destruct (Qlt_b_spec s x).
    + cbn [app]. constructor; [exact T2|].
      apply Forall_app. split.
      * apply (Forall_bump (fun y => (s < y)%Q)). constructor; [cbn; lra|].
        eapply Fimp; [apply (tsorted_head_lt _ _ _ HsM)|]. cbn; intros; lra.
      * eapply Fimp; [exact T3g|]. unfold tlt; cbn; intros; lra.
    + exact T2.
Qed.

(* ------------------------------------------------------------------ 4. streaming invariant of one queue *)
Definition has_time (t : Q) (W : list bp) : Prop := exists p, In p W /\ (fst p == t)%Q.
Definition ind (t : Q) (iv : Q * Q) : Z := if inside t iv then 1 else 0.

Lemma count_at_app ivs iv t : count_at (ivs ++ [iv]) t = count_at ivs t + ind t iv.
Proof.
  unfold count_at, ind. rewrite filter_app, app_length. cbn [filter].
  destruct (inside t iv); cbn [List.length]; lia.
Qed.

(* emitted so far E, stored queue q, intervals processed ivs, start of the last one sp *)
Record inv (ivs : list (Q * Q)) (sp : Q) (E q : list bp) : Prop := mkInv {
  inv_sorted : tsorted (E ++ q);
  inv_den : forall t, den 0 (E ++ q) t = count_at ivs t;
  inv_head : exists x c q', q = (x, c) :: q' /\ (x == sp)%Q;
  inv_cover : forall iv, In iv ivs -> has_time (fst iv) (E ++ q) /\ has_time (snd iv) (E ++ q);
  inv_last0 : lastc 0 (E ++ q) = 0 }.

Lemma inv_first s e : (s < e)%Q -> inv [(s, e)] s [] [(s, 1); (e, 0)].
Proof.
  intros Hse. constructor; cbn [app].
  - constructor; [repeat constructor|]. repeat constructor. unfold tlt; cbn; lra.
  - intros t. unfold den, upto, count_at, inside. cbn [filter fst snd].
    destruct (Qle_b_spec s t), (Qle_b_spec e t), (Qlt_b_spec t e); cbn; try reflexivity; lra.
  - exists s, 1, [(e, 0)]. split; [reflexivity|]. reflexivity.
  - intros iv [<-|[]]. cbn [fst snd]. split.
    + exists (s, 1). split; [now left|reflexivity].
    + exists (e, 0). split; [right; now left|reflexivity].
  - reflexivity.
Qed.

Lemma has_time_app_l t A B : has_time t A -> has_time t (A ++ B).
Proof. intros (p & Hp & Ht). exists p. split; [apply in_or_app; now left|exact Ht]. Qed.
Lemma has_time_app_r t A B : has_time t B -> has_time t (A ++ B).
Proof. intros (p & Hp & Ht). exists p. split; [apply in_or_app; now right|exact Ht]. Qed.
Lemma has_time_bump t M : has_time t M -> has_time t (bump M).
Proof.
  intros (p & Hp & Ht). exists (fst p, snd p + 1). split; [|exact Ht].
  unfold bump. apply in_map_iff. exists p. split; [reflexivity|exact Hp].
Qed.

Lemma new_list_base_irrelevant a b x c M' P s e :
  ~ (s < x)%Q -> new_list a ((x, c) :: M') P s e = new_list b ((x, c) :: M') P s e.
Proof.
  intros H. unfold new_list. destruct (Qlt_b_spec s x); [contradiction|]. reflexivity.
Qed.

Lemma inv_step ivs sp E q s e rd q1 :
  inv ivs sp E q -> (sp <= s)%Q -> (s < e)%Q ->
  update_queues true s e q = (rd, q1) ->
  inv (ivs ++ [(s, e)]) s (E ++ rd) q1.
Proof.
  intros [Hsort Hden Hhead Hcov Hlast] Hsp Hse Hupd.
  destruct Hhead as (x & c & q' & Hq & Hx).
  apply tsorted_app_inv in Hsort as (HsE & Hsq & HcEq).
  set (R := filter (is_ready s) q) in *.
  set (M := filter (is_mid s e) q) in *.
  set (P := filter (is_post e) q) in *.
  assert (Hsplit : q = R ++ M ++ P) by (apply split3; assumption).
  assert (HR : all_lt R s) by apply ready_lt.
  assert (HMs : all_ge M s) by apply mid_ge.
  assert (HMe : all_lt M e) by apply mid_lt.
  assert (HP : all_ge P e) by apply post_ge.
  assert (HsR : tsorted R) by now apply tsorted_filter.
  assert (HsM : tsorted M) by now apply tsorted_filter.
  assert (HsP : tsorted P) by now apply tsorted_filter.
  (* everything already emitted lies before the head of the queue, hence before s *)
  assert (HE : all_lt E s).
  { unfold cross in HcEq. eapply Fimp; [exact HcEq|]. intros a Ha. cbn in Ha. rewrite Hq in Ha.
    inversion Ha as [|? ? Hax _]; subst. unfold tlt in Hax. cbn in Hax. lra. }
  assert (HER : all_lt (E ++ R) s) by (apply Forall_app; split; assumption).
  set (LR := lastc 0 (E ++ R)).
  (* the code's last_ready (computed from the stored queue only) is as good as the true one *)
  assert (Hnl : q1 = new_list LR M P s e /\ rd = R).
  { unfold update_queues in Hupd. rewrite Hq in Hupd. cbv beta iota zeta in Hupd. rewrite <- Hq in Hupd. fold R M P in Hupd.
    inversion Hupd; subst rd q1. split; [|reflexivity].
    destruct (Qlt_b_spec x s) as [Hxs|Hxs].
    - (* head of the queue is ready: R is not empty *)
      assert (HRne : R <> []).
      { unfold R. rewrite Hq. cbn [filter]. unfold is_ready at 1. cbn [fst].
        destruct (Qlt_b_spec x s); [discriminate|contradiction]. }
      unfold LR. rewrite lastc_app. now rewrite (lastc_ne (lastc 0 E) 0 R HRne).
    - (* head of the queue sits at s: it heads M and n1 is empty, last_ready is not consulted *)
      assert (HM : M = (x, c) :: filter (is_mid s e) q').
      { unfold M. rewrite Hq. cbn [filter]. unfold is_mid at 1. cbn [fst].
        destruct (Qle_b_spec s x); [|lra]. destruct (Qlt_b_spec x e); [reflexivity|lra]. }
      rewrite HM. apply new_list_base_irrelevant. lra. }
  destruct Hnl as [-> ->].
  assert (HNLge : all_ge (new_list LR M P s e) s) by now apply new_list_ge.
  constructor.
  - (* sorted *)
    rewrite <- app_assoc. apply tsorted_app; [exact HsE| |].
    + apply tsorted_app; [exact HsR|now apply new_list_sorted|]. eapply cross_lt_ge; eassumption.
    + apply cross_app_r.
      * rewrite Hsplit in HcEq. unfold cross in *. eapply Fimp; [exact HcEq|]. intros a Ha. cbn in Ha.
        apply Forall_app in Ha. tauto.
      * eapply cross_lt_ge; eassumption.
  - (* denotation *)
    intros t. rewrite count_at_app. rewrite <- (Hden t). rewrite Hsplit.
    rewrite (app_assoc E R (M ++ P)). rewrite (den_app 0 (E ++ R) (new_list LR M P s e)).
    rewrite (den_app 0 (E ++ R) (M ++ P)). unfold ind, inside. cbn [fst snd].
    destruct (Qle_b_spec s t) as [Hst|Hst]; cbn [andb].
    + assert (Ha : den 0 (E ++ R) t = LR).
      { apply den_all. eapply Fimp; [exact HER|]. cbn; intros; lra. }
      rewrite Ha. now apply den_new_list_ge.
    + rewrite Z.add_0_r.
      rewrite (den_none _ (new_list LR M P s e) t); [|eapply Fimp; [exact HNLge|]; cbn; intros; lra].
      rewrite (den_none _ (M ++ P) t); [reflexivity|].
      apply Forall_app; split; [eapply Fimp; [exact HMs|]|eapply Fimp; [exact HP|]]; cbn; intros; lra.
  - (* head of the new queue sits at s *)
    unfold new_list. destruct M as [|[y d] M'] eqn:EM.
    + eexists s, _, _. split; [reflexivity|reflexivity].
    + destruct (Qlt_b_spec s y).
      * eexists s, _, _. split; [reflexivity|reflexivity].
      * inversion HMs as [|? ? Hy _]; subst. cbn [fst] in Hy.
        cbn [bump map app fst snd]. eexists y, _, _. split; [reflexivity|]. lra.
  - (* every start and end is a breakpoint *)
    assert (Hkeep : forall t, has_time t (E ++ q) -> has_time t ((E ++ R) ++ new_list LR M P s e)).
    { intros t (p & Hp & Ht). rewrite Hsplit in Hp. rewrite <- app_assoc.
      apply in_app_or in Hp as [Hp|Hp]; [apply has_time_app_l; now exists p|].
      apply has_time_app_r.
      apply in_app_or in Hp as [Hp|Hp]; [apply has_time_app_l; now exists p|].
      apply has_time_app_r. unfold new_list. apply has_time_app_r.
      apply in_app_or in Hp as [Hp|Hp]; [apply has_time_app_l, has_time_bump; now exists p|].
      apply has_time_app_r, has_time_app_r. now exists p. }
    assert (Hs : has_time s (new_list LR M P s e)).
    { unfold new_list. destruct M as [|[y d] M'] eqn:EM.
      - apply has_time_app_l. exists (s, LR + 1). split; [now left|reflexivity].
      - destruct (Qlt_b_spec s y).
        + apply has_time_app_l. exists (s, LR + 1). split; [now left|reflexivity].
        + inversion HMs as [|? ? Hy _]; subst. cbn [fst] in Hy. cbn [app]. apply has_time_app_l.
          exists (y, d + 1). split; [now left|cbn; lra]. }
    assert (He : has_time e (new_list LR M P s e)).
    { unfold new_list. apply has_time_app_r, has_time_app_r. destruct P as [|[y d] P'] eqn:EP.
      - apply has_time_app_l. eexists (e, _). split; [now left|reflexivity].
      - destruct (Qlt_b_spec e y).
        + apply has_time_app_l. eexists (e, _). split; [now left|reflexivity].
        + inversion HP as [|? ? Hy _]; subst. cbn [fst] in Hy. cbn [app].
          exists (y, d). split; [now left|cbn; lra]. }
    intros iv Hiv. apply in_app_or in Hiv as [Hiv|[<-|[]]].
    + destruct (Hcov iv Hiv). split; apply Hkeep; assumption.
    + cbn [fst snd]. split; apply has_time_app_r; assumption.
  - (* series ends at 0 *)
    rewrite Hsplit in Hlast. rewrite (app_assoc E R (M ++ P)) in Hlast. rewrite lastc_app in Hlast.
    fold LR in Hlast. rewrite lastc_app. fold LR. unfold new_list.
    rewrite !lastc_app. rewrite lastc_app in Hlast.
    destruct P as [|[y d] P'] eqn:EP.
    + cbn [lastc fold_left snd] in *. exact Hlast.
    + destruct (Qlt_b e y); cbn [lastc fold_left snd] in *; exact Hlast.
Qed.

(* ------------------------------------------------------------------ 5. one queue, whole stream *)
Definition nonempty_iv (iv : Q * Q) : Prop := (fst iv < snd iv)%Q.
Definition start_le (a b : Q * Q) : Prop := (fst a <= fst b)%Q.

Lemma stream_q_inv ivs : forall ivs0 sp E q,
  inv ivs0 sp E q -> Forall nonempty_iv ivs -> StronglySorted start_le ivs ->
  Forall (fun iv => (sp <= fst iv)%Q) ivs ->
  exists sp', inv (ivs0 ++ ivs) sp' (E ++ fst (stream_q true q ivs)) (snd (stream_q true q ivs)).
Proof.
  induction ivs as [|[s e] r IH]; intros ivs0 sp E q Hinv Hne Hso Hsp.
  - exists sp. cbn. now rewrite !app_nil_r.
  - inversion Hne as [|? ? Hne1 Hne']; subst. unfold nonempty_iv in Hne1. cbn [fst snd] in Hne1.
    cbn [stream_q]. destruct (Qle_b_spec e s) as [Hes|_]; [lra|].
    destruct (update_queues true s e q) as [rd q1] eqn:Hu.
    destruct (stream_q true q1 r) as [em q2] eqn:Hst. cbn [fst snd].
    inversion Hso as [|? ? Hso' Hall]; subst.
    inversion Hsp as [|? ? Hsp1 Hsp']; subst. cbn [fst] in Hsp1.
    assert (Hi : inv (ivs0 ++ [(s, e)]) s (E ++ rd) q1) by (eapply inv_step; eassumption).
    destruct (IH (ivs0 ++ [(s, e)]) s (E ++ rd) q1 Hi Hne' Hso') as [sp' Hfin].
    { eapply Fimp; [exact Hall|]. unfold start_le. cbn. auto. }
    exists sp'. rewrite Hst in Hfin. cbn [fst snd] in Hfin.
    rewrite <- app_assoc in Hfin. cbn [app] in Hfin. rewrite <- app_assoc in Hfin. exact Hfin.
Qed.

(* value of a sample = value of the denoted step function at the sample's own time *)
Lemma den_at_sample W t c : tsorted W -> In (t, c) W -> den 0 W t = c.
Proof.
  intros Hs Hin. apply in_split in Hin as (A & B & ->).
  apply tsorted_app_inv in Hs as (_ & HsB & Hc).
  rewrite den_app. unfold den at 1. unfold upto. cbn [filter fst].
  destruct (Qle_b_spec t t); [|lra]. cbn [lastc fold_left].
  change (fold_left (fun (_ : Z) (p0 : bp) => snd p0) (filter (fun p1 : bp => Qle_b (fst p1) t) B) (snd (t, c)))
    with (den c B t).
  apply den_none. apply (tsorted_head_lt _ _ _ HsB).
Qed.

Record series_ok (ivs : list (Q * Q)) (W : list bp) : Prop := mkOk {
  ok_sorted : tsorted W;                                             (* strictly increasing times *)
  ok_den : forall t, den 0 W t = count_at ivs t;                     (* right at every time *)
  ok_samples : forall t c, In (t, c) W -> c = count_at ivs t;        (* right at every sample *)
  ok_cover : forall iv, In iv ivs -> nonempty_iv iv -> has_time (fst iv) W /\ has_time (snd iv) W;
  ok_last0 : lastc 0 W = 0;                                          (* ends at 0 *)
  ok_empty : Forall (fun iv => ~ nonempty_iv iv) ivs -> W = [] }.

(* first for streams of non-empty intervals only ... *)
Lemma stream_q_correct_ne ivs :
  Forall nonempty_iv ivs -> StronglySorted start_le ivs ->
  series_ok ivs (fst (stream_q true [] ivs) ++ snd (stream_q true [] ivs)).
Proof.
  intros Hne Hso. destruct ivs as [|[s e] r].
  - cbn. constructor.
    + constructor.
    + intros t. reflexivity.
    + intros t c [].
    + intros iv [].
    + reflexivity.
    + intros _. reflexivity.
  - inversion Hne as [|? ? Hne1 Hne']; subst. inversion Hso as [|? ? Hso' Hall]; subst.
    assert (Hse : (s < e)%Q) by exact Hne1.
    cbn [stream_q update_queues]. destruct (Qle_b_spec e s) as [Hes|_]; [lra|].
    destruct (stream_q true [(s, 1); (e, 0)] r) as [em q2] eqn:Hst.
    cbn [fst snd app].
    destruct (stream_q_inv r [(s, e)] s [] [(s, 1); (e, 0)] (inv_first s e Hne1) Hne' Hso') as [sp' H].
    { eapply Fimp; [exact Hall|]. unfold start_le. cbn. auto. }
    rewrite Hst in H. cbn [fst snd app] in H. destruct H as [H1 H2 H3 H4 H5].
    constructor; try assumption.
    + intros t c Hin. rewrite <- H2. symmetry. now apply den_at_sample.
    + intros iv Hin _. now apply H4.
    + intros Hall0. inversion Hall0 as [|? ? Hn _]; subst. contradiction.
Qed.

(* ... then for any stream: intervals with end <= start are skipped by the guard and count nowhere *)
Definition ne_b (iv : Q * Q) : bool := negb (Qle_b (snd iv) (fst iv)).
Lemma ne_b_spec iv : reflect (nonempty_iv iv) (ne_b iv).
Proof.
  unfold ne_b, nonempty_iv. destruct (Qle_b_spec (snd iv) (fst iv)); cbn; constructor; lra.
Qed.

Lemma stream_q_skip si ivs : forall q, stream_q si q ivs = stream_q si q (filter ne_b ivs).
Proof.
  induction ivs as [|[s e] r IH]; intros q; [reflexivity|].
  cbn [stream_q filter]. unfold ne_b at 1. cbn [fst snd].
  destruct (Qle_b e s) eqn:Hg; cbn [negb].
  - apply IH.
  - cbn [stream_q]. rewrite Hg. destruct (update_queues si s e q) as [rd q1]. now rewrite IH.
Qed.

Lemma inside_ne t iv : inside t iv = true -> ne_b iv = true.
Proof.
  unfold inside. intros H. apply andb_prop in H as [H1 H2].
  destruct (Qle_b_spec (fst iv) t); [|discriminate]. destruct (Qlt_b_spec t (snd iv)); [|discriminate].
  destruct (ne_b_spec iv) as [|Hn]; [reflexivity|]. exfalso. apply Hn. unfold nonempty_iv. lra.
Qed.
Lemma count_at_skip ivs t : count_at ivs t = count_at (filter ne_b ivs) t.
Proof.
  unfold count_at. f_equal. f_equal. induction ivs as [|iv r IH]; [reflexivity|]. cbn [filter].
  destruct (ne_b iv) eqn:Hn; cbn [filter].
  - destruct (inside t iv); now rewrite IH.
  - destruct (inside t iv) eqn:Hi; [apply inside_ne in Hi; congruence|exact IH].
Qed.
Lemma ssorted_filter {A} (R : A -> A -> Prop) (f : A -> bool) l :
  StronglySorted R l -> StronglySorted R (filter f l).
Proof.
  induction 1 as [|x l Hs IH Hx]; cbn; [constructor|].
  destruct (f x); [|exact IH]. constructor; [exact IH|].
  apply Forall_forall. intros y Hy. apply filter_In in Hy. rewrite Forall_forall in Hx. apply Hx, Hy.
Qed.

Lemma series_ok_skip ivs W : series_ok (filter ne_b ivs) W -> series_ok ivs W.
Proof.
  intros [H1 H2 H3 H4 H5 H6]. constructor.
  - exact H1.
  - intros t. rewrite count_at_skip. apply H2.
  - intros t c Hin. rewrite count_at_skip. now apply H3.
  - intros iv Hin Hne. apply H4; [|exact Hne]. apply filter_In. split; [exact Hin|].
    now destruct (ne_b_spec iv).
  - exact H5.
  - intros Hall. apply H6. apply Forall_forall. intros iv Hiv. apply filter_In in Hiv as [Hin _].
    rewrite Forall_forall in Hall. now apply Hall.
Qed.
Lemma filter_ne_nonempty ivs : Forall nonempty_iv (filter ne_b ivs).
Proof. apply Forall_filter. intros iv Hiv. now destruct (ne_b_spec iv). Qed.

Theorem stream_q_correct ivs :
  StronglySorted start_le ivs ->
  series_ok ivs (fst (stream_q true [] ivs) ++ snd (stream_q true [] ivs)).
Proof.
  intros Hso. rewrite stream_q_skip. apply series_ok_skip.
  apply stream_q_correct_ne; [apply filter_ne_nonempty|now apply ssorted_filter].
Qed.

(* ------------------------------------------------------------------ 6. the dict of queues *)
Lemma q_get_set_same p v qs : q_get p (q_set p v qs) = Some v.
Proof.
  induction qs as [|[k w] r IH]; cbn.
  - now rewrite Z.eqb_refl.
  - destruct (k =? p) eqn:H; cbn; rewrite H; [reflexivity|exact IH].
Qed.
Lemma q_get_set_other p p' v qs : p' <> p -> q_get p' (q_set p v qs) = q_get p' qs.
Proof.
  intros Hne. induction qs as [|[k w] r IH]; cbn.
  - destruct (p =? p') eqn:H; [apply Z.eqb_eq in H; congruence|reflexivity].
  - destruct (k =? p) eqn:H; cbn.
    + apply Z.eqb_eq in H. subst k. destruct (p =? p') eqn:H'; [apply Z.eqb_eq in H'; congruence|reflexivity].
    + destruct (k =? p'); [reflexivity|exact IH].
Qed.
Lemma qof_set_same p v qs : qof p (q_set p v qs) = v.
Proof. unfold qof. now rewrite q_get_set_same. Qed.
Lemma qof_set_other p p' v qs : p' <> p -> qof p' (q_set p v qs) = qof p' qs.
Proof. intros H. unfold qof. now rewrite q_get_set_other. Qed.

Lemma keys_set p v qs k : In k (map fst (q_set p v qs)) <-> k = p \/ In k (map fst qs).
Proof.
  induction qs as [|[k0 w] r IH]; cbn.
  - intuition.
  - destruct (k0 =? p) eqn:H; cbn.
    + apply Z.eqb_eq in H. subst. intuition.
    + rewrite IH. intuition.
Qed.
Lemma nodup_set p v qs : NoDup (map fst qs) -> NoDup (map fst (q_set p v qs)).
Proof.
  induction qs as [|[k0 w] r IH]; cbn; intros H.
  - constructor; [intros []|constructor].
  - inversion H as [|? ? Hn Hr]; subst. destruct (k0 =? p) eqn:E; cbn.
    + constructor; assumption.
    + constructor; [|apply IH, Hr]. rewrite keys_set. intros [->|Hin]; [|contradiction].
      rewrite Z.eqb_refl in E. discriminate.
Qed.
Lemma q_get_none p qs : ~ In p (map fst qs) -> q_get p qs = None.
Proof.
  induction qs as [|[k w] r IH]; cbn; intros H; [reflexivity|].
  destruct (k =? p) eqn:E; [apply Z.eqb_eq in E; subst; tauto|]. apply IH. tauto.
Qed.

Lemma q_get_in p qs v : q_get p qs = Some v -> In p (map fst qs).
Proof.
  induction qs as [|[k w] r IH]; cbn; [discriminate|].
  destruct (k =? p) eqn:E; [apply Z.eqb_eq in E; auto|]. intros H. right. now apply IH.
Qed.
Lemma nodup_touch p qs : NoDup (map fst qs) -> NoDup (map fst (q_touch p qs)).
Proof. unfold q_touch. destruct (q_get p qs); [auto|apply nodup_set]. Qed.
Lemma qof_touch p p' qs : qof p' (q_touch p qs) = qof p' qs.
Proof.
  unfold q_touch. destruct (q_get p qs) eqn:H; [reflexivity|].
  destruct (Z.eq_dec p' p) as [->|Hne].
  - rewrite qof_set_same. unfold qof. now rewrite H.
  - now apply qof_set_other.
Qed.

Lemma samples_of_app p A B : samples_of p (A ++ B) = samples_of p A ++ samples_of p B.
Proof. apply flat_map_app. Qed.
Lemma passed_app A B : passed (A ++ B) = passed A ++ passed B.
Proof. apply flat_map_app. Qed.
Lemma cnts_cons k x l : cnts k (x :: l) = OCnt k (fst x) (snd x) :: cnts k l.
Proof. reflexivity. Qed.
Lemma samples_of_cons p o l : samples_of p (o :: l) = samples_of p [o] ++ samples_of p l.
Proof. apply (samples_of_app p [o] l). Qed.
Lemma samples_of_cnts p k l : samples_of p (cnts k l) = if k =? p then l else [].
Proof.
  induction l as [|[t c] l IH].
  - cbn. now destruct (k =? p).
  - rewrite cnts_cons, samples_of_cons, IH. cbn. destruct (k =? p); reflexivity.
Qed.
Lemma passed_cnts k l : passed (cnts k l) = [].
Proof. induction l as [|x l IH]; [reflexivity|]. rewrite cnts_cons. cbn. exact IH. Qed.

Lemma samples_of_drain p qs : NoDup (map fst qs) -> samples_of p (drain qs) = qof p qs.
Proof.
  unfold drain.
  induction qs as [|[k w] r IH]; cbn [rev map]; intros H; [reflexivity|].
  inversion H as [|? ? Hn Hr]; subst. rewrite flat_map_app, samples_of_app.
  etransitivity; [apply (f_equal2 (@app bp)); [exact (IH Hr)|]|].
  - cbn [flat_map fst snd]. rewrite app_nil_r. apply samples_of_cnts.
  - unfold qof. cbn [q_get].
    destruct (k =? p) eqn:E.
    + apply Z.eqb_eq in E. subst. rewrite (q_get_none _ _ Hn). reflexivity.
    + now rewrite app_nil_r.
Qed.
Lemma passed_drain qs : passed (drain qs) = [].
Proof.
  unfold drain. induction (rev qs) as [|[k w] r IH]; cbn [flat_map]; [reflexivity|].
  rewrite passed_app, IH, app_nil_r. apply passed_cnts.
Qed.

Lemma preps_of_cons p e r :
  preps_of p (e :: r) =
  match classify e with
  | Ok (Some iv) => if e_pid e =? p then iv :: preps_of p r else preps_of p r
  | _ => preps_of p r
  end.
Proof.
  unfold preps_of. cbn [flat_map]. destruct (classify e) as [[iv|]|]; try reflexivity.
  destruct (e_pid e =? p); reflexivity.
Qed.

Lemma feed_proj si keep evs : forall qs qs' os,
  feed si keep qs evs = Ok (qs', os) -> NoDup (map fst qs) ->
  NoDup (map fst qs') /\
  passed (List.concat os) = filter (fun e => keep || negb (is_prep_ev e)) evs /\
  forall p, samples_of p (List.concat os) = fst (stream_q si (qof p qs) (preps_of p evs)) /\
            qof p qs' = snd (stream_q si (qof p qs) (preps_of p evs)).
Proof.
  induction evs as [|e r IH]; intros qs qs' os Hf Hnd.
  - cbn in Hf. inversion Hf; subst. cbn. repeat split; auto.
  - cbn [feed] in Hf. destruct (step si keep qs e) as [[qs1 o]|] eqn:Hs; [|discriminate].
    destruct (feed si keep qs1 r) as [[qs2 os2]|] eqn:Hr; [|discriminate].
    inversion Hf; subst qs' os. clear Hf.
    unfold step in Hs. unfold is_prep_ev. cbn [filter List.concat].
    destruct (classify e) as [[[s e']|]|] eqn:Hc; [| |discriminate].
    + (* a Prep slice *)
      unfold create_counter in Hs.
      assert (Hnd0 : NoDup (map fst (q_touch (e_pid e) qs))) by now apply nodup_touch.
      destruct (Qle_b e' s) eqn:Hg.
      * (* empty interval: only the pid's queue entry is created *)
        inversion Hs; subst qs1 o. clear Hs.
        destruct (IH _ _ _ Hr Hnd0) as (Hn2 & Hp2 & Hq2).
        split; [exact Hn2|]. split.
        -- rewrite passed_app, Hp2. destruct keep; reflexivity.
        -- intros p. rewrite samples_of_app, preps_of_cons, Hc. destruct (Hq2 p) as [Ha Hb].
           rewrite qof_touch in Ha, Hb.
           assert (Hsm : samples_of p (if keep then [OPass e] else []) = []) by (destruct keep; reflexivity).
           rewrite Hsm. cbn [app]. destruct (e_pid e =? p); [|split; assumption].
           cbn [stream_q]. rewrite Hg. split; assumption.
      * destruct (update_queues si s e' (qof (e_pid e) (q_touch (e_pid e) qs))) as [ready nq] eqn:Hu.
        rewrite qof_touch in Hu.
        inversion Hs; subst qs1 o. clear Hs.
        destruct (IH _ _ _ Hr (nodup_set _ _ _ Hnd0)) as (Hn2 & Hp2 & Hq2).
        split; [exact Hn2|]. split.
        -- rewrite passed_app, Hp2. destruct keep; cbn [orb negb passed flat_map app].
           ++ change (flat_map _ (cnts (e_pid e) ready)) with (passed (cnts (e_pid e) ready)).
              now rewrite passed_cnts.
           ++ now rewrite passed_cnts.
        -- intros p. rewrite samples_of_app, preps_of_cons, Hc. destruct (Hq2 p) as [Ha Hb].
           assert (Hsm : samples_of p (if keep then OPass e :: cnts (e_pid e) ready else cnts (e_pid e) ready)
                         = if e_pid e =? p then ready else []).
           { destruct keep; [|apply samples_of_cnts].
             change (samples_of p (OPass e :: ?l)) with (samples_of p l). apply samples_of_cnts. }
           rewrite Hsm. destruct (e_pid e =? p) eqn:E.
           ++ apply Z.eqb_eq in E. subst p. cbn [stream_q]. rewrite Hg, Hu.
              rewrite qof_set_same in Ha, Hb.
              destruct (stream_q si nq (preps_of (e_pid e) r)) as [em q2]. cbn [fst snd] in *. now subst.
           ++ apply Z.eqb_neq in E. rewrite qof_set_other, qof_touch in Ha, Hb by congruence.
              cbn [app]. split; assumption.
    + (* passed through *)
      inversion Hs; subst qs1 o. clear Hs.
      destruct (IH _ _ _ Hr Hnd) as (Hn2 & Hp2 & Hq2).
      split; [exact Hn2|]. split.
      * rewrite orb_true_r. cbn [passed flat_map app]. f_equal. exact Hp2.
      * intros p. rewrite preps_of_cons, Hc. cbn [samples_of flat_map app]. apply Hq2.
Qed.

(* what run_stage emits for pid p = what one queue emits on p's Prep intervals; what it passes on *)
Theorem run_stage_proj si keep evs r :
  run_stage si keep evs = Ok r ->
  passed (all_out r) = filter (fun e => keep || negb (is_prep_ev e)) evs /\
  forall p, samples_of p (all_out r) =
            fst (stream_q si [] (preps_of p evs)) ++ snd (stream_q si [] (preps_of p evs)).
Proof.
  unfold run_stage. destruct (feed si keep [] evs) as [[qs os]|] eqn:Hf; [|discriminate].
  intros H. inversion H; subst r. clear H. unfold all_out. cbn [fst snd].
  destruct (feed_proj si keep evs [] qs os Hf) as (Hn & Hp & Hq); [constructor|].
  split.
  - now rewrite passed_app, passed_drain, app_nil_r.
  - intros p. destruct (Hq p) as [Ha Hb]. rewrite samples_of_app, samples_of_drain by exact Hn.
    unfold qof at 1 in Ha. unfold qof at 2 in Hb. cbn [q_get] in Ha, Hb. now rewrite Ha, Hb.
Qed.

(* ------------------------------------------------------------------ 7. main lemmas *)
Theorem counter_correct keep evs r p :
  run_stage true keep evs = Ok r -> StronglySorted start_le (preps_of p evs) ->
  series_ok (preps_of p evs) (samples_of p (all_out r)).
Proof.
  intros Hr Hso. destruct (run_stage_proj true keep evs r Hr) as [_ Hs]. rewrite Hs.
  now apply stream_q_correct.
Qed.

(* "a sample exists at every instant where the number changes": over a stretch (t1, t2] without a sample
   time the number of in-flight Preps is the same at both ends *)
Lemma no_change_without_sample ivs W t1 t2 :
  series_ok ivs W -> (t1 <= t2)%Q ->
  (forall p, In p W -> ~ ((t1 < fst p)%Q /\ (fst p <= t2)%Q)) ->
  count_at ivs t1 = count_at ivs t2.
Proof.
  intros H Hle Hno. rewrite <- !(ok_den _ _ H). unfold den. f_equal. unfold upto.
  apply filter_ext_in. intros p Hp.
  destruct (Qle_b_spec (fst p) t1), (Qle_b_spec (fst p) t2); try reflexivity; try lra.
  exfalso. apply (Hno p Hp). split; lra.
Qed.

(* the statement of C13 for one pid, spelled out *)
Definition seven_parts (I : list (Q * Q)) (W : list bp) : Prop :=
  StronglySorted (fun a b : bp => (fst a < fst b)%Q) W /\
  (forall t c, In (t, c) W -> c = count_at I t) /\
  (forall t, den 0 W t = count_at I t) /\
  (forall iv, In iv I -> (fst iv < snd iv)%Q ->
     (exists x, In x W /\ (fst x == fst iv)%Q) /\ (exists x, In x W /\ (fst x == snd iv)%Q)) /\
  (forall t1 t2, (t1 <= t2)%Q -> (forall x, In x W -> ~ ((t1 < fst x)%Q /\ (fst x <= t2)%Q)) ->
                 count_at I t1 = count_at I t2) /\
  lastc 0 W = 0 /\
  (Forall (fun iv => ~ (fst iv < snd iv)%Q) I -> W = []).

Lemma series_ok_seven I W : series_ok I W -> seven_parts I W.
Proof.
  intros H. unfold seven_parts. repeat split.
  - apply (ok_sorted _ _ H).
  - apply (ok_samples _ _ H).
  - apply (ok_den _ _ H).
  - apply (ok_cover _ _ H iv H0 H1).
  - apply (ok_cover _ _ H iv H0 H1).
  - intros t1 t2 Hle Hno. now apply (no_change_without_sample I W t1 t2 H).
  - apply (ok_last0 _ _ H).
  - apply (ok_empty _ _ H).
Qed.

Theorem counter_correct_full keep evs r p :
  run_stage true keep evs = Ok r ->
  StronglySorted (fun a b => (fst a <= fst b)%Q) (preps_of p evs) ->
  let W := samples_of p (all_out r) in
  let I := preps_of p evs in
  StronglySorted (fun a b : bp => (fst a < fst b)%Q) W /\
  (forall t c, In (t, c) W -> c = count_at I t) /\
  (forall t, den 0 W t = count_at I t) /\
  (forall iv, In iv I -> (fst iv < snd iv)%Q ->
     (exists x, In x W /\ (fst x == fst iv)%Q) /\ (exists x, In x W /\ (fst x == snd iv)%Q)) /\
  (forall t1 t2, (t1 <= t2)%Q -> (forall x, In x W -> ~ ((t1 < fst x)%Q /\ (fst x <= t2)%Q)) ->
                 count_at I t1 = count_at I t2) /\
  lastc 0 W = 0 /\
  (Forall (fun iv => ~ (fst iv < snd iv)%Q) I -> W = []).
Proof.
  intros Hr Hso W I. apply series_ok_seven. apply (counter_correct keep evs r p Hr). assumption.
Qed.

(* an interval with end <= start is in flight at no time *)
Lemma count_at_empty_iv ivs s e t : (e <= s)%Q -> count_at ((s, e) :: ivs) t = count_at ivs t.
Proof.
  intros H. unfold count_at. cbn [filter]. unfold inside at 1. cbn [fst snd].
  destruct (Qle_b_spec s t), (Qlt_b_spec t e); cbn [andb]; try reflexivity. lra.
Qed.

(* the guard of create_counter (fix of the zero-duration defect): an interval with end <= start emits
   nothing and leaves every pid's queue as it was (the pid merely gets its, possibly empty, dict entry) *)
Theorem empty_interval_ignored si qs p s e :
  (e <= s)%Q ->
  snd (create_counter si qs p s e) = [] /\ forall p', qof p' (fst (create_counter si qs p s e)) = qof p' qs.
Proof.
  intros H. unfold create_counter. destruct (Qle_b_spec e s); [|contradiction]. cbn [fst snd].
  split; [reflexivity|]. intros p'. apply qof_touch.
Qed.

Theorem prep_removed si keep evs r :
  run_stage si keep evs = Ok r ->
  passed (all_out r) = filter (fun e => keep || negb (is_prep_ev e)) evs.
Proof. intros Hr. apply (run_stage_proj si keep evs r Hr). Qed.

(* a stream sorted by ts (what MpSyncTightContext.drain delivers) is start-sorted for every pid *)
Definition ts_le (a b : ev) : Prop := (e_ts a <= e_ts b)%Q.

Lemma classify_start e iv : classify e = Ok (Some iv) -> fst iv = e_ts e.
Proof.
  unfold classify. destruct (ph_in_X (e_ph e)); [|discriminate].
  destruct (is_category_prep e) as [[|]|]; try discriminate.
  destruct (e_dur e); [|discriminate]. intros H. inversion H. reflexivity.
Qed.

Lemma preps_of_ge p evs (m : Q) :
  Forall (fun b => (m <= e_ts b)%Q) evs -> Forall (fun iv => (m <= fst iv)%Q) (preps_of p evs).
Proof.
  induction 1 as [|e r He _ IH]; [constructor|]. rewrite preps_of_cons.
  destruct (classify e) as [[iv|]|] eqn:Hc; try exact IH.
  destruct (e_pid e =? p); [|exact IH]. constructor; [|exact IH].
  now rewrite (classify_start e iv Hc).
Qed.

Theorem sorted_by_ts evs p : StronglySorted ts_le evs -> StronglySorted start_le (preps_of p evs).
Proof.
  induction 1 as [|e r Hs IH He]; [constructor|]. rewrite preps_of_cons.
  destruct (classify e) as [[iv|]|] eqn:Hc; try exact IH.
  destruct (e_pid e =? p); [|exact IH]. constructor; [exact IH|].
  unfold start_le. rewrite (classify_start e iv Hc). apply preps_of_ge. exact He.
Qed.

(* one queue step, stated like the design spike: the stored list R ++ M ++ P (times < s, in [s, e), >= e)
   becomes a list that denotes the old step function plus the indicator of [s, e) *)
Theorem queue_step_denotation R M P s e t :
  (s < e)%Q -> all_lt R s -> all_ge M s -> all_lt M e -> all_ge P e ->
  den 0 (R ++ new_list (lastc 0 R) M P s e) t = den 0 (R ++ M ++ P) t + ind t (s, e).
Proof.
  intros Hse HR HMs HMe HP.
  rewrite (den_app 0 R (new_list (lastc 0 R) M P s e)), (den_app 0 R (M ++ P)).
  unfold ind, inside. cbn [fst snd].
  destruct (Qle_b_spec s t) as [Hst|Hst]; cbn [andb].
  - assert (Ha : den 0 R t = lastc 0 R) by (apply den_all; eapply Fimp; [exact HR|]; cbn; intros; lra).
    rewrite Ha. now apply den_new_list_ge.
  - rewrite Z.add_0_r.
    rewrite (den_none _ (new_list (lastc 0 R) M P s e) t);
      [|eapply Fimp; [apply new_list_ge; eassumption|]; cbn; intros; lra].
    rewrite (den_none _ (M ++ P) t); [reflexivity|].
    apply Forall_app; split; [eapply Fimp; [exact HMs|]|eapply Fimp; [exact HP|]]; cbn; intros; lra.
Qed.

(* ------------------------------------------------------------------ 8. hold mode (sorted_input = false) *)
(* With -M no stage sorts the events in front of this one; the context is then built with
   sorted_input = False: update_queues hands nothing out, the stored list keeps the breakpoints before s
   (ready_list + new_list) and drain() emits the whole list.  The stored list after a step is
   R ++ new_list (lastc 0 R) M P s e for the three filters R / M / P of the old list; for an empty stored
   list that is the early return [(s,1); (e,0)] as well. *)
Lemma update_queues_hold s e q :
  update_queues false s e q =
  ([], filter (is_ready s) q ++
       new_list (lastc 0 (filter (is_ready s) q)) (filter (is_mid s e) q) (filter (is_post e) q) s e).
Proof. destruct q as [|x q]; reflexivity. Qed.

(* invariant of the stored list q after the (non-empty) intervals ivs, in ANY order *)
Record hinv (ivs : list (Q * Q)) (q : list bp) : Prop := mkHinv {
  hinv_sorted : tsorted q;
  hinv_den : forall t, den 0 q t = count_at ivs t;
  hinv_cover : forall iv, In iv ivs -> has_time (fst iv) q /\ has_time (snd iv) q;
  hinv_last0 : lastc 0 q = 0 }.

Lemma hinv_nil : hinv [] [].
Proof. constructor; [constructor|reflexivity|intros iv []|reflexivity]. Qed.

Lemma hold_step ivs q s e :
  hinv ivs q -> (s < e)%Q ->
  fst (update_queues false s e q) = [] /\ hinv (ivs ++ [(s, e)]) (snd (update_queues false s e q)).
Proof.
  intros [Hsort Hden Hcov Hlast] Hse. rewrite update_queues_hold. cbn [fst snd]. split; [reflexivity|].
  set (R := filter (is_ready s) q) in *.
  set (M := filter (is_mid s e) q) in *.
  set (P := filter (is_post e) q) in *.
  assert (Hsplit : q = R ++ M ++ P) by (apply split3; assumption).
  assert (HR : all_lt R s) by apply ready_lt.
  assert (HMs : all_ge M s) by apply mid_ge.
  assert (HMe : all_lt M e) by apply mid_lt.
  assert (HP : all_ge P e) by apply post_ge.
  assert (HsR : tsorted R) by now apply tsorted_filter.
  assert (HsM : tsorted M) by now apply tsorted_filter.
  assert (HsP : tsorted P) by now apply tsorted_filter.
  set (LR := lastc 0 R).
  assert (HNLge : all_ge (new_list LR M P s e) s) by now apply new_list_ge.
  constructor.
  - (* sorted *)
    apply tsorted_app; [exact HsR|now apply new_list_sorted|]. eapply cross_lt_ge; eassumption.
  - (* denotation: the old step function plus the indicator of [s, e), wherever s lies *)
    intros t. rewrite count_at_app, <- (Hden t). rewrite Hsplit.
    apply queue_step_denotation; assumption.
  - (* every start and end is a breakpoint *)
    assert (Hkeep : forall t, has_time t q -> has_time t (R ++ new_list LR M P s e)).
    { intros t (p & Hp & Ht). rewrite Hsplit in Hp.
      apply in_app_or in Hp as [Hp|Hp]; [apply has_time_app_l; now exists p|].
      apply has_time_app_r. unfold new_list. apply has_time_app_r.
      apply in_app_or in Hp as [Hp|Hp]; [apply has_time_app_l, has_time_bump; now exists p|].
      apply has_time_app_r, has_time_app_r. now exists p. }
    assert (Hs : has_time s (new_list LR M P s e)).
    { unfold new_list. destruct M as [|[y d] M'] eqn:EM.
      - apply has_time_app_l. exists (s, LR + 1). split; [now left|reflexivity].
      - destruct (Qlt_b_spec s y).
        + apply has_time_app_l. exists (s, LR + 1). split; [now left|reflexivity].
        + pose proof (Forall_inv HMs) as Hy. cbn [fst] in Hy. cbn [app]. apply has_time_app_l.
          exists (y, d + 1). split; [now left|cbn; lra]. }
    assert (He : has_time e (new_list LR M P s e)).
    { unfold new_list. apply has_time_app_r, has_time_app_r. destruct P as [|[y d] P'] eqn:EP.
      - apply has_time_app_l. eexists (e, _). split; [now left|reflexivity].
      - destruct (Qlt_b_spec e y).
        + apply has_time_app_l. eexists (e, _). split; [now left|reflexivity].
        + pose proof (Forall_inv HP) as Hy. cbn [fst] in Hy. cbn [app].
          exists (y, d). split; [now left|cbn; lra]. }
    intros iv Hiv. apply in_app_or in Hiv as [Hiv|[<-|[]]].
    + destruct (Hcov iv Hiv). split; apply Hkeep; assumption.
    + cbn [fst snd]. split; apply has_time_app_r; assumption.
  - (* series ends at 0 *)
    rewrite Hsplit in Hlast. rewrite lastc_app in Hlast. fold LR in Hlast.
    rewrite lastc_app. fold LR. unfold new_list.
    rewrite !lastc_app. rewrite lastc_app in Hlast.
    destruct P as [|[y d] P'] eqn:EP.
    + cbn [lastc fold_left snd] in *. exact Hlast.
    + destruct (Qlt_b e y); cbn [lastc fold_left snd] in *; exact Hlast.
Qed.

(* one queue, whole stream, no hypothesis on the order *)
Lemma stream_q_hold ivs : forall ivs0 q,
  hinv ivs0 q -> Forall nonempty_iv ivs ->
  fst (stream_q false q ivs) = [] /\ hinv (ivs0 ++ ivs) (snd (stream_q false q ivs)).
Proof.
  induction ivs as [|[s e] r IH]; intros ivs0 q Hinv Hne.
  - cbn. rewrite app_nil_r. split; [reflexivity|exact Hinv].
  - inversion Hne as [|? ? Hne1 Hne']; subst. unfold nonempty_iv in Hne1. cbn [fst snd] in Hne1.
    cbn [stream_q]. destruct (Qle_b_spec e s) as [Hes|_]; [lra|].
    destruct (hold_step ivs0 q s e Hinv Hne1) as [Hf Hi].
    destruct (update_queues false s e q) as [rd q1]. cbn [fst snd] in Hf, Hi. subst rd.
    destruct (IH (ivs0 ++ [(s, e)]) q1 Hi Hne') as [Hf2 Hi2].
    destruct (stream_q false q1 r) as [em q2]. cbn [fst snd] in *. subst em.
    split; [reflexivity|]. rewrite <- app_assoc in Hi2. exact Hi2.
Qed.

Lemma stream_q_hold_correct_ne ivs :
  Forall nonempty_iv ivs ->
  series_ok ivs (fst (stream_q false [] ivs) ++ snd (stream_q false [] ivs)).
Proof.
  intros Hne. destruct (stream_q_hold ivs [] [] hinv_nil Hne) as [Hf Hi]. cbn [app] in Hi.
  rewrite Hf. cbn [app]. destruct Hi as [H1 H2 H3 H4]. constructor; try assumption.
  - intros t c Hin. rewrite <- H2. symmetry. now apply den_at_sample.
  - intros iv Hin _. now apply H3.
  - intros Hall. destruct ivs as [|iv r]; [reflexivity|].
    inversion Hall as [|? ? Hn _]; subst. inversion Hne; subst. contradiction.
Qed.

Theorem stream_q_hold_correct ivs :
  series_ok ivs (fst (stream_q false [] ivs) ++ snd (stream_q false [] ivs)).
Proof.
  rewrite stream_q_skip. apply series_ok_skip. apply stream_q_hold_correct_ne, filter_ne_nonempty.
Qed.

(* in hold mode the callbacks hand out no counter sample at all: everything comes from drain() *)
Lemma stream_q_hold_silent ivs : forall q, fst (stream_q false q ivs) = [].
Proof.
  induction ivs as [|[s e] r IH]; intros q; [reflexivity|]. cbn [stream_q].
  destruct (Qle_b e s); [apply IH|]. rewrite update_queues_hold.
  specialize (IH (filter (is_ready s) q ++
       new_list (lastc 0 (filter (is_ready s) q)) (filter (is_mid s e) q) (filter (is_post e) q) s e)).
  destruct (stream_q false _ r) as [em q2]. cbn [fst] in *. now subst.
Qed.

Theorem counter_correct_any_order keep evs r p :
  run_stage false keep evs = Ok r ->
  series_ok (preps_of p evs) (samples_of p (all_out r)).
Proof.
  intros Hr. destruct (run_stage_proj false keep evs r Hr) as [_ Hs]. rewrite Hs.
  apply stream_q_hold_correct.
Qed.

Theorem counter_correct_full_any_order keep evs r p :
  run_stage false keep evs = Ok r ->
  let W := samples_of p (all_out r) in
  let I := preps_of p evs in
  StronglySorted (fun a b : bp => (fst a < fst b)%Q) W /\
  (forall t c, In (t, c) W -> c = count_at I t) /\
  (forall t, den 0 W t = count_at I t) /\
  (forall iv, In iv I -> (fst iv < snd iv)%Q ->
     (exists x, In x W /\ (fst x == fst iv)%Q) /\ (exists x, In x W /\ (fst x == snd iv)%Q)) /\
  (forall t1 t2, (t1 <= t2)%Q -> (forall x, In x W -> ~ ((t1 < fst x)%Q /\ (fst x <= t2)%Q)) ->
                 count_at I t1 = count_at I t2) /\
  lastc 0 W = 0 /\
  (Forall (fun iv => ~ (fst iv < snd iv)%Q) I -> W = []).
Proof.
  intros Hr W I. apply series_ok_seven. apply (counter_correct_any_order keep evs r p Hr).
Qed.

(* ... and nothing but the passed-through events leaves the callbacks in hold mode *)
Theorem hold_callbacks_silent keep evs r p :
  run_stage false keep evs = Ok r -> samples_of p (List.concat (fst r)) = [].
Proof.
  unfold run_stage. destruct (feed false keep [] evs) as [[qs os]|] eqn:Hf; [|discriminate].
  intros H. inversion H; subst r. clear H. cbn [fst].
  destruct (feed_proj false keep evs [] qs os Hf) as (_ & _ & Hq); [constructor|].
  destruct (Hq p) as [Ha _]. rewrite Ha. apply stream_q_hold_silent.
Qed.

(* the order matters in the default mode: the stream of the replay that led to the fix
   ([1013,1015) [1015,1024) [1014,1023), the third one listed late) is miscounted when the context
   believes its input sorted, and counted right when it holds its samples *)
Definition late_witness : list ev :=
  [E "X" "a Cmpt Prep" 0 (1013 # 1) (Some (2 # 1)) 0 0; E "X" "b Cmpt Prep" 0 (1015 # 1) (Some (9 # 1)) 1 0;
   E "X" "c Cmpt Prep" 0 (1014 # 1) (Some (9 # 1)) 2 0].

(* the input that used to break the property (a Prep slice with dur = 0 after a normal one): now the
   empty slice leaves no trace in the series *)
Definition zero_witness : list ev :=
  [E "X" "a Cmpt Prep" 0 (0 # 1) (Some (4 # 1)) 0 0; E "X" "b Cmpt Prep" 0 (10 # 1) (Some (0 # 1)) 1 0;
   E "X" "c Cmpt Prep" 7 (11 # 1) (Some (0 # 1)) 2 0].

Lemma zero_witness_ok :
  exists r, run_stage true false zero_witness = Ok r /\
    map (fun x => (Qred (fst x), snd x)) (samples_of 0 (all_out r)) = [((0 # 1)%Q, 1); ((4 # 1)%Q, 0)] /\
    samples_of 7 (all_out r) = [] /\ passed (all_out r) = [].
Proof. eexists. split; [vm_compute; reflexivity|]. repeat split; vm_compute; reflexivity. Qed.
