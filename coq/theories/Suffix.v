(* Suffix.v — layer A lemma behind C02's "no pipeline-internal scratch data leaks into the export":
   if the pipeline ends with a cleaning stage [c] followed by stages [post] that never re-introduce dirt, then
   EVERYTHING Engine.run exports is clean — including what earlier contexts release only at drain time (sorted
   queues, barrier holds, clock-alignment buffers, synthesized counters and flows), because EventProcessor.drain
   pushes it through all remaining stages, [c] among them.

   [clean] is any predicate on events ("carries none of ts_all / ts_dev / jobhash", "is not a ph=F helper").
   [Inv] is what the contexts of the suffix satisfy ("withholds only clean events").  The prefix is arbitrary:
   any stages, any sharing among themselves, any behaviour - but no prefix stage shares a context with the suffix. *)
From Coq Require Import List Arith Lia Bool.
Import ListNotations.
From AiuModel Require Import Pipeline.
Set Implicit Arguments.

Section Suffix.
Variables E St : Type.
Variable clean : E -> Prop.
Variable Inv : St -> Prop.
Notation stage := (stage E St).
Notation store := (store St).

(* the cleaning stage: whatever comes in, what goes out (callback or drain) is clean, and its context stays fine *)
Definition cleaner (c : stage) : Prop :=
  (forall s e, Inv s -> Forall clean (snd (cb c s e)) /\ Inv (fst (cb c s e))) /\
  (forall s, Inv s -> Forall clean (snd (dr c s)) /\ Inv (fst (dr c s))).
(* a stage after the cleaner: clean in, clean out; drains only clean events *)
Definition keeps_clean (g : stage) : Prop :=
  (forall s e, clean e -> Inv s -> Forall clean (snd (cb g s e)) /\ Inv (fst (cb g s e))) /\
  (forall s, Inv s -> Forall clean (snd (dr g s)) /\ Inv (fst (dr g s))).

Variable suf : list stage.                     (* c :: post, fixed *)
Definition SInv (st : store) : Prop := forall g : stage, In g suf -> Inv (st (cid g)).
Definition apart (pr : list stage) : Prop := forall g h : stage, In g pr -> In h suf -> cid g <> cid h.

Lemma SInv_upd_in st (g : stage) s : SInv st -> Inv s -> SInv (upd st (cid g) s).
Proof.
  intros H Hs h Hh. unfold upd. destruct (Nat.eqb_spec (cid g) (cid h)) as [_|]; [|now apply H].
  exact Hs.
Qed.
Lemma SInv_upd_out st c s : (forall h : stage, In h suf -> c <> cid h) -> SInv st -> SInv (upd st c s).
Proof.
  intros Hc H h Hh. unfold upd. destruct (Nat.eqb_spec c (cid h)) as [Heq|]; [exfalso; now apply (Hc h Hh)|now apply H].
Qed.

(* ---- one stage over a list of events ---- *)
Lemma feedc_keeps g : keeps_clean g -> forall es s, Forall clean es -> Inv s ->
  Forall clean (snd (feedc g s es)) /\ Inv (fst (feedc g s es)).
Proof.
  intros [Hc _]. induction es as [|e r IH]; intros s He Hs; cbn [feedc]; [split; [constructor|exact Hs]|].
  inversion He as [|? ? He1 He2]; subst. destruct (Hc s e He1 Hs) as [Ho Hi].
  destruct (cb g s e) as [s1 o]. cbn [fst snd] in *. destruct (IH s1 He2 Hi) as [Ho2 Hi2].
  destruct (feedc g s1 r) as [s2 o2]. cbn [fst snd] in *. split; [now apply Forall_app|exact Hi2].
Qed.
Lemma feedc_cleaner c : cleaner c -> forall es s, Inv s ->
  Forall clean (snd (feedc c s es)) /\ Inv (fst (feedc c s es)).
Proof.
  intros [Hc _]. induction es as [|e r IH]; intros s Hs; cbn [feedc]; [split; [constructor|exact Hs]|].
  destruct (Hc s e Hs) as [Ho Hi]. destruct (cb c s e) as [s1 o]. cbn [fst snd] in *.
  destruct (IH s1 Hi) as [Ho2 Hi2]. destruct (feedc c s1 r) as [s2 o2]. cbn [fst snd] in *.
  split; [now apply Forall_app|exact Hi2].
Qed.

(* ---- a list [ps] of suffix stages (all keep clean) ---- *)
Lemma through_keeps : forall ps, Forall keeps_clean ps -> incl ps suf -> forall st es,
  SInv st -> Forall clean es -> Forall clean (snd (through ps st es)) /\ SInv (fst (through ps st es)).
Proof.
  induction ps as [|g r IH]; intros Hk Hin st es Hs He; cbn [through]; [split; assumption|].
  inversion Hk as [|? ? Hg Hr]; subst. unfold feed.
  assert (Hgi : In g suf) by (apply Hin; now left).
  destruct (@feedc_keeps g Hg es (st (cid g)) He (Hs g Hgi)) as [Ho Hi].
  destruct (feedc g (st (cid g)) es) as [s o]. cbn [fst snd] in *.
  apply IH; [exact Hr|intros x Hx; apply Hin; now right|now apply SInv_upd_in|exact Ho].
Qed.
Lemma inputs_keeps ps : Forall keeps_clean ps -> incl ps suf -> forall es st,
  SInv st -> Forall clean es -> Forall clean (snd (inputs ps st es)) /\ SInv (fst (inputs ps st es)).
Proof.
  intros Hk Hin. induction es as [|e r IH]; intros st Hs He; cbn [inputs]; [split; [constructor|exact Hs]|].
  inversion He as [|? ? He1 He2]; subst.
  destruct (@through_keeps ps Hk Hin st [e] Hs (Forall_cons _ He1 (Forall_nil _))) as [Ho Hi].
  destruct (through ps st [e]) as [st1 o]. cbn [fst snd] in *. destruct (IH st1 Hi He2) as [Ho2 Hi2].
  destruct (inputs ps st1 r) as [st2 o2]. cbn [fst snd] in *. split; [now apply Forall_app|exact Hi2].
Qed.
Lemma drain_keeps : forall ps, Forall keeps_clean ps -> incl ps suf -> forall st,
  SInv st -> Forall clean (snd (drain ps st)).
Proof.
  induction ps as [|g r IH]; intros Hk Hin st Hs; cbn [drain]; [constructor|].
  inversion Hk as [|? ? Hg Hr]; subst. assert (Hgi : In g suf) by (apply Hin; now left).
  destruct Hg as [_ Hd]. destruct (Hd (st (cid g)) (Hs g Hgi)) as [Hp Hi].
  destruct (dr g (st (cid g))) as [s' pend]. cbn [fst snd] in *.
  assert (Hin' : incl r suf) by (intros x Hx; apply Hin; now right).
  destruct (@inputs_keeps r Hr Hin' pend (upd st (cid g) s') (@SInv_upd_in st g s' Hs Hi) Hp) as [Ho Hs1].
  destruct (inputs r (upd st (cid g) s') pend) as [st1 o1]. cbn [fst snd] in *.
  specialize (IH Hr Hin' st1 Hs1). destruct (drain r st1) as [st2 o2]. cbn [snd] in *. now apply Forall_app.
Qed.

(* ---- the whole pipeline  pr ++ c :: post  with suf = c :: post ---- *)
Variables (c : stage) (post : list stage).
Hypothesis suf_eq : suf = c :: post.
Hypothesis c_cleans : cleaner c.
Hypothesis post_keep : Forall keeps_clean post.

Lemma post_incl : incl post suf.
Proof. rewrite suf_eq. intros x Hx. now right. Qed.
Lemma c_in : In c suf.
Proof. rewrite suf_eq. now left. Qed.

Lemma through_all : forall pr, apart pr -> forall st es,
  SInv st -> Forall clean (snd (through (pr ++ c :: post) st es)) /\ SInv (fst (through (pr ++ c :: post) st es)).
Proof.
  induction pr as [|g r IH]; intros Ha st es Hs.
  - cbn [app through]. unfold feed.
    destruct (@feedc_cleaner c c_cleans es (st (cid c)) (Hs c c_in)) as [Ho Hi].
    destruct (feedc c (st (cid c)) es) as [s o]. cbn [fst snd] in *.
    apply through_keeps; [exact post_keep|exact post_incl|now apply SInv_upd_in|exact Ho].
  - cbn [app through]. unfold feed. destruct (feedc g (st (cid g)) es) as [s o].
    apply IH; [intros x h Hx Hh; apply Ha; [now right|exact Hh]|].
    apply SInv_upd_out; [intros h Hh; apply Ha; [now left|exact Hh]|exact Hs].
Qed.
Lemma inputs_all pr : apart pr -> forall es st,
  SInv st -> Forall clean (snd (inputs (pr ++ c :: post) st es)) /\ SInv (fst (inputs (pr ++ c :: post) st es)).
Proof.
  intros Ha. induction es as [|e r IH]; intros st Hs; cbn [inputs]; [split; [constructor|exact Hs]|].
  destruct (@through_all pr Ha st [e] Hs) as [Ho Hi].
  destruct (through (pr ++ c :: post) st [e]) as [st1 o]. cbn [fst snd] in *. destruct (IH st1 Hi) as [Ho2 Hi2].
  destruct (inputs (pr ++ c :: post) st1 r) as [st2 o2]. cbn [fst snd] in *. split; [now apply Forall_app|exact Hi2].
Qed.
Lemma drain_all : forall pr, apart pr -> forall st, SInv st -> Forall clean (snd (drain (pr ++ c :: post) st)).
Proof.
  induction pr as [|g r IH]; intros Ha st Hs.
  - cbn [app drain]. destruct c_cleans as [_ Hd]. destruct (Hd (st (cid c)) (Hs c c_in)) as [Hp Hi].
    destruct (dr c (st (cid c))) as [s' pend]. cbn [fst snd] in *.
    destruct (@inputs_keeps post post_keep post_incl pend (upd st (cid c) s') (@SInv_upd_in st c s' Hs Hi) Hp) as [Ho Hs1].
    destruct (inputs post (upd st (cid c) s') pend) as [st1 o1]. cbn [fst snd] in *.
    pose proof (@drain_keeps post post_keep post_incl st1 Hs1) as Hd2.
    destruct (drain post st1) as [st2 o2]. cbn [snd] in *. now apply Forall_app.
  - cbn [app drain]. destruct (dr g (st (cid g))) as [s' pend].
    assert (Ha' : apart r) by (intros x h Hx Hh; apply Ha; [now right|exact Hh]).
    assert (Hs' : SInv (upd st (cid g) s'))
      by (apply SInv_upd_out; [intros h Hh; apply Ha; [now left|exact Hh]|exact Hs]).
    destruct (@inputs_all r Ha' pend (upd st (cid g) s') Hs') as [Ho Hs1].
    destruct (inputs (r ++ c :: post) (upd st (cid g) s') pend) as [st1 o1]. cbn [fst snd] in *.
    specialize (IH Ha' st1 Hs1). destruct (drain (r ++ c :: post) st1) as [st2 o2]. cbn [snd] in *.
    now apply Forall_app.
Qed.

Theorem suffix_cleans pr st es : apart pr -> SInv st -> Forall clean (run (pr ++ c :: post) st es).
Proof.
  intros Ha Hs. unfold run. destruct (@inputs_all pr Ha es st Hs) as [Ho Hs1].
  destruct (inputs (pr ++ c :: post) st es) as [st1 o1]. cbn [fst snd] in *.
  pose proof (@drain_all pr Ha st1 Hs1) as Hd. destruct (drain (pr ++ c :: post) st1) as [st2 o2]. cbn [snd] in *.
  now apply Forall_app.
Qed.
End Suffix.

(* ---- the same induction, keeping the invariant of the final store: used for "every pipeline-wide
   invariant of events and context states is preserved by Engine.run" (prefix empty, suf = all stages) ---- *)
Section WholePipeline.
Variables E St : Type.
Variable good : E -> Prop.
Variable Inv : St -> Prop.
Variable gs : list (stage E St).
Hypothesis all_keep : Forall (keeps_clean good Inv) gs.

Lemma drain_keeps_inv : forall ps, Forall (keeps_clean good Inv) ps -> incl ps gs -> forall st,
  SInv Inv gs st -> Forall good (snd (drain ps st)) /\ SInv Inv gs (fst (drain ps st)).
Proof.
  induction ps as [|g r IH]; intros Hk Hin st Hs; cbn [drain]; [split; [constructor|exact Hs]|].
  inversion Hk as [|? ? Hg Hr]; subst. assert (Hgi : In g gs) by (apply Hin; now left).
  destruct Hg as [_ Hd]. destruct (Hd (st (cid g)) (Hs g Hgi)) as [Hp Hi].
  destruct (dr g (st (cid g))) as [s' pend]. cbn [fst snd] in *.
  assert (Hin' : incl r gs) by (intros x Hx; apply Hin; now right).
  destruct (@inputs_keeps E St good Inv gs r Hr Hin' pend (upd st (cid g) s') (@SInv_upd_in E St Inv gs st g s' Hs Hi) Hp) as [Ho Hs1].
  destruct (inputs r (upd st (cid g) s') pend) as [st1 o1]. cbn [fst snd] in *.
  destruct (IH Hr Hin' st1 Hs1) as [Ho2 Hs2]. destruct (drain r st1) as [st2 o2]. cbn [fst snd] in *.
  split; [now apply Forall_app|exact Hs2].
Qed.

Theorem run_invariant st es : SInv Inv gs st -> Forall good es ->
  let '(st1, o1) := inputs gs st es in
  let '(st2, o2) := drain gs st1 in
  Forall good (o1 ++ o2) /\ SInv Inv gs st2.
Proof.
  intros Hs He.
  destruct (@inputs_keeps E St good Inv gs gs all_keep (fun x H => H) es st Hs He) as [Ho Hs1].
  destruct (inputs gs st es) as [st1 o1]. cbn [fst snd] in *.
  destruct (@drain_keeps_inv gs all_keep (fun x H => H) st1 Hs1) as [Ho2 Hs2].
  destruct (drain gs st1) as [st2 o2]. cbn [fst snd] in *. split; [now apply Forall_app|exact Hs2].
Qed.
End WholePipeline.
