(* Overlap.v — executable model of the partial-overlap resolution of acelyzer (property C04).

   Modelled source (src/aiu_trace_analyzer):
   * pipeline/sort.py      EventSortingContext.sort / drain with sortkey "ts,dur:r", global_sort=False
                           ([sort_stage]: one queue per (pid,tid) in first-appearance order, each queue
                           stable-sorted by ts ascending, dur descending, queues concatenated)
   * pipeline/overlap.py   OverlapDetectionContext.collect_tid_space            ([seen_tids], [src_tids])
                           OverlapDetectionContext._create_tid_space            ([cands])
                           OverlapDetectionContext._collect_and_build_tid_space ([build_pid], [build_all], [table_of])
                           OverlapDetectionContext.find_next_tid                ([nxt_of]; KeyError = [Err "KeyError"])
                           OverlapDetectionContext.overlap_detection, check_overlap_condition,
                           update_queue_status, handle_overlap for OVERLAP_RESOLVE_TID and _DROP ([detect])
                           detect_partial_overlap_tids / detect_partial_overlap_events ([feed]: only ph "X"
                           events are collected / examined, everything else passes)
   * core/acelyzer.py      register_processing_functions: sort_events -> detect_partial_overlap_tids ->
                           pipeline_barrier -> detect_partial_overlap_events ([run]: the whole sorted stream
                           is collected before the first event is examined; this is the two_phase reading of
                           Pipeline.stream_compose)

   Time is integer (the tie uses grids k * 2^-j on which the code's round(ts+dur, 4) is the identity).
   A lane state is (cur, ends); the code's `blocked` flag is always (ends <> []) (the code asserts it).
   Lanes are keyed by (pid, tid); the code keys them by hash((pid, tid)) (assumed collision-free).
   Not modelled: max_tid_streams = -1 (unreachable from the command line), OVERLAP_RESOLVE_ASYNC/WARN/SHIFT,
   events without "tid"/"ts". *)
From Coq Require Import ZArith List Bool String.
Import ListNotations.
From AiuModel Require Import Base.
Local Open Scope Z_scope.

Record ev := E { isx : bool; pid : Z; tid : Z; ts : Z; dur : Z; uid : Z }.
Definition en (a : ev) : Z := ts a + dur a.           (* event_end = round(ts + dur, 4) *)
Definition key := (Z * Z)%type.
Definition lane (a : ev) : key := (pid a, tid a).
Definition keyb (x y : key) : bool := (fst x =? fst y) && (snd x =? snd y).
Definition retid (a : ev) (t : Z) : ev :=
  {| isx := isx a; pid := pid a; tid := t; ts := ts a; dur := dur a; uid := uid a |}.

(* ------------------------------------------------------------------ sort stage (sort.py) *)
Definition memz (x : Z) (l : list Z) : bool := existsb (Z.eqb x) l.
Definition memk (x : key) (l : list key) : bool := existsb (keyb x) l.
(* first-appearance order without repetition (dict insertion order) *)
Fixpoint dedupk (seen : list key) (l : list key) : list key :=
  match l with
  | [] => []
  | x :: r => if memk x seen then dedupk seen r else x :: dedupk (x :: seen) r
  end.
Fixpoint dedupz (seen : list Z) (l : list Z) : list Z :=
  match l with
  | [] => []
  | x :: r => if memz x seen then dedupz seen r else x :: dedupz (x :: seen) r
  end.
(* key = (float(ts), -float(dur)) ascending *)
Definition ev_leb (a b : ev) : bool := (ts a <? ts b) || ((ts a =? ts b) && (dur b <=? dur a)).
Definition on_lane (k : key) (a : ev) : bool := keyb (lane a) k.
Definition sort_stage (evs : list ev) : list ev :=
  flat_map (fun k => isort ev_leb (filter (on_lane k) evs)) (dedupk [] (map lane evs)).

(* ------------------------------------------------------------------ tid space (collection phase) *)
Fixpoint zrange (from : Z) (n : nat) : list Z :=
  match n with O => [] | S n' => from :: zrange (from + 1) n' end.
(* _create_tid_space: the first max(ms,1) integers above [t] that are not excluded.  The while loop
   inspects t+1, t+2, ...; it cannot need more than |exclude| + n steps. *)
Definition cands (ms : nat) (t : Z) (excl : list Z) : list Z :=
  let n := Nat.max ms 1 in
  firstn n (filter (fun c => negb (memz c excl)) (zrange (t + 1) (List.length excl + n))).

(* one iteration of `for tid in tspace.keys()`: candidates, exclude.update, table entries *)
Definition space := list (Z * list Z).          (* source tid, its private candidate list *)
Fixpoint build_tids (ms : nat) (tids : list Z) (excl : list Z) : space :=
  match tids with
  | [] => []
  | t :: r => let c := cands ms t excl in (t, c) :: build_tids ms r (excl ++ c)
  end.
(* tids of the ph "X" events of one pid *)
Definition xtids (p : Z) (evs : list ev) : list Z :=
  map tid (filter (fun a => isx a && (pid a =? p)) evs).
Definition seen_tids (p : Z) (evs : list ev) : list Z := xtids p evs.          (* tspace[-1], a set *)
Definition src_tids (p : Z) (evs : list ev) : list Z :=                           (* keys except -1 *)
  filter (fun t => negb (t =? -1)) (dedupz [] (xtids p evs)).
Definition build_pid (ms : nat) (p : Z) (evs : list ev) : space :=
  build_tids ms (src_tids p evs) (seen_tids p evs).
Definition xpids (evs : list ev) : list Z := dedupz [] (map pid (filter isx evs)).
Definition build_all (ms : nat) (evs : list ev) : list (Z * space) :=
  map (fun p => (p, build_pid ms p evs)) (xpids evs).

(* new_tspace: tid -> c[0], c[i] -> c[i+1]; later assignments overwrite earlier ones (dict), so the
   table lists the LATEST assignment first and [lookup] returns the first hit *)
Fixpoint chain_pairs (c : list Z) : list (Z * Z) :=
  match c with
  | a :: ((b :: _) as r) => (a, b) :: chain_pairs r
  | _ => []
  end.
Definition entries (tc : Z * list Z) : list (Z * Z) :=
  match snd tc with
  | [] => []                                         (* unreachable: max(ms,1) >= 1 candidates exist *)
  | c0 :: _ => (fst tc, c0) :: chain_pairs (snd tc)
  end.
Definition table_of (sp : space) : list (Z * Z) := rev (flat_map entries sp).
Fixpoint lookup (k : Z) (tbl : list (Z * Z)) : option Z :=
  match tbl with
  | [] => None
  | (a, b) :: r => if a =? k then Some b else lookup k r
  end.
Fixpoint find_pid (p : Z) (all : list (Z * space)) : option space :=
  match all with
  | [] => None
  | (q, sp) :: r => if q =? p then Some sp else find_pid p r
  end.
(* find_next_tid: self.tid_space[pid][tid]; a missing pid or tid is the code's KeyError *)
Definition nxt_of (all : list (Z * space)) (k : key) : option Z :=
  match find_pid (fst k) all with
  | None => None
  | Some sp => lookup (snd k) (table_of sp)
  end.

(* ------------------------------------------------------------------ detection phase *)
Definition lstate := (Z * list Z)%type.           (* cur, active end times (blocked = ends <> []) *)
Definition lanes := key -> lstate.
Definition upd (L : lanes) (k : key) (v : lstate) : lanes := fun j => if keyb k j then v else L j.
Definition L0 : lanes := fun _ => (0, []).
(* check_overlap_condition: some active end strictly inside (ts, end) *)
Definition overlaps (s e : Z) (ends : list Z) : bool := existsb (fun x => (s <? x) && (x <? e)) ends.
(* update_queue_status: keep the ends that are >= the new current ts *)
Definition refresh (c : Z) (ends : list Z) : list Z := filter (fun x => c <=? x) ends.

Inductive mode := TID | DROP.
Inductive res := Err (tag : string) | Ok (L : lanes) (out : list ev).

(* overlap_detection for one ph "X" event, with handle_overlap's re-entry for TID *)
Fixpoint detect (m : mode) (fuel : nat) (nxt : key -> option Z) (L : lanes) (a : ev) : res :=
  let k := lane a in
  let '(cur, ends) := L k in
  if ts a <? cur then Err "AssertionError"                       (* assert current_ts <= event["ts"] *)
  else if negb (overlaps (ts a) (en a) ends)
  then Ok (upd L k (ts a, refresh (ts a) (ends ++ [en a]))) [a]
  else match m with
       | DROP => Ok (upd L k (ts a, refresh (ts a) ends)) []
       | TID =>
           match nxt k with
           | None => Err "KeyError"
           | Some t' =>
               match fuel with
               | O => Err "FuelExhausted"                         (* never observed: fuel > chain length *)
               | S f =>
                   match detect m f nxt L (retid a t') with
                   | Ok L' out => Ok (upd L' k (ts a, refresh (ts a) (snd (L' k)))) out
                   | Err t => Err t
                   end
               end
           end
       end.

(* detect_partial_overlap_events over a stream; the first exception aborts the run *)
Fixpoint feed (m : mode) (fuel : nat) (nxt : key -> option Z) (L : lanes) (evs : list ev) : res :=
  match evs with
  | [] => Ok L []
  | a :: r =>
      let step := if isx a then detect m fuel nxt L a else Ok L [a] in
      match step with
      | Err t => Err t
      | Ok L1 o1 =>
          match feed m fuel nxt L1 r with
          | Err t => Err t
          | Ok L2 o2 => Ok L2 (o1 ++ o2)
          end
      end
  end.

(* the stream that enters the overlap stages *)
Definition pre_stream (presort : bool) (evs : list ev) : list ev :=
  if presort then sort_stage evs else evs.
Definition spaces (m : mode) (ms : nat) (pre : list ev) : list (Z * space) :=
  match m with TID => build_all ms pre | DROP => [] end.
Definition fuel_of (ms : nat) : nat := S (Nat.max ms 1).
Definition run (m : mode) (ms : nat) (presort : bool) (evs : list ev) : res :=
  let pre := pre_stream presort evs in
  feed m (fuel_of ms) (nxt_of (spaces m ms pre)) L0 pre.

(* ------------------------------------------------------------------ encoders for the tie *)
Definition ev_val (a : ev) : val :=
  VL [VB (isx a); VZ (pid a); VZ (tid a); VZ (ts a); VZ (dur a); VZ (uid a)].
Definition pair_leb (a b : Z * Z) : bool := fst a <=? fst b.
Definition table_val (sp : space) : val :=
  VL (map (fun ab => VL [VZ (fst ab); VZ (snd ab)]) (isort pair_leb (table_of sp))).
Definition pid_leb (a b : Z * space) : bool := fst a <=? fst b.
Definition spaces_val (all : list (Z * space)) : val :=
  VL (map (fun ps => VL [VZ (fst ps); table_val (snd ps)]) (isort pid_leb all)).
Definition res_val (r : res) : val :=
  match r with Err t => VE t | Ok _ out => VL (map ev_val out) end.
Definition case_in := (mode * nat * bool * list ev)%type.
(* [exported stream or exception; tid_space after the collection phase, sorted by pid and source tid] *)
Definition run_val (c : case_in) : val :=
  let '(m, ms, presort, evs) := c in
  VL [res_val (run m ms presort evs); spaces_val (spaces m ms (pre_stream presort evs))].

(* non-triviality rule measured inside Coq: some pair of ph "X" events on one lane partially
   overlaps or shares a start or an end *)
Definition interacts (a b : ev) : bool :=
  keyb (lane a) (lane b) &&
  (((ts a <? ts b) && (ts b <? en a) && (en a <? en b)) || (ts a =? ts b) || (en a =? en b)).
Fixpoint nontrivial_l (l : list ev) : bool :=
  match l with
  | [] => false
  | a :: r => existsb (fun b => interacts a b || interacts b a) r || nontrivial_l r
  end.
Definition nontrivial (c : case_in * val) : bool :=
  let '(_, _, _, evs) := fst c in nontrivial_l (filter isx evs).
