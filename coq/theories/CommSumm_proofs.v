(* CommSumm_proofs.v — proofs about the model in CommSumm.v (C20).

   Main results
     summarize_spec        : summarize es = Ok (spec es es) when no part carries a malformed Peer / Peers entry
     hull_start/_end/_peers: the summary of a non-empty list of parts is their hull and the union of the peers they
                             name in Peer and list in Peers
     one_slice_per_sequence, others_unchanged : the same in terms of uids
     two_phase             : Pipeline.run on collection;barrier;apply = summarize
     error_branch          : the only exception is the ValueError of int() on a Peer / an entry of Peers          *)
From Coq Require Import ZArith QArith List Bool String Ascii Lia Sorted.
Import ListNotations.
From AiuModel Require Import Base Pipeline CommSumm.
Local Open Scope Z_scope.

(* ------------------------------------------------------------------ keys and the dict *)
Lemma key_eqb_eq a b : key_eqb a b = true <-> a = b.
Proof.
  destruct a as [j d], b as [j' d']. unfold key_eqb. cbn [fst snd].
  rewrite andb_true_iff, Z.eqb_eq, String.eqb_eq. split.
  - intros [-> ->]. reflexivity.
  - intros H. inversion H. auto.
Qed.
Lemma key_eqb_refl a : key_eqb a a = true.
Proof. now apply key_eqb_eq. Qed.
Lemma key_eqb_sym a b : key_eqb a b = key_eqb b a.
Proof.
  destruct (key_eqb a b) eqn:E1, (key_eqb b a) eqn:E2; try reflexivity.
  - apply key_eqb_eq in E1. subst. now rewrite key_eqb_refl in E2.
  - apply key_eqb_eq in E2. subst. now rewrite key_eqb_refl in E1.
Qed.

Lemma lookup_qset_same k d q : lookup k (qset k d q) = Some d.
Proof.
  induction q as [|[k' d'] r IH]; cbn [qset lookup].
  - now rewrite key_eqb_refl.
  - destruct (key_eqb k k') eqn:E; cbn [lookup]; rewrite E; [reflexivity | exact IH].
Qed.
Lemma lookup_qset_other k k' d q : key_eqb k k' = false -> lookup k (qset k' d q) = lookup k q.
Proof.
  intros Hn. induction q as [|[k2 d2] r IH]; cbn [qset lookup].
  - now rewrite Hn.
  - destruct (key_eqb k' k2) eqn:E; cbn [lookup].
    + apply key_eqb_eq in E. subst k2. now rewrite Hn.
    + destruct (key_eqb k k2); [reflexivity | exact IH].
Qed.
Lemma lookup_qremove_same k q : lookup k (qremove k q) = None.
Proof.
  induction q as [|[k' d'] r IH]; cbn; [reflexivity|].
  destruct (key_eqb k k') eqn:E; cbn; [exact IH|]. now rewrite E.
Qed.
Lemma lookup_qremove_other k k' q : key_eqb k k' = false -> lookup k (qremove k' q) = lookup k q.
Proof.
  intros Hn. induction q as [|[k2 d2] r IH]; cbn; [reflexivity|].
  destruct (key_eqb k' k2) eqn:E; cbn.
  - apply key_eqb_eq in E. subst k2. now rewrite Hn.
  - destruct (key_eqb k k2); [reflexivity | exact IH].
Qed.

Lemma is_key_iff k e : is_key k e = true <-> candidate e = Some k.
Proof.
  unfold is_key. destruct (candidate e) as [k'|]; [|split; discriminate].
  rewrite key_eqb_eq. split; [intros ->; reflexivity | intros H; now inversion H].
Qed.
Lemma is_key_cand k k' e : candidate e = Some k' -> is_key k e = key_eqb k k'.
Proof. intros H. unfold is_key. now rewrite H. Qed.
Lemma is_key_none k e : candidate e = None -> is_key k e = false.
Proof. intros H. unfold is_key. now rewrite H. Qed.

Lemma existsb_filter_nil {A} (f : A -> bool) l : existsb f l = false <-> filter f l = [].
Proof.
  induction l as [|a r IH]; cbn; [tauto|].
  destruct (f a); cbn; [split; discriminate | exact IH].
Qed.

(* ------------------------------------------------------------------ collection phase *)
Definition nobad (es : list ev) : Prop := forallb peer_ok es = true.

Lemma collect1_ok q e : peer_ok e = true ->
  exists q', collect1 q e = Ok q' /\
             forall k, lookup k q' = if is_key k e then step (lookup k q) e else lookup k q.
Proof.
  intros Hp. unfold collect1, peer_ok in *. destruct (candidate e) as [k0|] eqn:C.
  - unfold add_to_sequence. destruct (bad_peers e); [discriminate|].
    eexists; split; [reflexivity|]; intros k; rewrite (is_key_cand k _ _ C);
      destruct (key_eqb k k0) eqn:E;
      [apply key_eqb_eq in E; subst k0; now rewrite lookup_qset_same | now apply lookup_qset_other].
  - exists q. split; [reflexivity|]. intros k. now rewrite (is_key_none k _ C).
Qed.

Lemma collect_all_lookup es : forall q, nobad es ->
  exists q', collect_all q es = Ok q' /\
             forall k, lookup k q' = fold_left step (parts k es) (lookup k q).
Proof.
  induction es as [|e r IH]; intros q Hn.
  - exists q. split; [reflexivity|]. intros k. reflexivity.
  - unfold nobad in Hn. cbn [forallb] in Hn. apply andb_prop in Hn. destruct Hn as [He Hr].
    destruct (collect1_ok q e He) as (q1 & E1 & L1).
    destruct (IH q1 Hr) as (q2 & E2 & L2).
    exists q2. split; [cbn [collect_all]; now rewrite E1|].
    intros k. rewrite L2, L1. unfold parts. cbn [filter].
    destruct (is_key k e); reflexivity.
Qed.

Lemma fold_step_some ps : forall d, exists d',
  fold_left step ps (Some d) = Some d' /\ q_count d' = q_count d + Z.of_nat (List.length ps).
Proof.
  induction ps as [|p r IH]; intros d.
  - exists d. split; [reflexivity | cbn; lia].
  - cbn [fold_left]. unfold step at 2. destruct (IH (step_d (Some d) p)) as (d' & E & C).
    exists d'. split; [exact E|]. rewrite C. cbn [step_d q_count List.length]. lia.
Qed.
Lemma summary_count ps : ps <> [] ->
  exists d, summary_of ps = Some d /\ q_count d = Z.of_nat (List.length ps).
Proof.
  destruct ps as [|p r]; [congruence|]. intros _. unfold summary_of. cbn [fold_left]. unfold step at 2.
  destruct (fold_step_some r (step_d None p)) as (d' & E & C). exists d'. split; [exact E|].
  rewrite C. cbn [step_d q_count List.length]. lia.
Qed.

(* ------------------------------------------------------------------ application phase *)
(* what the dict holds while [rest] is still to be applied: for every sequence with parts left, the
   summary of ALL its parts with the counter = number of parts left; nothing for the others *)
Definition inv (all rest : list ev) (q : queues) : Prop :=
  forall k, match parts k rest with
            | [] => lookup k q = None
            | _ :: _ => exists d, summary_of (parts k all) = Some d /\
                                  lookup k q = Some (set_count d (Z.of_nat (List.length (parts k rest))))
            end.

Lemma merged_set_count e d c : merged e (set_count d c) = merged e d.
Proof. reflexivity. Qed.
Lemma set_count_twice d a b : set_count (set_count d a) b = set_count d b.
Proof. reflexivity. Qed.
Lemma set_count_id d : set_count d (q_count d) = d.
Proof. destruct d; reflexivity. Qed.

Lemma parts_cons k e r : parts k (e :: r) = if is_key k e then e :: parts k r else parts k r.
Proof. reflexivity. Qed.

Lemma apply_all_spec all : forall rest q, inv all rest q -> apply_all q rest = Ok (spec all rest).
Proof.
  induction rest as [|e r IH]; intros q I; [reflexivity|].
  cbn [apply_all spec]. unfold apply1. destruct (candidate e) as [k0|] eqn:C.
  - pose proof (I k0) as I0. rewrite parts_cons, (is_key_cand k0 _ _ C), key_eqb_refl in I0.
    destruct I0 as (d & Sd & Ld). rewrite Ld. cbn [q_count set_count List.length].
    replace (Z.of_nat (S (List.length (parts k0 r))) - 1) with (Z.of_nat (List.length (parts k0 r))) by lia.
    destruct (parts k0 r) as [|p0 pr] eqn:Pr.
    + (* last part *)
      cbn [List.length Z.of_nat Z.eqb].
      assert (Ex : existsb (is_key k0) r = false) by (apply existsb_filter_nil; exact Pr).
      rewrite Ex, Sd, merged_set_count.
      rewrite (IH (qremove k0 q)); [reflexivity|].
      intros k. pose proof (I k) as Ik. rewrite parts_cons, (is_key_cand k _ _ C) in Ik.
      destruct (key_eqb k k0) eqn:E.
      * apply key_eqb_eq in E. subst k. rewrite Pr. apply lookup_qremove_same.
      * rewrite (lookup_qremove_other _ _ _ E). exact Ik.
    + (* more parts follow *)
      assert (Ex : existsb (is_key k0) r = true).
      { destruct (existsb (is_key k0) r) eqn:X; [reflexivity|].
        apply existsb_filter_nil in X. unfold parts in Pr. congruence. }
      rewrite Ex.
      assert (Hz : (Z.of_nat (List.length (p0 :: pr)) =? 0) = false) by (apply Z.eqb_neq; cbn [List.length]; lia).
      rewrite Hz, set_count_twice.
      rewrite (IH (qset k0 (set_count d (Z.of_nat (List.length (p0 :: pr)))) q)); [reflexivity|].
      intros k. pose proof (I k) as Ik. rewrite parts_cons, (is_key_cand k _ _ C) in Ik.
      destruct (key_eqb k k0) eqn:E.
      * apply key_eqb_eq in E. subst k. rewrite Pr. exists d. split; [exact Sd|].
        apply lookup_qset_same.
      * rewrite (lookup_qset_other _ _ _ _ E). exact Ik.
  - rewrite (IH q); [reflexivity|].
    intros k. pose proof (I k) as Ik. rewrite parts_cons, (is_key_none k _ C) in Ik. exact Ik.
Qed.

(* THE CORE: counters reach zero exactly at the last part of each sequence, and what is emitted there is
   the summary of all parts; everything else passes unchanged, in order *)
Theorem summarize_spec es : nobad es -> summarize es = Ok (spec es es).
Proof.
  intros Hn. unfold summarize. destruct (collect_all_lookup es [] Hn) as (q & E & L). rewrite E.
  apply apply_all_spec. intros k. rewrite L. cbn [lookup]. fold (summary_of (parts k es)).
  destruct (parts k es) as [|p r] eqn:P; [reflexivity|].
  destruct (@summary_count (p :: r)) as (d & Sd & Cd); [discriminate|].
  exists d. split; [exact Sd|]. rewrite Sd, <- Cd, set_count_id. reflexivity.
Qed.

(* ------------------------------------------------------------------ the summary is the hull *)
Lemma Qmin_le_l a b : (Qmin a b <= a)%Q.
Proof.
  unfold Qmin. destruct (Qle_bool a b) eqn:E; [apply Qle_refl|].
  apply Qlt_le_weak, Qnot_le_lt. intro H. apply Qle_bool_iff in H. congruence.
Qed.
Lemma Qmin_le_r a b : (Qmin a b <= b)%Q.
Proof. unfold Qmin. destruct (Qle_bool a b) eqn:E; [now apply Qle_bool_iff | apply Qle_refl]. Qed.
Lemma Qmin_cases a b : Qmin a b = a \/ Qmin a b = b.
Proof. unfold Qmin. destruct (Qle_bool a b); auto. Qed.
Lemma Qmax_ge_l a b : (a <= Qmax a b)%Q.
Proof. unfold Qmax. destruct (Qle_bool a b) eqn:E; [now apply Qle_bool_iff | apply Qle_refl]. Qed.
Lemma Qmax_ge_r a b : (b <= Qmax a b)%Q.
Proof.
  unfold Qmax. destruct (Qle_bool a b) eqn:E; [apply Qle_refl|].
  apply Qlt_le_weak, Qnot_le_lt. intro H. apply Qle_bool_iff in H. congruence.
Qed.
Lemma Qmax_cases a b : Qmax a b = a \/ Qmax a b = b.
Proof. unfold Qmax. destruct (Qle_bool a b); auto. Qed.

Definition e_end (e : ev) : Q := (e_ts e + e_dur e)%Q.

Lemma fold_hull ps : forall d0 d, fold_left step ps (Some d0) = Some d ->
  ((q_start d <= q_start d0)%Q /\ (forall p, In p ps -> (q_start d <= e_ts p)%Q) /\
   (q_start d = q_start d0 \/ exists p, In p ps /\ q_start d = e_ts p)) /\
  ((q_end d0 <= q_end d)%Q /\ (forall p, In p ps -> (e_end p <= q_end d)%Q) /\
   (q_end d = q_end d0 \/ exists p, In p ps /\ q_end d = e_end p)).
Proof.
  induction ps as [|p r IH]; intros d0 d H.
  - cbn in H. inversion H. subst. split; (split; [apply Qle_refl|]; split; [intros ? []|now left]).
  - cbn [fold_left] in H. unfold step at 2 in H. destruct (IH _ _ H) as [(A1 & A2 & A3) (B1 & B2 & B3)].
    cbn [step_d q_start q_end] in *. fold (e_end p) in *. split; split.
    + eapply Qle_trans; [exact A1 | apply Qmin_le_l].
    + split.
      * intros x [<-|Hx]; [eapply Qle_trans; [exact A1 | apply Qmin_le_r] | now apply A2].
      * destruct A3 as [A3|(x & Hx & A3)].
        -- destruct (Qmin_cases (q_start d0) (e_ts p)) as [M|M]; rewrite M in A3;
             [now left | right; exists p; split; [now left | exact A3]].
        -- right. exists x. split; [now right | exact A3].
    + eapply Qle_trans; [apply Qmax_ge_l | exact B1].
    + split.
      * intros x [<-|Hx]; [eapply Qle_trans; [apply Qmax_ge_r | exact B1] | now apply B2].
      * destruct B3 as [B3|(x & Hx & B3)].
        -- destruct (Qmax_cases (q_end d0) (e_end p)) as [M|M]; rewrite M in B3;
             [now left | right; exists p; split; [now left | exact B3]].
        -- right. exists x. split; [now right | exact B3].
Qed.

Theorem hull_start ps d : summary_of ps = Some d ->
  (forall p, In p ps -> (q_start d <= e_ts p)%Q) /\ (exists p, In p ps /\ q_start d = e_ts p).
Proof.
  destruct ps as [|p0 r]; [discriminate|]. unfold summary_of. cbn [fold_left]. unfold step at 2. intros H.
  destruct (fold_hull _ _ _ H) as [(A1 & A2 & A3) _]. cbn [step_d q_start] in *. split.
  - intros p [<-|Hp]; [exact A1 | now apply A2].
  - destruct A3 as [A3|(x & Hx & A3)]; [exists p0; split; [now left | exact A3] | exists x; split; [now right | exact A3]].
Qed.
Theorem hull_end ps d : summary_of ps = Some d ->
  (forall p, In p ps -> (e_end p <= q_end d)%Q) /\ (exists p, In p ps /\ q_end d = e_end p).
Proof.
  destruct ps as [|p0 r]; [discriminate|]. unfold summary_of. cbn [fold_left]. unfold step at 2. intros H.
  destruct (fold_hull _ _ _ H) as [_ (B1 & B2 & B3)]. cbn [step_d q_end] in *. fold (e_end p0) in *. split.
  - intros p [<-|Hp]; [exact B1 | now apply B2].
  - destruct B3 as [B3|(x & Hx & B3)]; [exists p0; split; [now left | exact B3] | exists x; split; [now right | exact B3]].
Qed.

(* peers: a strictly ascending list = a finite set *)
Lemma set_add_in z l x : In x (set_add z l) <-> x = z \/ In x l.
Proof.
  induction l as [|y r IH]; cbn [set_add].
  - cbn. intuition.
  - destruct (z <? y) eqn:E1; [cbn; intuition|].
    destruct (z =? y) eqn:E2.
    + apply Z.eqb_eq in E2. subst. cbn. intuition.
    + cbn [In]. rewrite IH. intuition.
Qed.
Lemma set_add_hd a z l : HdRel Z.lt a l -> a < z -> HdRel Z.lt a (set_add z l).
Proof.
  intros H Hz. destruct l as [|y r]; cbn [set_add]; [now constructor|].
  inversion H; subst. destruct (z <? y); [now constructor|]. destruct (z =? y); now constructor.
Qed.
Lemma set_add_sorted z l : Sorted Z.lt l -> Sorted Z.lt (set_add z l).
Proof.
  induction l as [|y r IH]; intros S; cbn [set_add]; [repeat constructor|].
  inversion S as [|? ? Sr Hr]; subst.
  destruct (z <? y) eqn:E1.
  - apply Z.ltb_lt in E1. constructor; [exact S | now constructor].
  - destruct (z =? y) eqn:E2; [exact S|].
    apply Z.ltb_ge in E1. apply Z.eqb_neq in E2.
    constructor; [now apply IH | apply set_add_hd; [exact Hr | lia]].
Qed.
Lemma peer_add_in p l x : In x (peer_add p l) <-> p = PInt x \/ In x l.
Proof.
  destruct p; cbn [peer_add]; [| |]; try (split; [now right | intros [H|H]; [discriminate | exact H]]).
  rewrite set_add_in. split; intros [H|H]; auto; [left; now subst | left; now inversion H].
Qed.
Lemma peer_add_sorted p l : Sorted Z.lt l -> Sorted Z.lt (peer_add p l).
Proof. destruct p; cbn [peer_add]; auto using set_add_sorted. Qed.
Lemma entries_add_in ps : forall l x, In x (entries_add ps l) <-> In (PInt x) ps \/ In x l.
Proof.
  induction ps as [|p r IH]; intros l x; cbn [entries_add fold_left].
  - cbn. intuition.
  - fold (entries_add r (peer_add p l)). rewrite IH, peer_add_in. cbn [In]. intuition.
Qed.
Lemma entries_add_sorted ps : forall l, Sorted Z.lt l -> Sorted Z.lt (entries_add ps l).
Proof.
  induction ps as [|p r IH]; intros l S; cbn [entries_add fold_left]; [exact S|].
  fold (entries_add r (peer_add p l)). apply IH. now apply peer_add_sorted.
Qed.
Lemma peers_add_in e l x : In x (peers_add e l) <-> names e x \/ In x l.
Proof. unfold peers_add, names. rewrite entries_add_in, peer_add_in. intuition. Qed.
Lemma names_iff p z :
  names p z <-> (e_peer p = PInt z \/ exists pl, e_peers p = Some pl /\ In (PInt z) pl).
Proof.
  unfold names, listed. destruct (e_peers p) as [pl|]; split.
  - intros [H|H]; [now left | right; now exists pl].
  - intros [H|(pl' & E & H)]; [now left | right; inversion E; now subst].
  - intros [H|[]]. now left.
  - intros [H|(pl' & E & _)]; [now left | discriminate].
Qed.
Lemma peers_add_sorted e l : Sorted Z.lt l -> Sorted Z.lt (peers_add e l).
Proof. intros S. unfold peers_add. now apply entries_add_sorted, peer_add_sorted. Qed.

Lemma fold_peers ps : forall d0 d, fold_left step ps (Some d0) = Some d -> Sorted Z.lt (q_peers d0) ->
  Sorted Z.lt (q_peers d) /\
  forall z, In z (q_peers d) <-> In z (q_peers d0) \/ exists p, In p ps /\ names p z.
Proof.
  induction ps as [|p r IH]; intros d0 d H S.
  - cbn in H. inversion H. subst. split; [exact S|]. intros z. split; [now left | intros [?|(? & [] & _)]; assumption].
  - cbn [fold_left] in H. unfold step at 2 in H.
    destruct (IH _ _ H) as [S' M]; [cbn [step_d q_peers]; now apply peers_add_sorted|].
    split; [exact S'|]. intros z. rewrite M. cbn [step_d q_peers]. rewrite peers_add_in. split.
    + intros [[Hp|Hd]|(x & Hx & Px)]; [right; exists p; split; [now left | exact Hp] | now left |
                                       right; exists x; split; [now right | exact Px]].
    + intros [Hd|(x & [<-|Hx] & Px)]; [left; now right | left; now left | right; now exists x].
Qed.
Theorem hull_peers ps d : summary_of ps = Some d ->
  Sorted Z.lt (q_peers d) /\ forall z, In z (q_peers d) <-> exists p, In p ps /\ names p z.
Proof.
  destruct ps as [|p0 r]; [discriminate|]. unfold summary_of. cbn [fold_left]. unfold step at 2. intros H.
  destruct (fold_peers _ _ _ H) as [S M].
  { cbn [step_d q_peers]. apply peers_add_sorted. constructor. }
  split; [exact S|]. intros z. rewrite M. cbn [step_d q_peers]. rewrite peers_add_in. cbn [In]. split.
  - intros [[Hp|[]]|(x & Hx & Px)]; [exists p0; split; [now left | exact Hp] | exists x; split; [now right | exact Px]].
  - intros (x & [<-|Hx] & Px); [left; now left | right; now exists x].
Qed.

(* ------------------------------------------------------------------ the same in terms of uids *)
Definition uids (l : list ev) : list Z := map e_uid l.
Definition memz (z : Z) (l : list Z) : bool := existsb (Z.eqb z) l.
Definition is_cand (e : ev) : bool := match candidate e with Some _ => true | None => false end.

(* the input events that produce an output, and what each of them produces *)
Fixpoint kept (rest : list ev) : list ev :=
  match rest with
  | [] => []
  | e :: r => match candidate e with
              | None => e :: kept r
              | Some k => if existsb (is_key k) r then kept r else e :: kept r
              end
  end.
Definition out_of (all : list ev) (e : ev) : ev :=
  match candidate e with
  | None => e
  | Some k => match summary_of (parts k all) with Some d => merged e d | None => e end
  end.

Lemma spec_map all rest : spec all rest = map (out_of all) (kept rest).
Proof.
  induction rest as [|e r IH]; [reflexivity|]. cbn [spec kept].
  destruct (candidate e) as [k|] eqn:C.
  - destruct (existsb (is_key k) r); [exact IH|]. cbn [map]. unfold out_of at 1. rewrite C.
    destruct (summary_of (parts k all)); now rewrite IH.
  - cbn [map]. unfold out_of at 1. rewrite C. now rewrite IH.
Qed.
Lemma out_of_uid all e : e_uid (out_of all e) = e_uid e.
Proof. unfold out_of. destruct (candidate e); [|reflexivity]. destruct (summary_of _); reflexivity. Qed.
Lemma kept_incl rest e : In e (kept rest) -> In e rest.
Proof.
  induction rest as [|x r IH]; [intros []|]. cbn [kept].
  destruct (candidate x) as [k|]; [destruct (existsb (is_key k) r)|]; cbn [In]; intuition.
Qed.
Lemma filter_map_comm {A B} (f : A -> B) (p : B -> bool) (q : A -> bool) l :
  (forall a, In a l -> p (f a) = q a) -> filter p (map f l) = map f (filter q l).
Proof.
  induction l as [|a r IH]; intros H; [reflexivity|]. cbn [map filter].
  rewrite (H a) by now left. rewrite IH by (intros; apply H; now right). now destruct (q a).
Qed.
Lemma nodup_map_inj {A B} (f : A -> B) l x y :
  NoDup (map f l) -> In x l -> In y l -> f x = f y -> x = y.
Proof.
  induction l as [|a r IH]; intros N Hx Hy E; [destruct Hx|].
  cbn [map] in N. inversion N as [|? ? Hn Nr]; subst.
  destruct Hx as [<-|Hx], Hy as [<-|Hy]; try reflexivity.
  - exfalso. apply Hn. rewrite E. now apply in_map.
  - exfalso. apply Hn. rewrite <- E. now apply in_map.
  - now apply IH.
Qed.
Lemma memz_in z l : memz z l = true <-> In z l.
Proof.
  unfold memz. rewrite existsb_exists. split.
  - intros (x & Hx & E). apply Z.eqb_eq in E. now subst.
  - intros H. exists z. split; [exact H | apply Z.eqb_refl].
Qed.
Lemma memz_uids_filter (f : ev -> bool) l e :
  NoDup (uids l) -> In e l -> memz (e_uid e) (uids (filter f l)) = f e.
Proof.
  intros N He. destruct (f e) eqn:F.
  - apply memz_in. unfold uids. apply in_map. apply filter_In. now split.
  - destruct (memz (e_uid e) (uids (filter f l))) eqn:M; [|reflexivity].
    apply memz_in in M. unfold uids in M. apply in_map_iff in M. destruct M as (p & Ep & Hp).
    apply filter_In in Hp. destruct Hp as [Hp Fp].
    assert (p = e) by (eapply nodup_map_inj; eauto). subst. congruence.
Qed.
Lemma filter_nil_incl {A} (f : A -> bool) (l l' : list A) :
  (forall a, In a l' -> In a l) -> filter f l = [] -> filter f l' = [].
Proof.
  intros Hi Hf. destruct (filter f l') as [|a r] eqn:E; [reflexivity|].
  assert (Ha : In a (filter f l')) by (rewrite E; now left).
  apply filter_In in Ha. destruct Ha as [Ha Fa].
  assert (In a (filter f l)) by (apply filter_In; split; [now apply Hi | exact Fa]).
  rewrite Hf in H. destruct H.
Qed.

(* of the parts of one sequence exactly the last one (in stream order) produces an output *)
Lemma kept_key k rest : parts k rest <> [] ->
  exists pre l, parts k rest = pre ++ [l] /\ filter (is_key k) (kept rest) = [l].
Proof.
  induction rest as [|e r IH]; [intros H; now destruct H|]. intros H.
  rewrite parts_cons in H |- *. cbn [kept]. destruct (candidate e) as [k0|] eqn:C.
  - rewrite (is_key_cand k _ _ C) in H |- *. destruct (key_eqb k k0) eqn:E.
    + apply key_eqb_eq in E. subst k0. destruct (existsb (is_key k) r) eqn:X.
      * assert (Hr : parts k r <> []).
        { intro Hn. apply existsb_filter_nil in Hn. unfold parts in Hn. congruence. }
        destruct (IH Hr) as (pre & l & P & F). exists (e :: pre), l. rewrite P. split; [reflexivity | exact F].
      * apply existsb_filter_nil in X. fold (parts k r) in X. rewrite X. exists [], e. split; [reflexivity|].
        cbn [filter]. rewrite (is_key_cand k _ _ C), key_eqb_refl.
        rewrite (filter_nil_incl (is_key k) r (kept r) (kept_incl r) X). reflexivity.
    + destruct (IH H) as (pre & l & P & F). exists pre, l. split; [exact P|].
      destruct (existsb (is_key k0) r); [exact F|]. cbn [filter]. now rewrite (is_key_cand k _ _ C), E.
  - rewrite (is_key_none k _ C) in H |- *. destruct (IH H) as (pre & l & P & F). exists pre, l. split; [exact P|].
    cbn [filter]. now rewrite (is_key_none k _ C).
Qed.

Theorem one_slice_per_sequence es k out :
  nobad es -> NoDup (uids es) -> parts k es <> [] -> summarize es = Ok out ->
  exists pre l d, parts k es = pre ++ [l] /\ summary_of (parts k es) = Some d /\
                  filter (fun o => memz (e_uid o) (uids (parts k es))) out = [merged l d].
Proof.
  intros Hn N Hp Hs. rewrite (summarize_spec es Hn) in Hs. inversion Hs; subst out. clear Hs.
  destruct (kept_key k es Hp) as (pre & l & P & F).
  destruct (summary_count (parts k es) Hp) as (d & Sd & _).
  exists pre, l, d. split; [exact P|]. split; [exact Sd|].
  rewrite spec_map.
  rewrite (filter_map_comm (out_of es) _ (is_key k)).
  - rewrite F. cbn [map]. unfold out_of.
    assert (Hl : In l (parts k es)) by (rewrite P; apply in_or_app; right; now left).
    apply filter_In in Hl. destruct Hl as [_ Hl]. apply is_key_iff in Hl. now rewrite Hl, Sd.
  - intros a Ha. rewrite out_of_uid. unfold parts. apply memz_uids_filter; [exact N | now apply kept_incl].
Qed.

Lemma kept_noncand rest : filter (fun e => negb (is_cand e)) (kept rest) = filter (fun e => negb (is_cand e)) rest.
Proof.
  induction rest as [|e r IH]; [reflexivity|]. cbn [kept filter]. unfold is_cand at 2.
  destruct (candidate e) as [k|] eqn:C; cbn [negb].
  - destruct (existsb (is_key k) r); [exact IH|]. cbn [filter]. unfold is_cand at 1. rewrite C. exact IH.
  - cbn [filter]. unfold is_cand at 1. rewrite C. cbn [negb]. now rewrite IH.
Qed.

Theorem others_unchanged es out :
  nobad es -> NoDup (uids es) -> summarize es = Ok out ->
  filter (fun o => negb (memz (e_uid o) (uids (filter is_cand es)))) out = filter (fun e => negb (is_cand e)) es.
Proof.
  intros Hn N Hs. rewrite (summarize_spec es Hn) in Hs. inversion Hs; subst out. clear Hs.
  rewrite spec_map.
  rewrite (filter_map_comm (out_of es) _ (fun e => negb (is_cand e))).
  - rewrite kept_noncand. rewrite <- (map_id (filter _ es)) at 2. apply map_ext_in.
    intros a Ha. apply filter_In in Ha. destruct Ha as [_ Ha]. unfold is_cand in Ha. unfold out_of.
    destruct (candidate a); [discriminate | reflexivity].
  - intros a Ha. rewrite out_of_uid. f_equal. apply memz_uids_filter; [exact N | now apply kept_incl].
Qed.

(* number of exported events = events that are not parts + number of distinct sequences: see [spec] *)

(* ------------------------------------------------------------------ the key is (job, digit string) *)
Theorem candidate_char e k : candidate e = Some k <->
  e_x e = true /\ contains "SenRdma" (e_name e) = true /\ exists d, first_seq (e_name e) = Some d /\ k = (e_job e, d).
Proof.
  unfold candidate. destruct (e_x e); cbn [andb]; [|split; [discriminate | intros (H & _); discriminate]].
  destruct (contains "SenRdma" (e_name e)); [|split; [discriminate | intros (_ & H & _); discriminate]].
  destruct (first_seq (e_name e)) as [d|].
  - split; [intros H; inversion H; eauto 6 | intros (_ & _ & d' & H & ->); now inversion H].
  - split; [discriminate | intros (_ & _ & d' & H & _); discriminate].
Qed.
Theorem key_is_file_and_number e1 e2 k1 k2 :
  candidate e1 = Some k1 -> candidate e2 = Some k2 ->
  (k1 = k2 <-> e_job e1 = e_job e2 /\ first_seq (e_name e1) = first_seq (e_name e2)).
Proof.
  intros H1 H2. apply candidate_char in H1, H2.
  destruct H1 as (_ & _ & d1 & F1 & ->), H2 as (_ & _ & d2 & F2 & ->). rewrite F1, F2. split.
  - intros H. inversion H. auto.
  - intros [-> H]. inversion H. reflexivity.
Qed.

(* ------------------------------------------------------------------ the error branch *)
Lemma collect_all_err es : forallb peer_ok es = false -> forall q, collect_all q es = Err "ValueError".
Proof.
  induction es as [|e r IH]; intros H q; [discriminate|].
  cbn [forallb] in H. cbn [collect_all]. destruct (peer_ok e) eqn:P.
  - destruct (collect1_ok q e P) as (q1 & E1 & _). rewrite E1. cbn [andb] in H. now apply IH.
  - unfold collect1, peer_ok in *. destruct (candidate e); [|discriminate].
    unfold add_to_sequence. destruct (bad_peers e); [reflexivity | discriminate].
Qed.
Theorem error_branch es : forallb peer_ok es = false -> summarize es = Err "ValueError".
Proof. intros H. unfold summarize. now rewrite (collect_all_err es H). Qed.

(* ------------------------------------------------------------------ the registered pipeline computes [summarize] *)
(* Pipeline.run on collection ; pipeline_barrier ; apply (both comm stages share the cell COMM, the barrier
   uses the cell BAR): while the input is consumed the collection stage folds every event into the dict and
   the barrier holds them; the drain of the barrier then pushes the held stream through the apply stage. *)
Lemma feedc_collect_ok es : forall q h q', collect_all q es = Ok q' ->
  feedc g_collect (mkcs q h None) es = (mkcs q' h None, es).
Proof.
  induction es as [|e r IH]; intros q h q' H; cbn [feedc collect_all] in *.
  - inversion H. reflexivity.
  - cbn [cb g_collect]. unfold coll_cb. cbn [cs_err cs_q cs_hold].
    destruct (collect1 q e) as [q1|] eqn:E; [|discriminate]. rewrite (IH _ h _ H). reflexivity.
Qed.
Lemma feedc_apply_ok es : forall q h out, apply_all q es = Ok out ->
  exists q', feedc g_apply (mkcs q h None) es = (mkcs q' h None, out).
Proof.
  induction es as [|e r IH]; intros q h out H; cbn [feedc apply_all] in *.
  - inversion H. now exists q.
  - cbn [cb g_apply]. unfold appl_cb. cbn [cs_err cs_q cs_hold].
    destruct (apply1 q e) as [[q1 o]|] eqn:E; [|discriminate].
    destruct (apply_all q1 r) as [o2|] eqn:E2; [|discriminate]. inversion H; subst out.
    destruct (IH q1 h o2 E2) as (q' & F). rewrite F. now exists q'.
Qed.

Lemma through_comm e st q h qb hb eb q1 :
  st COMM = mkcs q h None -> st BAR = mkcs qb hb eb -> collect1 q e = Ok q1 ->
  exists st', through comm_graph st [e] = (st', []) /\ st' COMM = mkcs q1 h None /\ st' BAR = mkcs qb (hb ++ [e]) eb.
Proof.
  intros HC HB E. unfold comm_graph. cbn [through]. unfold feed. cbn [cid g_collect g_barrier g_apply].
  rewrite HC. cbn [feedc cb g_collect]. unfold coll_cb. cbn [cs_err cs_q cs_hold]. rewrite E. cbn [app].
  assert (U : upd st COMM {| cs_q := q1; cs_hold := h; cs_err := None |} BAR = st BAR) by reflexivity.
  rewrite U, HB. cbn [feedc cb g_barrier]. unfold bar_cb. cbn [cs_q cs_hold cs_err app].
  cbn [feedc].
  eexists. split; [reflexivity|]. split.
  - unfold upd, COMM, BAR. cbn [Nat.eqb]. reflexivity.
  - unfold upd, COMM, BAR. cbn [Nat.eqb]. reflexivity.
Qed.

Lemma inputs_comm es : forall st q h qb hb eb q',
  st COMM = mkcs q h None -> st BAR = mkcs qb hb eb -> collect_all q es = Ok q' ->
  exists st', inputs comm_graph st es = (st', []) /\ st' COMM = mkcs q' h None /\ st' BAR = mkcs qb (hb ++ es) eb.
Proof.
  induction es as [|e r IH]; intros st q h qb hb eb q' HC HB H.
  - cbn in H. inversion H; subst. exists st. rewrite app_nil_r. auto.
  - cbn [collect_all] in H. destruct (collect1 q e) as [q1|] eqn:E; [|discriminate].
    destruct (through_comm e st q h qb hb eb q1 HC HB E) as (st1 & T & C1 & B1).
    destruct (IH st1 q1 h qb (hb ++ [e]) eb q' C1 B1 H) as (st2 & I2 & C2 & B2).
    exists st2. cbn [inputs]. rewrite T, I2. rewrite <- app_assoc in B2. auto.
Qed.

Lemma inputs_apply es : forall st q h out, st COMM = mkcs q h None -> apply_all q es = Ok out ->
  exists st' q', inputs [g_apply] st es = (st', out) /\ st' COMM = mkcs q' h None.
Proof.
  induction es as [|e r IH]; intros st q h out HC H.
  - cbn in H. inversion H; subst. exists st, q. auto.
  - cbn [apply_all] in H. destruct (apply1 q e) as [[q1 o]|] eqn:E; [|discriminate].
    destruct (apply_all q1 r) as [o2|] eqn:E2; [|discriminate]. inversion H; subst out.
    cbn [inputs through]. unfold feed. cbn [cid g_apply]. rewrite HC. cbn [feedc cb g_apply]. unfold appl_cb.
    cbn [cs_err cs_q cs_hold]. rewrite E. rewrite app_nil_r.
    destruct (IH (upd st COMM (mkcs q1 h None)) q1 h o2) as (st2 & q2 & I2 & C2); [reflexivity | exact E2|].
    rewrite I2. exists st2, q2. auto.
Qed.

Theorem two_phase es out : summarize es = Ok out -> run comm_graph comm_st0 es = out.
Proof.
  unfold summarize. destruct (collect_all [] es) as [q|] eqn:C; [|discriminate]. intros A.
  unfold run.
  destruct (inputs_comm es comm_st0 [] [] [] [] None q eq_refl eq_refl C) as (st1 & I & C1 & B1). rewrite I.
  cbn [app] in B1.
  unfold comm_graph. cbn [drain]. cbn [cid dr g_collect g_barrier g_apply]. unfold comm_dr at 1.
  cbn [inputs].
  assert (U1 : upd st1 COMM (st1 COMM) BAR = st1 BAR) by reflexivity. rewrite U1, B1.
  unfold bar_dr. cbn [cs_q cs_hold cs_err].
  destruct (inputs_apply es (upd (upd st1 COMM (st1 COMM)) BAR (mkcs [] [] None)) q [] out) as (st2 & q2 & I2 & C2).
  { unfold upd, COMM, BAR. cbn [Nat.eqb]. exact C1. }
  { exact A. }
  rewrite I2. unfold comm_dr. cbn [inputs]. cbn [app]. now rewrite !app_nil_r.
Qed.
