(* Limits_proofs.v — lemmas about the limiter / filter model of Limits.v (property C17). *)
From Coq Require Import ZArith QArith List Bool String Ascii Lia ZifyBool.
Import ListNotations.
From AiuModel Require Import Base Limits.
Local Open Scope string_scope.
Local Open Scope Z_scope.

(* ------------------------------------------------------------------ counting *)
Lemma cntd_nil c : cntd c [] = 0.
Proof. reflexivity. Qed.

Lemma cntd_cons c a l : cntd c (a :: l) = (if counted c a then 1 else 0) + cntd c l.
Proof. unfold cntd. cbn [filter]. destruct (counted c a); cbn [List.length]; lia. Qed.

Lemma cntd_app c l1 l2 : cntd c (app l1 l2) = cntd c l1 + cntd c l2.
Proof.
  induction l1 as [|a l1 IH]; [rewrite cntd_nil; reflexivity|].
  rewrite <- app_comm_cons, !cntd_cons, IH. lia.
Qed.

Lemma cntd_nonneg c l : 0 <= cntd c l.
Proof. unfold cntd. lia. Qed.

Lemma firstn_S_nth {A} : forall (l : list A) i e, nth_error l i = Some e -> firstn (S i) l = app (firstn i l) [e].
Proof.
  induction l as [|a l IH]; intros [|i] e H; cbn in H; try discriminate.
  - inversion H; reflexivity.
  - rewrite !firstn_cons. rewrite (IH i e H). reflexivity.
Qed.

Lemma pos_split c es i e : nth_error es i = Some e ->
  pos c es i = cntd c (firstn i es) + (if counted c e then 1 else 0).
Proof.
  intros H. unfold pos. rewrite (firstn_S_nth es i e H), cntd_app, cntd_cons, cntd_nil. lia.
Qed.

Lemma cntd_firstn_le c : forall es i e, nth_error es i = Some e ->
  cntd c (firstn i es) + (if counted c e then 1 else 0) <= cntd c es.
Proof.
  intros es i e H. rewrite <- (firstn_skipn (S i) es) at 2.
  rewrite cntd_app, (firstn_S_nth es i e H), cntd_app, cntd_cons, cntd_nil.
  pose proof (cntd_nonneg c (skipn (S i) es)). lia.
Qed.

(* ------------------------------------------------------------------ one call of event_within_limits *)
Lemma limiter_fst c cnt e : fst (limiter c cnt e) = cnt + (if counted c e then 1 else 0).
Proof.
  unfold limiter, counted, wf_e, ignored, inwin_e.
  destruct (dget "ph" e) as [[ph| | | | | |]|]; cbn; try lia.
  destruct (contains ph (nct_of c)); cbn; [lia|].
  destruct (ev_ts e) as [ts|]; destruct (ev_dur e) as [dur|]; cbn; try lia.
  unfold within. destruct (inwin c ts dur); cbn; lia.
Qed.

Lemma limiter_ignored c cnt e : ignored c e = true -> limiter c cnt e = (cnt, Ok true).
Proof.
  unfold limiter, ignored. destruct (dget "ph" e) as [[ph| | | | | |]|]; try discriminate.
  intros ->. reflexivity.
Qed.

(* the verdict as a function of the position *)
Definition verdict (c : limcfg) (p : Z) (e : event) : bool :=
  ignored c e || (inwin_e c e && (skip_of c <? p) && (p <=? limit_of c)).

Lemma limiter_snd_wf c cnt e : wf_e c e = true ->
  snd (limiter c cnt e) = Ok (verdict c (cnt + (if counted c e then 1 else 0)) e).
Proof.
  unfold limiter, counted, wf_e, verdict, ignored, inwin_e.
  destruct (dget "ph" e) as [[ph| | | | | |]|]; try discriminate.
  destruct (contains ph (nct_of c)); cbn; [reflexivity|].
  destruct (ev_ts e) as [ts|]; destruct (ev_dur e) as [dur|]; cbn; try discriminate.
  intros _. unfold within. destruct (inwin c ts dur); cbn; reflexivity.
Qed.

Lemma limiter_ok_wf c cnt e b : snd (limiter c cnt e) = Ok b -> wf_e c e = true.
Proof.
  unfold limiter, wf_e.
  destruct (dget "ph" e) as [[ph| | | | | |]|]; cbn; try discriminate.
  destruct (contains ph (nct_of c)); cbn; [reflexivity|].
  destruct (ev_ts e) as [ts|]; destruct (ev_dur e) as [dur|]; cbn; try discriminate. reflexivity.
Qed.

(* ------------------------------------------------------------------ the stream invariant *)
Lemma lim_stream_nth c : forall es cnt i e, nth_error es i = Some e ->
  nth_error (lim_stream c cnt es) i = Some (snd (limiter c (cnt + cntd c (firstn i es)) e)).
Proof.
  induction es as [|a es IH]; intros cnt [|i] e H; cbn in H; try discriminate.
  - inversion H; subst. cbn [lim_stream firstn]. rewrite cntd_nil, Z.add_0_r.
    destruct (limiter c cnt e) as [cnt' v]. reflexivity.
  - cbn [lim_stream firstn]. pose proof (limiter_fst c cnt a) as Hf.
    destruct (limiter c cnt a) as [cnt' v]. cbn [fst] in Hf. cbn [nth_error].
    rewrite (IH cnt' i e H), cntd_cons, Hf. f_equal. f_equal. f_equal. lia.
Qed.

Lemma lim_stream_length c : forall es cnt, List.length (lim_stream c cnt es) = List.length es.
Proof.
  induction es as [|a es IH]; intros cnt; [reflexivity|].
  cbn [lim_stream]. destruct (limiter c cnt a) as [cnt' v]. cbn [List.length]. now rewrite IH.
Qed.

Lemma lim_stream_nth_inv c es cnt i v : nth_error (lim_stream c cnt es) i = Some v ->
  exists e, nth_error es i = Some e.
Proof.
  intros H. destruct (nth_error es i) as [e|] eqn:E; [now exists e|].
  apply nth_error_None in E. rewrite <- (lim_stream_length c es cnt) in E.
  apply nth_error_None in E. congruence.
Qed.

(* i-th verdict of the stream = the single-event limiter started with the number of counted events before i *)
Lemma counter_invariant c es i e : nth_error es i = Some e ->
  nth_error (lim_stream c 0 es) i = Some (snd (limiter c (cntd c (firstn i es)) e)).
Proof. intros H. rewrite (lim_stream_nth c es 0 i e H). reflexivity. Qed.

Lemma position_eq c es i e : nth_error es i = Some e -> wf_e c e = true ->
  nth_error (lim_stream c 0 es) i = Some (Ok (verdict c (pos c es i) e)).
Proof.
  intros H W. rewrite (counter_invariant c es i e H), (limiter_snd_wf c _ e W), (pos_split c es i e H).
  reflexivity.
Qed.

Lemma position_rule c es i e : nth_error es i = Some e -> wf_e c e = true ->
  exists b, nth_error (lim_stream c 0 es) i = Some (Ok b) /\
    (b = true <-> ignored c e = true \/
                  (inwin_e c e = true /\ skip_of c < pos c es i <= skip_of c + count_of c)).
Proof.
  intros H W. exists (verdict c (pos c es i) e). split; [now apply position_eq|].
  unfold verdict, limit_of. split.
  - intros Hb. apply orb_prop in Hb. destruct Hb as [Hb|Hb]; [now left|right].
    apply andb_prop in Hb. destruct Hb as [Hb H3]. apply andb_prop in Hb. destruct Hb as [H1 H2]. split; [exact H1|lia].
  - intros [Hi|[H1 H2]]; [rewrite Hi; reflexivity|].
    rewrite H1. apply orb_true_iff. right. cbn. apply andb_true_iff. split; lia.
Qed.

(* ------------------------------------------------------------------ ignored (metadata) events *)
Lemma ignored_transparent c : forall es cnt,
  map snd (filter (fun p => negb (ignored c (fst p))) (combine es (lim_stream c cnt es)))
  = lim_stream c cnt (filter (fun e => negb (ignored c e)) es).
Proof.
  induction es as [|a es IH]; intros cnt; [reflexivity|].
  cbn [lim_stream filter]. destruct (ignored c a) eqn:Ei.
  - rewrite (limiter_ignored c cnt a Ei). cbn [combine filter fst negb]. rewrite Ei. cbn [negb]. apply IH.
  - cbn [negb]. cbn [lim_stream]. destruct (limiter c cnt a) as [cnt' v].
    cbn [combine filter fst]. rewrite Ei. cbn [negb map snd]. now rewrite IH.
Qed.

(* ------------------------------------------------------------------ normalize_phase1 = limiter, then decide *)
Section WithRegex.
  Variable re : string -> string -> bool.
  Variable st : json -> string.

  Lemma run_stream_decide c fs jm : forall es cnt,
    run_stream re st c fs jm cnt es
    = map (fun p => decide re st fs jm (snd p) (fst p)) (combine es (lim_stream c cnt es)).
  Proof.
    induction es as [|a es IH]; intros cnt; [reflexivity|].
    cbn [run_stream lim_stream]. unfold phase1. destruct (limiter c cnt a) as [cnt' v].
    cbn [combine map fst snd]. now rewrite IH.
  Qed.

  Lemma nth_error_map_combine {A B C} (f : A * B -> C) : forall (l1 : list A) (l2 : list B) i a b,
    nth_error l1 i = Some a -> nth_error l2 i = Some b -> nth_error (map f (combine l1 l2)) i = Some (f (a, b)).
  Proof.
    induction l1 as [|x l1 IH]; intros [|y l2] [|i] a b H1 H2; cbn in *; try discriminate.
    - inversion H1; inversion H2; reflexivity.
    - now apply IH.
  Qed.

  Lemma run_stream_nth c fs jm es i e : nth_error es i = Some e ->
    nth_error (run_stream re st c fs jm 0 es) i
    = Some (decide re st fs jm (snd (limiter c (cntd c (firstn i es)) e)) e).
  Proof.
    intros H. rewrite run_stream_decide.
    rewrite (nth_error_map_combine _ es (lim_stream c 0 es) i e _ H (counter_invariant c es i e H)).
    reflexivity.
  Qed.

  Lemma is_X_ph e : is_X e = true -> dget "ph" e = Some (JS "X").
  Proof.
    unfold is_X. destruct (dget "ph" e) as [[ph| | | | | |]|]; try discriminate.
    intros H. apply String.eqb_eq in H. now subst.
  Qed.

  (* an ignored event that is not a slice is handed on untouched, whatever the limits and filters *)
  Lemma ignored_kept c fs jm es i e : nth_error es i = Some e -> ignored c e = true -> is_X e = false ->
    nth_error (run_stream re st c fs jm 0 es) i = Some (Ok [e]).
  Proof.
    intros H Hi Hx. rewrite (run_stream_nth c fs jm es i e H), (limiter_ignored c _ e Hi).
    cbn [snd decide]. now rewrite Hx.
  Qed.

  (* ---------------------------------------------------------------- filter *)
  Lemma resolves_walk e path leaf : resolves e path leaf -> walk e path = Some leaf.
  Proof.
    induction 1; cbn [walk].
    - reflexivity.
    - now rewrite H.
  Qed.

  Lemma walk_resolves : forall path e leaf, walk e path = Some leaf -> resolves e path leaf.
  Proof.
    induction path as [|a rest IH]; intros e leaf W; cbn [walk] in W.
    - inversion W; constructor.
    - destruct e as [s|z|q|b| |l|kv]; try discriminate.
      destruct (dget a kv) as [v|] eqn:E; [|discriminate].
      eapply rs_step; [exact E|]. now apply IH.
  Qed.

  (* the entry attr:regex matches the event: the event has the named attribute (every component of the dotted path is
     a key of the dict reached so far), its value is not a dict, and the regex finds a match in str(value) *)
  Definition pair_matches (e : event) (ar : string * string) : Prop :=
    exists leaf, resolves (JD e) (split_on "."%char (fst ar)) leaf /\ is_dict leaf = false /\
                 re (snd ar) (st leaf) = true.

  Lemma one_filter_spec e ar : one_filter re st e ar = true <-> pair_matches e ar.
  Proof.
    unfold one_filter, pair_matches. split.
    - destruct (walk (JD e) (split_on "."%char (fst ar))) as [leaf|] eqn:W; [|discriminate].
      destruct (is_dict leaf) eqn:D; [discriminate|].
      intros M. exists leaf. repeat split; try assumption. now apply walk_resolves.
    - intros (leaf & R & D & M). rewrite (resolves_walk _ _ _ R), D. exact M.
  Qed.

  (* no domain hypothesis: [event_filtered] is a total boolean function of any event and any filter list *)
  Lemma filter_spec fs e :
    event_filtered re st fs e = true <-> exists ar, In ar fs /\ pair_matches e ar.
  Proof.
    unfold event_filtered. rewrite existsb_exists. split.
    - intros (ar & I & M). exists ar. split; [exact I|]. now apply one_filter_spec.
    - intros (ar & I & M). exists ar. split; [exact I|]. now apply one_filter_spec.
  Qed.

  Lemma finish_not_nil jm e : finish jm e <> Ok [].
  Proof.
    unfold finish. destruct (dget "args" e) as [[s|z|q|b| |l|a]|]; try discriminate.
    destruct (dget "jobhash" a); try discriminate.
    destruct (_ && _); discriminate.
  Qed.

  (* an X event the limiter lets through is dropped iff a filter entry matches its normalised form;
     otherwise it is exported (with its jobname) *)
  Lemma filter_keeps_others fs jm e e1 : xform e = Ok e1 ->
    (post re st fs jm e = Ok [] <-> exists ar, In ar fs /\ pair_matches e1 ar) /\
    ((~ exists ar, In ar fs /\ pair_matches e1 ar) -> post re st fs jm e = finish jm e1).
  Proof.
    intros X. pose proof (filter_spec fs e1) as S. unfold post. rewrite X.
    destruct (event_filtered re st fs e1).
    - split; [split; [intros _; now apply S|reflexivity]|]. intros N. exfalso. apply N. now apply S.
    - split; [|reflexivity]. split.
      + intros F. exfalso. exact (finish_not_nil jm e1 F).
      + intros M. apply S in M. discriminate.
  Qed.
End WithRegex.

(* ------------------------------------------------------------------ monotonicity *)
Definition same_but_count (c c2 : limcfg) : Prop :=
  l_skip c = l_skip c2 /\ l_start c = l_start c2 /\ l_end c = l_end c2 /\ l_nct c = l_nct c2.

Lemma sbc_fields c c2 : same_but_count c c2 ->
  skip_of c = skip_of c2 /\ start_of c = start_of c2 /\ end_of c = end_of c2 /\ nct_of c = nct_of c2.
Proof. intros (A & B & C & D). unfold skip_of, start_of, end_of, nct_of. rewrite A, B, C, D. repeat split. Qed.

Lemma counted_sbc c c2 e : same_but_count c c2 -> counted c e = counted c2 e.
Proof.
  intros H. destruct (sbc_fields c c2 H) as (A & B & C & D).
  unfold counted, wf_e, ignored, inwin_e, inwin. rewrite B, C, D. reflexivity.
Qed.

Lemma cntd_ext c c2 l : (forall e, counted c e = counted c2 e) -> cntd c l = cntd c2 l.
Proof.
  intros H. induction l as [|a l IH]; [reflexivity|]. rewrite !cntd_cons, IH, H. reflexivity.
Qed.

Lemma limiter_count_mono c c2 k e : same_but_count c c2 -> count_of c <= count_of c2 ->
  snd (limiter c k e) = Ok true -> snd (limiter c2 k e) = Ok true.
Proof.
  intros H Hc. destruct (sbc_fields c c2 H) as (A & B & C & D).
  unfold limiter. rewrite D.
  destruct (dget "ph" e) as [[ph| | | | | |]|]; cbn; try discriminate.
  destruct (contains ph (nct_of c2)); cbn; [reflexivity|].
  destruct (ev_ts e) as [ts|]; destruct (ev_dur e) as [dur|]; cbn; try discriminate.
  unfold within, inwin, limit_of. rewrite A, B, C.
  destruct (Qle_bool (start_of c2) (ts + dur) && Qle_bool ts (end_of c2)); cbn; [|discriminate].
  intros E. inversion E as [E']. f_equal. rewrite E'.
  apply andb_prop in E'. destruct E' as [E1 E2]. rewrite E1. cbn. lia.
Qed.

Lemma monotone_count_lim c c2 es i : same_but_count c c2 -> count_of c <= count_of c2 ->
  nth_error (lim_stream c 0 es) i = Some (Ok true) -> nth_error (lim_stream c2 0 es) i = Some (Ok true).
Proof.
  intros H Hc Hn. destruct (lim_stream_nth_inv c es 0 i _ Hn) as (e & He).
  rewrite (counter_invariant c es i e He) in Hn. rewrite (counter_invariant c2 es i e He).
  inversion Hn as [Hn']. rewrite Hn'. f_equal.
  rewrite <- (cntd_ext c c2 _ (fun x => counted_sbc c c2 x H)).
  now apply (limiter_count_mono c c2 _ e H Hc).
Qed.

Lemma decide_singleton re st fs jm v e x : decide re st fs jm v e = Ok [x] -> v = Ok true.
Proof. destruct v as [[|]|t]; cbn; try discriminate; reflexivity. Qed.

Lemma run_stream_nth_inv re st c fs jm es i o : nth_error (run_stream re st c fs jm 0 es) i = Some o ->
  exists e, nth_error es i = Some e.
Proof.
  intros H. destruct (nth_error es i) as [e|] eqn:E; [now exists e|].
  apply nth_error_None in E. rewrite run_stream_decide in H.
  assert (L : (List.length (map (fun p => decide re st fs jm (snd p) (fst p)) (combine es (lim_stream c 0 es))) <= i)%nat).
  { rewrite map_length, combine_length, lim_stream_length. lia. }
  apply nth_error_None in L. congruence.
Qed.

Lemma monotone_count re st c c2 fs jm es i x : same_but_count c c2 -> count_of c <= count_of c2 ->
  nth_error (run_stream re st c fs jm 0 es) i = Some (Ok [x]) ->
  nth_error (run_stream re st c2 fs jm 0 es) i = Some (Ok [x]).
Proof.
  intros H Hc Hn. destruct (run_stream_nth_inv re st c fs jm es i _ Hn) as (e & He).
  rewrite (run_stream_nth re st c fs jm es i e He) in Hn. rewrite (run_stream_nth re st c2 fs jm es i e He).
  inversion Hn as [Hd]. rewrite Hd. f_equal.
  pose proof (decide_singleton re st fs jm _ e x Hd) as Hv.
  rewrite <- (cntd_ext c c2 _ (fun y => counted_sbc c c2 y H)).
  rewrite (limiter_count_mono c c2 _ e H Hc Hv). rewrite Hv in Hd. exact Hd.
Qed.

(* wider window, everything else equal *)
Definition wider (c c2 : limcfg) : Prop :=
  l_skip c = l_skip c2 /\ l_count c = l_count c2 /\ l_nct c = l_nct c2 /\
  (start_of c2 <= start_of c)%Q /\ (end_of c <= end_of c2)%Q.

Lemma inwin_wider c c2 ts dur : wider c c2 -> inwin c ts dur = true -> inwin c2 ts dur = true.
Proof.
  intros (_ & _ & _ & S & E). unfold inwin. intros H. apply andb_prop in H. destruct H as [H1 H2].
  apply Qle_bool_iff in H1. apply Qle_bool_iff in H2.
  apply andb_true_iff. split; apply Qle_bool_iff.
  - eapply Qle_trans; eassumption.
  - eapply Qle_trans; eassumption.
Qed.

Lemma counted_wider c c2 e : wider c c2 -> counted c e = true -> counted c2 e = true.
Proof.
  intros W. pose proof W as (A & B & D & _).
  assert (N : nct_of c = nct_of c2) by (unfold nct_of; now rewrite D).
  unfold counted, wf_e, ignored, inwin_e. rewrite N.
  intros H. apply andb_prop in H. destruct H as [H H3]. rewrite H. cbn.
  destruct (ev_ts e) as [ts|]; destruct (ev_dur e) as [dur|]; try discriminate.
  now apply (inwin_wider c c2).
Qed.

Lemma cntd_wider c c2 l : wider c c2 -> cntd c l <= cntd c2 l.
Proof.
  intros W. induction l as [|a l IH]; [rewrite !cntd_nil; lia|]. rewrite !cntd_cons.
  destruct (counted c a) eqn:E; [rewrite (counted_wider c c2 a W E); lia|].
  destruct (counted c2 a); lia.
Qed.

Lemma monotone_window_lim c c2 es i : wider c c2 -> cntd c2 es <= limit_of c ->
  nth_error (lim_stream c 0 es) i = Some (Ok true) -> nth_error (lim_stream c2 0 es) i = Some (Ok true).
Proof.
  intros W Hb Hn. destruct (lim_stream_nth_inv c es 0 i _ Hn) as (e & He).
  rewrite (counter_invariant c es i e He) in Hn. rewrite (counter_invariant c2 es i e He).
  assert (Hn' : snd (limiter c (cntd c (firstn i es)) e) = Ok true) by congruence. clear Hn.
  f_equal.
  pose proof (limiter_ok_wf c _ e true Hn') as Wf.
  pose proof W as (A & B & D & _).
  assert (N : nct_of c = nct_of c2) by (unfold nct_of; now rewrite D).
  assert (Wf2 : wf_e c2 e = true) by (unfold wf_e in *; now rewrite <- N).
  rewrite (limiter_snd_wf c _ e Wf) in Hn'. rewrite (limiter_snd_wf c2 _ e Wf2). f_equal.
  assert (V : verdict c (cntd c (firstn i es) + (if counted c e then 1 else 0)) e = true) by congruence.
  clear Hn'. unfold verdict in *.
  assert (I : ignored c2 e = ignored c e) by (unfold ignored; now rewrite N).
  rewrite I. destruct (ignored c e) eqn:Ei; [reflexivity|]. cbn [orb] in *.
  apply andb_prop in V. destruct V as [V V3]. apply andb_prop in V. destruct V as [V1 V2].
  assert (C1 : counted c e = true) by (unfold counted; now rewrite Wf, Ei, V1).
  pose proof (counted_wider c c2 e W C1) as C2. rewrite C1 in *. rewrite C2.
  assert (V1' : inwin_e c2 e = true).
  { unfold counted in C2. apply andb_prop in C2. now destruct C2. }
  rewrite V1'. cbn [andb].
  assert (Sk : skip_of c2 = skip_of c) by (unfold skip_of; now rewrite A).
  assert (Lm : limit_of c2 = limit_of c) by (unfold limit_of, count_of, skip_of; now rewrite A, B).
  rewrite Sk, Lm.
  pose proof (cntd_wider c c2 (firstn i es) W).
  pose proof (cntd_firstn_le c2 es i e He) as Hle. rewrite C2 in Hle.
  apply andb_true_iff. split; lia.
Qed.

Lemma monotone_window re st c c2 fs jm es i x : wider c c2 -> cntd c2 es <= limit_of c ->
  nth_error (run_stream re st c fs jm 0 es) i = Some (Ok [x]) ->
  nth_error (run_stream re st c2 fs jm 0 es) i = Some (Ok [x]).
Proof.
  intros W Hb Hn. destruct (run_stream_nth_inv re st c fs jm es i _ Hn) as (e & He).
  rewrite (run_stream_nth re st c fs jm es i e He) in Hn.
  assert (Hd : decide re st fs jm (snd (limiter c (cntd c (firstn i es)) e)) e = Ok [x]) by congruence.
  clear Hn. pose proof (decide_singleton re st fs jm _ e x Hd) as Hv.
  assert (L1 : nth_error (lim_stream c 0 es) i = Some (Ok true)).
  { rewrite (counter_invariant c es i e He). now rewrite Hv. }
  pose proof (monotone_window_lim c c2 es i W Hb L1) as L2.
  rewrite (counter_invariant c2 es i e He) in L2.
  assert (Hv2 : snd (limiter c2 (cntd c2 (firstn i es)) e) = Ok true) by congruence.
  rewrite (run_stream_nth re st c2 fs jm es i e He), Hv2. rewrite Hv in Hd. now rewrite Hd.
Qed.

(* ---------------------------------------------------------------- every entry of --event_filter counts *)
Lemma split_first_app c : forall k r, has_char c k = false -> split_first c (k ++ String c r) = Some (k, r).
Proof.
  induction k as [|ch k IH]; intros r H; cbn [append split_first].
  - now rewrite Ascii.eqb_refl.
  - cbn [has_char] in H. apply orb_false_iff in H. destruct H as [H1 H2]. rewrite H1, (IH r H2). reflexivity.
Qed.

Lemma split_first_some c : forall s k r, split_first c s = Some (k, r) -> s = k ++ String c r /\ has_char c k = false.
Proof.
  induction s as [|ch s IH]; intros k r H; cbn [split_first] in H; [discriminate|].
  destruct (Ascii.eqb ch c) eqn:E.
  - apply Ascii.eqb_eq in E. inversion H; subst. split; reflexivity.
  - destruct (split_first c s) as [[k' r']|] eqn:F; [|discriminate]. inversion H; subst.
    destruct (IH k' r eq_refl) as [-> N]. split; [reflexivity|]. cbn [has_char]. now rewrite E, N.
Qed.

Lemma fold_add_filter_acc : forall fl acc x, In x acc -> In x (fold_left add_filter fl acc).
Proof.
  induction fl as [|f fl IH]; intros acc x Hx; cbn [fold_left]; [exact Hx|].
  apply IH. unfold add_filter. destruct (split_first ":"%char f) as [kr|]; [|exact Hx].
  apply in_or_app; left; exact Hx.
Qed.

Lemma fold_add_filter_in : forall fl acc f kr,
  In f fl -> split_first ":"%char f = Some kr -> In kr (fold_left add_filter fl acc).
Proof.
  induction fl as [|g fl IH]; intros acc f kr Hin Hs; [destruct Hin|].
  cbn [fold_left]. destruct Hin as [->|Hin].
  - apply fold_add_filter_acc. unfold add_filter. rewrite Hs. apply in_or_app; right; left; reflexivity.
  - eapply IH; eauto.
Qed.

Lemma fold_add_filter_inv : forall fl acc kr, In kr (fold_left add_filter fl acc) ->
  In kr acc \/ exists f, In f fl /\ split_first ":"%char f = Some kr.
Proof.
  induction fl as [|g fl IH]; intros acc kr H; cbn [fold_left] in H; [now left|].
  destruct (IH _ _ H) as [Ha|(f & I & S)].
  - unfold add_filter in Ha. destruct (split_first ":"%char g) as [kr'|] eqn:E; [|now left].
    apply in_app_or in Ha. destruct Ha as [Ha|[<-|[]]]; [now left|]. right. exists g. split; [now left|exact E].
  - right. exists f. split; [now right|exact S].
Qed.

(* a comma separated entry that contains a colon is one of the filters in force, with attribute = the text before its
   FIRST colon and regex = everything after it (colons included) - whether or not another entry names the same attribute *)
Lemma extract_every_entry : forall s f k r,
  all_space s = false -> In f (split_on ","%char s) -> has_char ":"%char k = false -> f = k ++ String ":"%char r ->
  In (k, r) (extract_filters s).
Proof.
  intros s f k r Hs Hin Hk ->. unfold extract_filters. rewrite Hs.
  eapply fold_add_filter_in; [exact Hin|]. now apply split_first_app.
Qed.

(* ... and nothing else is: every filter in force is such an entry of the string *)
Lemma extract_only_entries : forall s k r, In (k, r) (extract_filters s) ->
  all_space s = false /\ has_char ":"%char k = false /\ In (k ++ String ":"%char r) (split_on ","%char s).
Proof.
  intros s k r H. unfold extract_filters in H. destruct (all_space s); [destruct H|].
  split; [reflexivity|]. destruct (fold_add_filter_inv _ _ _ H) as [[]|(f & I & S)].
  destruct (split_first_some _ _ _ _ S) as [-> N]. split; assumption.
Qed.
