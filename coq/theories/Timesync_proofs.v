(* Timesync_proofs.v — lemmas about the model in Timesync.v (property C06).

   Everything is stated about the very definitions the tie executes ([c2w], [tighten], [run_ev], [run_all],
   [op_of], [ref_idx], [flex_lookup]).  Arithmetic: the five converted counters x_k = TS_k / f are abstracted
   as rationals, every claim about ts/dur is then linear ([lra]); the link back to (TS_b - TS_a)/f is a
   ring identity. *)
From Coq Require Import ZArith QArith Qfield List Bool String Ascii Lia Lqa.
Import ListNotations.
From AiuModel Require Import Base Timesync.
Local Open Scope Q_scope.

(* ------------------------------------------------------------------ vocabulary of the statements *)
Definition num (v : tsv) : option Z := match v with TNum z => Some z | _ => None end.

(* the five integer counters of a slice, when all of them are numbers *)
Definition counters (e : ev) : option (list Z) :=
  match num (tsx_at e 0), num (tsx_at e 1), num (tsx_at e 2), num (tsx_at e 3), num (tsx_at e 4) with
  | Some a, Some b, Some c, Some d, Some g => Some [a; b; c; d; g]
  | _, _, _, _, _ => None
  end.

(* counter k (0-based) as a rational *)
Definition cz (cs : list Z) (k : nat) : Q := inject_Z (nth k cs 0%Z).

(* both stages classify the name consistently: stage 2's phase k <-> stage 1 anchors the end counter of
   phase k (index k+1); no phase keyword <-> stage 1 anchors TS5 *)
Definition name_ok (name : string) : bool :=
  match op_of name with
  | Some k => Nat.eqb (ref_idx name) (S k)
  | None => Nat.eqb (ref_idx name) 4%nat
  end.
(* what is needed for the end to stay: only the keyword-free case constrains stage 1 *)
Definition end_ok (name : string) : bool :=
  match op_of name with Some _ => true | None => Nat.eqb (ref_idx name) 4%nat end.

Definition mono_z (cs : list Z) : Prop :=
  (nth 0 cs 0 <= nth 1 cs 0 /\ nth 1 cs 0 <= nth 2 cs 0 /\ nth 2 cs 0 <= nth 3 cs 0 /\ nth 3 cs 0 <= nth 4 cs 0)%Z.

Definition e_end (e : ev) : Q := (e_ts e + e_dur e)%Q.

(* ------------------------------------------------------------------ tables *)
Lemma ref_idx_range : forall name,
  ref_idx name = 1%nat \/ ref_idx name = 2%nat \/ ref_idx name = 3%nat \/ ref_idx name = 4%nat.
Proof.
  intro name. unfold ref_idx, ref_rules. cbn [fold_left fst snd].
  destruct (ends_with "Cmpt Exec" name); [tauto|].
  destruct (ends_with " DmaI" name); [tauto|].
  destruct (ends_with "Cmpt Prep" name); tauto.
Qed.

Lemma op_of_range : forall name k, op_of name = Some k -> (k < 4)%nat.
Proof.
  intros name k. unfold op_of, match_op_ids, op_keywords. cbn [match_from].
  destruct (contains " DmaI" name); cbn [hd_error]; [intro H; inversion H; lia|].
  destruct (contains " Cmpt Prep" name); cbn [hd_error]; [intro H; inversion H; lia|].
  destruct (contains " Cmpt Exec" name); cbn [hd_error]; [intro H; inversion H; lia|].
  destruct (contains " DmaO" name); cbn [hd_error]; [intro H; inversion H; lia|].
  discriminate.
Qed.

Lemma name_ok_end_ok : forall name, name_ok name = true -> end_ok name = true.
Proof. intro name. unfold name_ok, end_ok. destruct (op_of name); auto. Qed.

(* ------------------------------------------------------------------ counters and the conversion *)
Lemma counters_inv : forall e cs, counters e = Some cs ->
  exists c0 c1 c2 c3 c4, cs = [c0; c1; c2; c3; c4] /\
    tsx_at e 0 = TNum c0 /\ tsx_at e 1 = TNum c1 /\ tsx_at e 2 = TNum c2 /\
    tsx_at e 3 = TNum c3 /\ tsx_at e 4 = TNum c4.
Proof.
  intros e cs. unfold counters.
  destruct (tsx_at e 0); cbn [num]; try discriminate.
  destruct (tsx_at e 1); cbn [num]; try discriminate.
  destruct (tsx_at e 2); cbn [num]; try discriminate.
  destruct (tsx_at e 3); cbn [num]; try discriminate.
  destruct (tsx_at e 4); cbn [num]; try discriminate.
  intro H. inversion H. repeat eexists.
Qed.

Lemma conv_dts_some : forall f e c0 c1 c2 c3 c4,
  tsx_at e 0 = TNum c0 -> tsx_at e 1 = TNum c1 -> tsx_at e 2 = TNum c2 ->
  tsx_at e 3 = TNum c3 -> tsx_at e 4 = TNum c4 -> Qeq_bool f 0 = false ->
  conv_dts f e = Ok [(inject_Z c0 / f)%Q; (inject_Z c1 / f)%Q; (inject_Z c2 / f)%Q;
                     (inject_Z c3 / f)%Q; (inject_Z c4 / f)%Q].
Proof.
  intros f e c0 c1 c2 c3 c4 H0 H1 H2 H3 H4 Hf. unfold conv_dts.
  rewrite H0, H1, H2, H3, H4. cbn [conv_list]. rewrite Hf. reflexivity.
Qed.

(* a successful conversion means: five numbers and a non-zero frequency *)
Lemma conv_dts_inv : forall f e xs, conv_dts f e = Ok xs ->
  Qeq_bool f 0 = false /\ exists cs, counters e = Some cs.
Proof.
  intros f e xs. unfold conv_dts, counters.
  destruct (tsx_at e 0); cbn [conv_list num]; try discriminate.
  destruct (Qeq_bool f 0) eqn:Hf; [discriminate|].
  destruct (tsx_at e 1); cbn [conv_list num]; try discriminate.
  destruct (tsx_at e 2); cbn [conv_list num]; try discriminate.
  destruct (tsx_at e 3); cbn [conv_list num]; try discriminate.
  destruct (tsx_at e 4); cbn [conv_list num]; try discriminate.
  intros _. split; [reflexivity|]. eexists; reflexivity.
Qed.

Lemma guard_mkev : forall x a n t d tsx al dv aj e,
  x = e_x e -> a = e_args e -> tsx = e_tsx e ->
  guard (mkev x a n t d tsx al dv aj) = guard e.
Proof. intros; subst; reflexivity. Qed.

Lemma Qeq_bool_false_neq : forall f, Qeq_bool f 0 = false -> ~ f == 0.
Proof. intros f H E. apply Qeq_bool_iff in E. congruence. Qed.

Lemma Qle_bool_true : forall a b, Qle_bool a b = true -> a <= b.
Proof. intros a b. apply Qle_bool_iff. Qed.

Lemma Qle_bool_of_le : forall a b, a <= b -> Qle_bool a b = true.
Proof. intros a b. apply Qle_bool_iff. Qed.

(* (cb/f - ca/f) = (cb - ca)/f *)
Lemma div_sub : forall a b f : Q, (b / f - a / f == (b - a) / f)%Q.
Proof. intros. unfold Qdiv. ring. Qed.

(* ------------------------------------------------------------------ stage 1 *)
(* what a returning cycle_count_to_wallclock leaves behind, in terms of x_k = TS_k/f *)
Lemma c2w_spec : forall f e e1 c0 c1 c2 c3 c4,
  guard e = true -> counters e = Some [c0; c1; c2; c3; c4] -> c2w f e = Ok e1 ->
  let x := fun k => (cz [c0; c1; c2; c3; c4] k / f)%Q in
  e_x e1 = e_x e /\ e_args e1 = e_args e /\ e_name e1 = e_name e /\ e_tsx e1 = e_tsx e /\
  Qeq_bool f 0 = false /\
  e_dur e1 == x (ref_idx (e_name e)) - x 0%nat /\
  e_ts e1 + e_dur e1 == e_ts e + e_dur e /\
  0 <= e_ts e1.
Proof.
  intros f e e1 c0 c1 c2 c3 c4 Hg Hc H x.
  destruct (counters_inv _ _ Hc) as (d0 & d1 & d2 & d3 & d4 & Hcs & T0 & T1 & T2 & T3 & T4).
  inversion Hcs; subst d0 d1 d2 d3 d4; clear Hcs.
  unfold c2w in H. rewrite Hg in H. unfold convert_cycle in H.
  destruct (conv_dts f e) as [xs|t] eqn:Hx; [|discriminate].
  destruct (conv_dts_inv _ _ _ Hx) as [Hf _].
  rewrite (conv_dts_some f e _ _ _ _ _ T0 T1 T2 T3 T4 Hf) in Hx. inversion Hx; subst xs; clear Hx.
  subst x. unfold cz. cbn [nth].
  set (x0 := (inject_Z c0 / f)%Q) in *. set (x1 := (inject_Z c1 / f)%Q) in *.
  set (x2 := (inject_Z c2 / f)%Q) in *. set (x3 := (inject_Z c3 / f)%Q) in *.
  set (x4 := (inject_Z c4 / f)%Q) in *.
  destruct (ref_idx_range (e_name e)) as [R|[R|[R|R]]]; rewrite R in *;
    cbn [rel_to map qn nth] in H;
    match type of H with
    | context [if Qle_bool 0 ?t then _ else _] =>
        destruct (Qle_bool 0 t) eqn:Hpos; [|cbv beta iota in H; discriminate]
    end;
    cbv beta iota in H;
    cbn [e_ts e_dur e_x e_args e_name e_tsx e_all e_dev e_adj qn nth] in H;
    match type of H with
    | (if ?c then _ else _) = _ => destruct c; [|discriminate]
    end;
    inversion H; subst e1; clear H;
    cbn [e_ts e_dur e_x e_args e_name e_tsx nth]; fold x0 x1 x2 x3 x4;
    apply Qle_bool_true in Hpos;
    (repeat split; try reflexivity; try assumption; try lra).
Qed.

(* ------------------------------------------------------------------ stage 2 *)
Lemma tighten_spec : forall f e e2 c0 c1 c2 c3 c4,
  guard e = true -> counters e = Some [c0; c1; c2; c3; c4] -> tighten f e = Ok e2 ->
  let x := fun k => (cz [c0; c1; c2; c3; c4] k / f)%Q in
  Qeq_bool f 0 = false /\
  match op_of (e_name e) with
  | Some k => e_dur e2 == x (S k) - x k /\ e_ts e2 + e_dur e2 == e_ts e + e_dur e /\ 0 <= e_ts e2
  | None => e_dur e2 == x 4%nat - x 0%nat /\ e_ts e2 = e_ts e
  end.
Proof.
  intros f e e2 c0 c1 c2 c3 c4 Hg Hc H x.
  destruct (counters_inv _ _ Hc) as (d0 & d1 & d2 & d3 & d4 & Hcs & T0 & T1 & T2 & T3 & T4).
  inversion Hcs; subst d0 d1 d2 d3 d4; clear Hcs.
  unfold tighten in H. rewrite Hg in H.
  destruct (op_of (e_name e)) as [k|] eqn:Hop.
  - pose proof (op_of_range _ _ Hop) as Hk.
    unfold align_type in H.
    destruct (conv_dts f e) as [xs|t] eqn:Hx; [|discriminate].
    destruct (conv_dts_inv _ _ _ Hx) as [Hf _].
    rewrite (conv_dts_some f e _ _ _ _ _ T0 T1 T2 T3 T4 Hf) in Hx. inversion Hx; subst xs; clear Hx.
    split; [exact Hf|].
    subst x. unfold cz.
    set (x0 := (inject_Z c0 / f)%Q) in *. set (x1 := (inject_Z c1 / f)%Q) in *.
    set (x2 := (inject_Z c2 / f)%Q) in *. set (x3 := (inject_Z c3 / f)%Q) in *.
    set (x4 := (inject_Z c4 / f)%Q) in *.
    destruct k as [|[|[|[|k]]]]; [| | | |lia];
      cbn [rel_to map qn nth] in H; cbn [nth];
      match type of H with
      | (if Qle_bool 0 ?t then _ else _) = _ => destruct (Qle_bool 0 t) eqn:Hpos; [|discriminate]
      end;
      inversion H; subst e2; clear H;
      cbn [e_ts e_dur nth]; fold x0 x1 x2 x3 x4;
      apply Qle_bool_true in Hpos;
      (repeat split; try lra).
  - unfold align_beg in H.
    destruct (conv_dts f e) as [xs|t] eqn:Hx; [|discriminate].
    destruct (conv_dts_inv _ _ _ Hx) as [Hf _].
    rewrite (conv_dts_some f e _ _ _ _ _ T0 T1 T2 T3 T4 Hf) in Hx. inversion Hx; subst xs; clear Hx.
    split; [exact Hf|].
    subst x. unfold cz. cbn [nth].
    cbn [rel_to map qn nth] in H.
    inversion H; subst e2; clear H. cbn [e_ts e_dur].
    split; [ring|reflexivity].
Qed.

(* ------------------------------------------------------------------ both stages *)
Lemma cz_div_sub : forall cs a b f, (cz cs b / f - cz cs a / f == (cz cs b - cz cs a) / f)%Q.
Proof. intros. apply div_sub. Qed.

(* general form, no hypothesis on the name: duration by stage 2's classification; the end stays when
   stage 2 finds a phase keyword, otherwise it sits (TS5 - TSref)/f after the host end *)
Lemma run_ev_spec : forall f e e' cs,
  guard e = true -> counters e = Some cs -> run_ev f e = Ok e' ->
  ~ f == 0 /\
  e_dur e' == (cz cs (snd (pair_of (e_name e))) - cz cs (fst (pair_of (e_name e)))) / f /\
  match op_of (e_name e) with
  | Some _ => e_end e' == e_end e
  | None => e_end e' == e_end e + (cz cs 4 - cz cs (ref_idx (e_name e))) / f
  end /\
  0 <= e_ts e'.
Proof.
  intros f e e' cs Hg Hc H.
  destruct (counters_inv _ _ Hc) as (c0 & c1 & c2 & c3 & c4 & Hcs & _). subst cs.
  unfold run_ev in H. destruct (c2w f e) as [e1|t] eqn:H1; [|discriminate].
  destruct (c2w_spec _ _ _ _ _ _ _ _ Hg Hc H1) as (Ex & Ea & En & Et & Hf & Hd1 & He1 & Hp1).
  assert (Hg1 : guard e1 = true).
  { unfold guard, tsx_at in *. rewrite Ex, Ea, Et. exact Hg. }
  assert (Hc1 : counters e1 = Some [c0; c1; c2; c3; c4]).
  { unfold counters, tsx_at in *. rewrite Et. exact Hc. }
  destruct (tighten_spec _ _ _ _ _ _ _ _ Hg1 Hc1 H) as (_ & Hs).
  rewrite En in Hs. unfold pair_of, e_end in *.
  split; [apply Qeq_bool_false_neq; exact Hf|].
  destruct (op_of (e_name e)) as [k|] eqn:Hop; cbn [fst snd].
  - destruct Hs as (Hd & He & Hp). repeat split.
    + rewrite Hd. apply cz_div_sub.
    + rewrite He. exact He1.
    + exact Hp.
  - destruct Hs as (Hd & Hts). repeat split.
    + rewrite Hd. apply cz_div_sub.
    + rewrite Hts, Hd. rewrite <- He1. rewrite Hd1.
      rewrite <- (cz_div_sub [c0; c1; c2; c3; c4] (ref_idx (e_name e)) 4 f). ring.
    + rewrite Hts. exact Hp1.
Qed.

Lemma duration : forall f e e' cs,
  guard e = true -> counters e = Some cs -> run_ev f e = Ok e' ->
  e_dur e' == (cz cs (snd (pair_of (e_name e))) - cz cs (fst (pair_of (e_name e)))) / f.
Proof. intros f e e' cs Hg Hc H. apply (run_ev_spec f e e' cs Hg Hc H). Qed.

Lemma end_fixed : forall f e e' cs,
  guard e = true -> counters e = Some cs -> end_ok (e_name e) = true -> run_ev f e = Ok e' ->
  e_end e' == e_end e.
Proof.
  intros f e e' cs Hg Hc Hn H.
  destruct (run_ev_spec f e e' cs Hg Hc H) as (_ & _ & He & _).
  unfold end_ok in Hn. destruct (op_of (e_name e)); [exact He|].
  apply Nat.eqb_eq in Hn. rewrite Hn in He. rewrite He.
  unfold Qdiv. ring.
Qed.

Lemma pair_of_lt : forall name, (fst (pair_of name) < snd (pair_of name))%nat.
Proof. intro name. unfold pair_of. destruct (op_of name); cbn; lia. Qed.

Lemma Qdiv_pos_iff : forall a f : Q, 0 < f -> (0 < a / f <-> 0 < a).
Proof.
  intros a f Hf. split; intro H.
  - assert (E : a == (a / f) * f) by (field; lra). rewrite E.
    apply Qmult_lt_0_compat; assumption.
  - unfold Qdiv. apply Qmult_lt_0_compat; [assumption|]. apply Qinv_lt_0_compat. exact Hf.
Qed.

Lemma cz_lt : forall cs a b, 0 < cz cs b - cz cs a <-> (nth a cs 0 < nth b cs 0)%Z.
Proof.
  intros cs a b. unfold cz. split; intro H.
  - rewrite Zlt_Qlt. lra.
  - rewrite Zlt_Qlt in H. lra.
Qed.

(* strictly positive exactly when the phase's counters differ in the right direction *)
Lemma positive : forall f e e' cs,
  0 < f -> guard e = true -> counters e = Some cs -> run_ev f e = Ok e' ->
  (0 < e_dur e' <-> (nth (fst (pair_of (e_name e))) cs 0 < nth (snd (pair_of (e_name e))) cs 0)%Z).
Proof.
  intros f e e' cs Hf Hg Hc H.
  rewrite (duration f e e' cs Hg Hc H). rewrite Qdiv_pos_iff by exact Hf. apply cz_lt.
Qed.

(* --freq scaled by k: duration / k, same end, start moved by the difference *)
Lemma scale : forall f k e e1 e2 cs,
  ~ k == 0 -> guard e = true -> counters e = Some cs ->
  run_ev f e = Ok e1 -> run_ev (k * f) e = Ok e2 ->
  e_dur e2 == e_dur e1 / k /\
  (end_ok (e_name e) = true ->
   e_end e2 == e_end e1 /\ e_ts e2 == e_ts e1 + (e_dur e1 - e_dur e2)).
Proof.
  intros f k e e1 e2 cs Hk Hg Hc H1 H2.
  destruct (run_ev_spec f e e1 cs Hg Hc H1) as (Hf & Hd1 & _).
  pose proof (duration _ _ _ _ Hg Hc H2) as Hd2.
  assert (D : e_dur e2 == e_dur e1 / k).
  { rewrite Hd1, Hd2. field. split; assumption. }
  split; [exact D|].
  intro Hn.
  pose proof (end_fixed _ _ _ _ Hg Hc Hn H1) as E1.
  pose proof (end_fixed _ _ _ _ Hg Hc Hn H2) as E2.
  unfold e_end in *. split; [rewrite E1, E2; reflexivity|]. lra.
Qed.

(* host-only slices (anything failing the guard) are returned as they came *)
Lemma host_unchanged : forall f e, guard e = false -> run_ev f e = Ok e.
Proof.
  intros f e Hg. unfold run_ev, c2w. rewrite Hg. unfold tighten. rewrite Hg. reflexivity.
Qed.

(* ------------------------------------------------------------------ no exception on the stated domain *)
Lemma x_mono : forall (a b : Z) (f : Q), 0 < f -> (a <= b)%Z -> inject_Z a / f <= inject_Z b / f.
Proof.
  intros a b f Hf Hab. unfold Qdiv. apply Qmult_le_compat_r.
  - rewrite <- Zle_Qle. exact Hab.
  - apply Qlt_le_weak. apply Qinv_lt_0_compat. exact Hf.
Qed.

Lemma Qeq_bool_pos : forall f, 0 < f -> Qeq_bool f 0 = false.
Proof.
  intros f Hf. destruct (Qeq_bool f 0) eqn:E; [|reflexivity].
  apply Qeq_bool_iff in E. rewrite E in Hf. exfalso. apply (Qlt_irrefl 0). exact Hf.
Qed.

Lemma no_error : forall f e cs,
  0 < f -> guard e = true -> counters e = Some cs -> mono_z cs -> name_ok (e_name e) = true ->
  0 <= e_end e - (cz cs (ref_idx (e_name e)) - cz cs 0) / f ->
  exists e', run_ev f e = Ok e'.
Proof.
  intros f e cs Hf Hg Hc Hm Hn Hs.
  destruct (counters_inv _ _ Hc) as (c0 & c1 & c2 & c3 & c4 & Hcs & T0 & T1 & T2 & T3 & T4). subst cs.
  pose proof (Qeq_bool_pos f Hf) as Hfz.
  unfold mono_z in Hm. cbn [nth] in Hm. destruct Hm as (M0 & M1 & M2 & M3).
  pose proof (x_mono _ _ f Hf M0) as X0. pose proof (x_mono _ _ f Hf M1) as X1.
  pose proof (x_mono _ _ f Hf M2) as X2. pose proof (x_mono _ _ f Hf M3) as X3.
  rewrite <- cz_div_sub in Hs. unfold cz, e_end in Hs.
  unfold name_ok in Hn.
  unfold run_ev, c2w, convert_cycle, tighten.
  rewrite Hg. rewrite (conv_dts_some f e _ _ _ _ _ T0 T1 T2 T3 T4 Hfz).
  set (x0 := (inject_Z c0 / f)%Q) in *. set (x1 := (inject_Z c1 / f)%Q) in *.
  set (x2 := (inject_Z c2 / f)%Q) in *. set (x3 := (inject_Z c3 / f)%Q) in *.
  set (x4 := (inject_Z c4 / f)%Q) in *.
  destruct (op_of (e_name e)) as [k|] eqn:Hop.
  - pose proof (op_of_range _ _ Hop) as Hk. apply Nat.eqb_eq in Hn.
    destruct k as [|[|[|[|k]]]]; [| | | |lia]; rewrite Hn in *; cbn [nth] in Hs; fold x0 x1 x2 x3 x4 in Hs;
      cbn [rel_to map qn nth];
      (rewrite Qle_bool_of_le by lra);
      cbn [e_ts e_dur e_x e_args e_name e_tsx e_all e_dev e_adj qn nth mono];
      (repeat (rewrite Qle_bool_of_le by lra)); cbn [andb];
      rewrite guard_mkev with (e := e) by reflexivity; rewrite Hg;
      cbn [e_name]; rewrite Hop; unfold align_type;
      (erewrite conv_dts_some by (first [exact Hfz | unfold tsx_at in *; cbn [e_tsx]; eassumption]));
      cbn [rel_to map qn nth e_ts e_dur]; fold x0 x1 x2 x3 x4;
      (rewrite Qle_bool_of_le by lra); eexists; reflexivity.
  - apply Nat.eqb_eq in Hn. rewrite Hn in *. cbn [nth] in Hs. fold x0 x1 x2 x3 x4 in Hs.
    cbn [rel_to map qn nth].
    (rewrite Qle_bool_of_le by lra).
    cbn [e_ts e_dur e_x e_args e_name e_tsx e_all e_dev e_adj qn nth mono].
    (repeat (rewrite Qle_bool_of_le by lra)). cbn [andb].
    rewrite guard_mkev with (e := e) by reflexivity. rewrite Hg.
    cbn [e_name]. rewrite Hop. unfold align_beg.
    (erewrite conv_dts_some by (first [exact Hfz | unfold tsx_at in *; cbn [e_tsx]; eassumption])).
    eexists; reflexivity.
Qed.

(* ------------------------------------------------------------------ the exception-free domain, exactly *)
Lemma x_mono_inv : forall (a b : Z) (f : Q), 0 < f -> inject_Z a / f <= inject_Z b / f -> (a <= b)%Z.
Proof.
  intros a b f Hf H. rewrite Zle_Qle.
  assert (Ea : inject_Z a == (inject_Z a / f) * f) by (field; lra).
  assert (Eb : inject_Z b == (inject_Z b / f) * f) by (field; lra).
  rewrite Ea, Eb. apply Qmult_le_compat_r; [exact H|]. apply Qlt_le_weak. exact Hf.
Qed.

(* a returning stage 1 has checked that the counters are non-decreasing *)
Lemma c2w_mono : forall f e e1 cs,
  0 < f -> guard e = true -> counters e = Some cs -> c2w f e = Ok e1 -> mono_z cs.
Proof.
  intros f e e1 cs Hfp Hg Hc H.
  destruct (counters_inv _ _ Hc) as (c0 & c1 & c2 & c3 & c4 & Hcs & T0 & T1 & T2 & T3 & T4). subst cs.
  unfold c2w in H. rewrite Hg in H. unfold convert_cycle in H.
  rewrite (conv_dts_some f e _ _ _ _ _ T0 T1 T2 T3 T4 (Qeq_bool_pos f Hfp)) in H.
  set (x0 := (inject_Z c0 / f)%Q) in *. set (x1 := (inject_Z c1 / f)%Q) in *.
  set (x2 := (inject_Z c2 / f)%Q) in *. set (x3 := (inject_Z c3 / f)%Q) in *.
  set (x4 := (inject_Z c4 / f)%Q) in *.
  assert (M : x0 <= x1 /\ x1 <= x2 /\ x2 <= x3 /\ x3 <= x4).
  { destruct (ref_idx_range (e_name e)) as [R|[R|[R|R]]]; rewrite R in *;
      cbn [rel_to map qn nth] in H;
      match type of H with
      | context [if Qle_bool 0 ?t then _ else _] =>
          destruct (Qle_bool 0 t) eqn:Hpos; [|cbv beta iota in H; discriminate]
      end;
      cbv beta iota in H;
      cbn [e_ts e_dur e_x e_args e_name e_tsx e_all e_dev e_adj qn nth mono] in H;
      match type of H with
      | (if ?c then _ else _) = _ => destruct c eqn:Hc3; [|discriminate]
      end;
      repeat (apply andb_true_iff in Hc3; let A := fresh "A" in destruct Hc3 as [Hc3 A]; try apply Qle_bool_true in A);
      try apply Qle_bool_true in Hc3;
      repeat match goal with A : _ && _ = true |- _ => apply andb_true_iff in A; destruct A end;
      repeat match goal with A : Qle_bool _ _ = true |- _ => apply Qle_bool_true in A end;
      (repeat split; lra). }
  destruct M as (M0 & M1 & M2 & M3).
  unfold mono_z. cbn [nth].
  repeat split; eapply x_mono_inv; eauto.
Qed.

(* the exception-free domain, exactly: for a positive frequency and a consistently classified device slice the two
   stages return IF AND ONLY IF the counters are non-decreasing and the slice widened to TS1 starts at >= 0 *)
Lemma domain_exact : forall f e cs,
  0 < f -> guard e = true -> counters e = Some cs -> name_ok (e_name e) = true ->
  ((exists e', run_ev f e = Ok e') <->
   (mono_z cs /\ 0 <= e_end e - (cz cs (ref_idx (e_name e)) - cz cs 0) / f)).
Proof.
  intros f e cs Hf Hg Hc Hn. split.
  - intros [e' H]. unfold run_ev in H. destruct (c2w f e) as [e1|t] eqn:H1; [|discriminate].
    split; [exact (c2w_mono f e e1 cs Hf Hg Hc H1)|].
    destruct (counters_inv _ _ Hc) as (c0 & c1 & c2 & c3 & c4 & Hcs & _). subst cs.
    destruct (c2w_spec _ _ _ _ _ _ _ _ Hg Hc H1) as (_ & _ & _ & _ & _ & Hd1 & He1 & Hp1).
    rewrite <- cz_div_sub. unfold e_end. rewrite <- He1. rewrite <- Hd1. lra.
  - intros [Hm Hs]. exact (no_error f e cs Hf Hg Hc Hm Hn Hs).
Qed.

(* ------------------------------------------------------------------ streams *)
Lemma run_all_forall2 : forall f es os,
  run_all f es = Ok os -> Forall2 (fun e e' => run_ev f e = Ok e') es os.
Proof.
  intros f es. induction es as [|e r IH]; intros os H; cbn [run_all] in H.
  - inversion H. constructor.
  - destruct (run_ev f e) as [e'|t] eqn:He; [|discriminate].
    destruct (run_all f r) as [os'|t]; [|discriminate].
    inversion H. constructor; [exact He|]. apply IH. reflexivity.
Qed.

Lemma run_all_ok : forall f es,
  Forall (fun e => exists e', run_ev f e = Ok e') es -> exists os, run_all f es = Ok os.
Proof.
  intros f es H. induction H as [|e r [e' He] _ [os IH]]; cbn [run_all].
  - eexists; reflexivity.
  - rewrite He, IH. eexists; reflexivity.
Qed.

(* the per-slice statement of the property *)
Definition slice_ok (f : Q) (e e' : ev) : Prop :=
  if guard e then
    forall cs, counters e = Some cs ->
      e_dur e' == (cz cs (snd (pair_of (e_name e))) - cz cs (fst (pair_of (e_name e)))) / f /\
      (end_ok (e_name e) = true -> e_end e' == e_end e) /\
      0 <= e_ts e'
  else e' = e.

Lemma stream : forall f es os,
  run_all f es = Ok os -> Forall2 (slice_ok f) es os.
Proof.
  intros f es os H. apply run_all_forall2 in H.
  induction H as [|e e' r r' He _ IH]; constructor; [|exact IH].
  unfold slice_ok. destruct (guard e) eqn:Hg.
  - intros cs Hc. destruct (run_ev_spec f e e' cs Hg Hc He) as (_ & Hd & _ & Hp).
    split; [exact Hd|]. split; [|exact Hp].
    intro Hn. exact (end_fixed f e e' cs Hg Hc Hn He).
  - rewrite (host_unchanged f e Hg) in He. inversion He. reflexivity.
Qed.

(* ------------------------------------------------------------------ names *)
Lemma chars_app : forall a b, chars (a ++ b) = (chars a ++ chars b)%list.
Proof. induction a as [|c a IH]; intro b; cbn; [reflexivity|]. unfold chars in IH. rewrite IH. reflexivity. Qed.

Lemma prefixb_refl : forall l, prefixb l l = true.
Proof. induction l as [|c l IH]; cbn; [reflexivity|]. rewrite Ascii.eqb_refl. exact IH. Qed.

Lemma prefixb_app : forall k x, prefixb k (k ++ x) = true.
Proof. induction k as [|c k IH]; intro x; cbn; [reflexivity|]. rewrite Ascii.eqb_refl. apply IH. Qed.

Lemma containsb_app : forall k p, containsb k (p ++ k) = true.
Proof.
  intros k p. induction p as [|c p IH]; cbn [app].
  - destruct k; cbn; [reflexivity|]. rewrite Ascii.eqb_refl, prefixb_refl. reflexivity.
  - cbn [containsb]. rewrite IH. apply orb_true_r.
Qed.

Lemma contains_suffix : forall kw p, contains kw (p ++ kw) = true.
Proof. intros. unfold contains. rewrite chars_app. apply containsb_app. Qed.

(* dropping the first character of the pattern keeps a match: " DmaI" in s -> "DmaI" in s *)
Lemma prefixb_tail : forall c p s, prefixb (c :: p) s = true -> containsb p s = true.
Proof.
  intros c p s H. destruct s as [|d s]; cbn in H; [discriminate|].
  apply andb_true_iff in H. destruct H as [_ H].
  cbn [containsb]. destruct s as [|d' s'].
  - destruct p; [reflexivity|discriminate].
  - assert (containsb p (d' :: s') = true) as ->; [|apply orb_true_r].
    cbn [containsb]. rewrite H. reflexivity.
Qed.

Lemma containsb_tail : forall c p s, containsb (c :: p) s = true -> containsb p s = true.
Proof.
  intros c p s. induction s as [|d s IH]; intro H.
  - cbn in H. discriminate.
  - cbn [containsb] in H. apply orb_true_iff in H. destruct H as [H|H].
    + apply (prefixb_tail c). exact H.
    + specialize (IH H). cbn [containsb]. rewrite IH. apply orb_true_r.
Qed.

Lemma contains_drop_first : forall c kw s, contains (String c kw) s = false \/ contains kw s = true.
Proof.
  intros c kw s. destruct (contains (String c kw) s) eqn:E; [right|left; reflexivity].
  unfold contains in *. cbn [chars list_ascii_of_string] in E. apply (containsb_tail c). exact E.
Qed.

Lemma ends_with_app : forall kw p, ends_with kw (p ++ kw) = true.
Proof. intros. unfold ends_with. rewrite chars_app, rev_app_distr. apply prefixb_app. Qed.

(* canonical names are classified consistently by the two stages *)
Lemma canonical_names : forall p : string,
  (op_of (p ++ " DmaI") = Some 0%nat /\ ref_idx (p ++ " DmaI") = 1%nat) /\
  (contains " DmaI" (p ++ " Cmpt Prep") = false ->
   op_of (p ++ " Cmpt Prep") = Some 1%nat /\ ref_idx (p ++ " Cmpt Prep") = 2%nat) /\
  (contains " DmaI" (p ++ " Cmpt Exec") = false -> contains " Cmpt Prep" (p ++ " Cmpt Exec") = false ->
   op_of (p ++ " Cmpt Exec") = Some 2%nat /\ ref_idx (p ++ " Cmpt Exec") = 3%nat) /\
  (contains " DmaI" (p ++ " DmaO") = false -> contains " Cmpt Prep" (p ++ " DmaO") = false ->
   contains " Cmpt Exec" (p ++ " DmaO") = false ->
   op_of (p ++ " DmaO") = Some 3%nat /\ ref_idx (p ++ " DmaO") = 4%nat).
Proof.
  intro p.
  assert (E : forall a b, ends_with a (p ++ b) = prefixb (rev (chars a)) (rev (chars b) ++ rev (chars p))).
  { intros. unfold ends_with. rewrite chars_app, rev_app_distr. reflexivity. }
  repeat split.
  - unfold op_of, match_op_ids, op_keywords. cbn [match_from].
    rewrite (contains_suffix " DmaI" p). reflexivity.
  - unfold ref_idx, ref_rules. cbn [fold_left fst snd]. rewrite !E. cbn. reflexivity.
  - unfold op_of, match_op_ids, op_keywords. cbn [match_from].
    rewrite H, (contains_suffix " Cmpt Prep" p). reflexivity.
  - unfold ref_idx, ref_rules. cbn [fold_left fst snd]. rewrite !E. cbn. reflexivity.
  - unfold op_of, match_op_ids, op_keywords. cbn [match_from].
    rewrite H, H0, (contains_suffix " Cmpt Exec" p). reflexivity.
  - unfold ref_idx, ref_rules. cbn [fold_left fst snd]. rewrite !E. cbn. reflexivity.
  - unfold op_of, match_op_ids, op_keywords. cbn [match_from].
    rewrite H, H0, H1, (contains_suffix " DmaO" p). reflexivity.
  - unfold ref_idx, ref_rules. cbn [fold_left fst snd]. rewrite !E. cbn. reflexivity.
Qed.

Lemma canonical_name_ok : forall p : string,
  name_ok (p ++ " DmaI") = true /\
  (contains " DmaI" (p ++ " Cmpt Prep") = false -> name_ok (p ++ " Cmpt Prep") = true) /\
  (contains " DmaI" (p ++ " Cmpt Exec") = false -> contains " Cmpt Prep" (p ++ " Cmpt Exec") = false ->
   name_ok (p ++ " Cmpt Exec") = true) /\
  (contains " DmaI" (p ++ " DmaO") = false -> contains " Cmpt Prep" (p ++ " DmaO") = false ->
   contains " Cmpt Exec" (p ++ " DmaO") = false -> name_ok (p ++ " DmaO") = true).
Proof.
  intro p. destruct (canonical_names p) as ((A1 & A2) & B & C & D). unfold name_ok.
  split; [rewrite A1, A2; reflexivity|].
  split; [intro H; destruct (B H) as [B1 B2]; rewrite B1, B2; reflexivity|].
  split; [intros H H0; destruct (C H H0) as [C1 C2]; rewrite C1, C2; reflexivity|].
  intros H H0 H1; destruct (D H H0 H1) as [D1 D2]; rewrite D1, D2; reflexivity.
Qed.

(* FlexEventMapToTS (keywords without the leading space) names the pair of the same phase whenever no
   earlier bare keyword occurs in the name: TS_(k+1), TS_(k+2) for stage 2's phase k *)
Lemma flex_table_agrees : forall name k,
  op_of name = Some k ->
  (forall j kw, (j < k)%nat -> nth_error ["DmaI"; "Cmpt Prep"; "Cmpt Exec"; "DmaO"]%string j = Some kw ->
                contains kw name = false) ->
  flex_lookup name = Some (S k, S (S k)).
Proof.
  intros name k Hop Hno.
  assert (B : forall j kw, nth_error ["DmaI"; "Cmpt Prep"; "Cmpt Exec"; "DmaO"]%string j = Some kw ->
                      (j < k)%nat -> contains kw name = false) by (intros; eauto).
  unfold op_of, match_op_ids, op_keywords in Hop. cbn [match_from] in Hop.
  unfold flex_lookup, flex_map. cbn [flex_find].
  destruct (contains " DmaI" name) eqn:K0; cbn [hd_error] in Hop.
  { inversion Hop; subst k.
    destruct (contains_drop_first " " "DmaI" name) as [X|X]; [congruence|]. rewrite X. reflexivity. }
  destruct (contains " Cmpt Prep" name) eqn:K1; cbn [hd_error] in Hop.
  { inversion Hop; subst k.
    rewrite (B 0%nat "DmaI"%string eq_refl) by lia.
    destruct (contains_drop_first " " "Cmpt Prep" name) as [X|X]; [congruence|]. rewrite X. reflexivity. }
  destruct (contains " Cmpt Exec" name) eqn:K2; cbn [hd_error] in Hop.
  { inversion Hop; subst k.
    rewrite (B 0%nat "DmaI"%string eq_refl) by lia.
    rewrite (B 1%nat "Cmpt Prep"%string eq_refl) by lia.
    destruct (contains_drop_first " " "Cmpt Exec" name) as [X|X]; [congruence|]. rewrite X. reflexivity. }
  destruct (contains " DmaO" name) eqn:K3; cbn [hd_error] in Hop; [|discriminate].
  inversion Hop; subst k.
  rewrite (B 0%nat "DmaI"%string eq_refl) by lia.
  rewrite (B 1%nat "Cmpt Prep"%string eq_refl) by lia.
  rewrite (B 2%nat "Cmpt Exec"%string eq_refl) by lia.
  destruct (contains_drop_first " " "DmaO" name) as [X|X]; [congruence|]. rewrite X. reflexivity.
Qed.
