(* Ingest_proofs.v — lemmas about the model Ingest.v (multi-file merge machine and per-file
   B/E pairing).  The loss-freedom core of design-spikes/merge_perm.v is absorbed here, extended to
   the lazy per-file iterators, the enabled/front invariant (the silent-drop branch is unreachable),
   fuel sufficiency, per-file order and time order. *)
From Coq Require Import ZArith QArith List Bool String Ascii Lia Permutation Sorted Arith.
Import ListNotations.
From AiuModel Require Import Base Ingest.
Local Open Scope nat_scope.

(* ------------------------------------------------------------------ generic list facts *)
Section SortFacts.
  Context {A : Type} (leb : A -> A -> bool).
  Definition Rb (a b : A) : Prop := leb a b = true.

  Lemma insert_sorted_perm x l : Permutation (insert_sorted leb x l) (x :: l).
  Proof.
    induction l as [|y r IH]; cbn [insert_sorted]; [reflexivity|].
    destruct (leb x y); [reflexivity|]. rewrite IH. apply perm_swap.
  Qed.

  Lemma isort_perm l : Permutation (isort leb l) l.
  Proof.
    induction l as [|a l IH]; [reflexivity|].
    unfold isort in *. cbn [fold_right]. rewrite insert_sorted_perm. now constructor.
  Qed.

  Hypothesis leb_total : forall a b, leb a b = true \/ leb b a = true.
  Hypothesis leb_trans : forall a b c, leb a b = true -> leb b c = true -> leb a c = true.

  Lemma insert_sorted_sorted x l : StronglySorted Rb l -> StronglySorted Rb (insert_sorted leb x l).
  Proof.
    induction 1 as [|y r Hs IH Hf]; cbn [insert_sorted].
    - repeat constructor.
    - destruct (leb x y) eqn:E.
      + constructor; [constructor; assumption|].
        constructor; [exact E|]. eapply Forall_impl; [|exact Hf]. intros z Hz. eapply leb_trans; eauto.
      + constructor; [exact IH|]. apply Forall_forall. intros z Hz.
        apply (Permutation_in _ (insert_sorted_perm x r)) in Hz. destruct Hz as [<-|Hz].
        * destruct (leb_total x y) as [H|H]; [congruence|exact H].
        * rewrite Forall_forall in Hf. now apply Hf.
  Qed.

  Lemma isort_sorted l : StronglySorted Rb (isort leb l).
  Proof.
    induction l as [|a l IH]; [constructor|]. unfold isort in *. cbn [fold_right].
    now apply insert_sorted_sorted.
  Qed.
End SortFacts.

Lemma sorted_app_last {A} (R : A -> A -> Prop) r x :
  StronglySorted R (r ++ [x]) -> StronglySorted R r /\ Forall (fun y => R y x) r.
Proof.
  induction r as [|a r IH]; cbn [app]; intros H; [split; constructor|].
  inversion H as [|? ? Hs Hf]; subst. destruct (IH Hs) as [H1 H2]. split.
  - constructor; [exact H1|]. apply Forall_app in Hf. tauto.
  - constructor; [|exact H2]. apply Forall_app in Hf. destruct Hf as [_ Hf]. now inversion Hf.
Qed.

Lemma length_upd {A} i (x : A) l : List.length (upd i x l) = List.length l.
Proof. revert i; induction l as [|y r IH]; intros [|i]; cbn [upd List.length]; auto. Qed.
Lemma nth_upd_eq {A} i (x d : A) l : i < List.length l -> nth i (upd i x l) d = x.
Proof. revert i; induction l as [|y r IH]; intros [|i] H; cbn in *; try lia; auto. apply IH. lia. Qed.
Lemma nth_upd_neq {A} i j (x d : A) l : i <> j -> nth j (upd i x l) d = nth j l d.
Proof.
  revert i j; induction l as [|y r IH]; intros [|i] [|j] H; cbn [upd nth]; auto; try congruence.
Qed.
Lemma map_upd {A B} (f : A -> B) i x l : map f (upd i x l) = upd i (f x) (map f l).
Proof. revert i; induction l as [|y r IH]; intros [|i]; cbn [upd map]; auto. now rewrite IH. Qed.
Lemma upd_same {A} i (d : A) l x : x = nth i l d -> i < List.length l -> upd i x l = l.
Proof.
  revert i; induction l as [|y r IH]; intros [|i] Hx H; cbn in *; try lia; subst; auto.
  f_equal. apply IH; auto. lia.
Qed.
Lemma upd_ge {A} i (x : A) l : List.length l <= i -> upd i x l = l.
Proof. revert i; induction l as [|y r IH]; intros [|i] H; cbn in *; try lia; auto. f_equal. apply IH. lia. Qed.

Lemma concat_upd_cons {A} i (x : A) t L :
  i < List.length L -> nth i L [] = x :: t -> Permutation (List.concat L) (x :: List.concat (upd i t L)).
Proof.
  revert i; induction L as [|l L IH]; intros [|i] H Hn; cbn in *; try lia.
  - subst. reflexivity.
  - rewrite (IH i) by (auto; lia). symmetry. apply Permutation_middle.
Qed.

Lemma nth_repeat_true j n : j < n -> nth j (repeat true n) false = true.
Proof. revert j; induction n; intros [|j] H; cbn; try lia; auto. apply IHn. lia. Qed.

(* ------------------------------------------------------------------ order on keys *)
(* the code's key order: an absent ts (None, -inf) is below everything *)
Lemma key_leb_total a b : key_leb a b = true \/ key_leb b a = true.
Proof.
  destruct a as [x|], b as [y|]; cbn; auto. rewrite !Qle_bool_iff.
  destruct (Qlt_le_dec x y) as [H|H]; [left; now apply Qlt_le_weak|right; exact H].
Qed.
Lemma key_leb_trans a b c : key_leb a b = true -> key_leb b c = true -> key_leb a c = true.
Proof.
  destruct a as [x|], b as [y|], c as [z|]; cbn; auto; try discriminate.
  rewrite !Qle_bool_iff. apply Qle_trans.
Qed.
Lemma key_leb_some t k : key_leb (Some t) k = true -> exists u, k = Some u /\ (t <= u)%Q.
Proof. destruct k as [u|]; cbn; [|discriminate]. rewrite Qle_bool_iff. eauto. Qed.

Lemma leb_desc_total a b : leb_desc a b = true \/ leb_desc b a = true.
Proof. unfold leb_desc. destruct (key_leb_total (key (fst a)) (key (fst b))); auto. Qed.
Lemma leb_desc_trans a b c : leb_desc a b = true -> leb_desc b c = true -> leb_desc a c = true.
Proof. unfold leb_desc. intros H1 H2. eapply key_leb_trans; eauto. Qed.

(* order in time: a statement about the events that have a ts *)
Definition tge (m : Q) (y : ev) : Prop := forall u, e_ts y = Some u -> (m <= u)%Q.
Definition tsorted (l : list ev) : Prop := StronglySorted Qle (timed l).

Lemma timed_app l1 l2 : timed (l1 ++ l2) = timed l1 ++ timed l2.
Proof.
  induction l1 as [|a l1 IH]; cbn [timed app]; [reflexivity|].
  destruct (e_ts a); [cbn [app]; now rewrite IH|exact IH].
Qed.
Lemma in_timed u l : In u (timed l) <-> exists y, In y l /\ e_ts y = Some u.
Proof.
  induction l as [|a l IH]; cbn [timed].
  - split; [intros []|intros (y & [] & _)].
  - destruct (e_ts a) as [t|] eqn:E.
    + split.
      * intros [<-|H]; [exists a; split; [now left|exact E]|].
        apply IH in H. destruct H as (y & Hy & Ey). exists y. split; [now right|exact Ey].
      * intros (y & [<-|Hy] & Ey); [left; congruence|right; apply IH; eauto].
    + rewrite IH. split.
      * intros (y & Hy & Ey). exists y. split; [now right|exact Ey].
      * intros (y & [<-|Hy] & Ey); [congruence|eauto].
Qed.
Lemma Forall_timed m l : Forall (Qle m) (timed l) <-> Forall (tge m) l.
Proof.
  rewrite !Forall_forall. split.
  - intros H y Hy u Eu. apply H. apply in_timed. eauto.
  - intros H u Hu. apply in_timed in Hu. destruct Hu as (y & Hy & Eu). exact (H y Hy u Eu).
Qed.
Lemma tge_trans t u y : (t <= u)%Q -> tge u y -> tge t y.
Proof. intros L H w Hw. eapply Qle_trans; [exact L|now apply H]. Qed.
Lemma tge_eq m a b : e_ts a = e_ts b -> tge m b -> tge m a.
Proof. unfold tge. intros ->. auto. Qed.

Lemma tsorted_nil : tsorted [].
Proof. apply SSorted_nil. Qed.
Lemma tsorted_cons x r :
  tsorted (x :: r) <-> tsorted r /\ (forall t, e_ts x = Some t -> Forall (tge t) r).
Proof.
  unfold tsorted. cbn [timed]. destruct (e_ts x) as [t|].
  - split.
    + intros H. inversion H as [|? ? Hs Hf]; subst. split; [exact Hs|].
      intros t' [= <-]. now apply Forall_timed.
    + intros [Hs Hf]. constructor; [exact Hs|]. apply Forall_timed. now apply Hf.
  - split; [intros H; split; [exact H|intros ? [=]]|tauto].
Qed.
Lemma tsorted_app_inv l1 l2 : tsorted (l1 ++ l2) ->
  tsorted l2 /\ (forall a t, In a l1 -> e_ts a = Some t -> Forall (tge t) l2).
Proof.
  induction l1 as [|x l1 IH]; cbn [app]; intros H; [split; [exact H|intros ? ? []]|].
  apply tsorted_cons in H. destruct H as [Hs Hf]. destruct (IH Hs) as [I1 I2].
  split; [exact I1|]. intros a t [<-|Ha] Et; [|now apply (I2 a)].
  specialize (Hf t Et). apply Forall_app in Hf. tauto.
Qed.

Lemma push_front_perm x front : Permutation (push_front x front) (x :: front).
Proof. unfold push_front. rewrite isort_perm. rewrite Permutation_app_comm. reflexivity. Qed.
Lemma push_front_sorted x front : StronglySorted (Rb leb_desc) (push_front x front).
Proof. apply isort_sorted; [apply leb_desc_total|apply leb_desc_trans]. Qed.

Lemma pop_none front : pop front = None -> front = [].
Proof.
  unfold pop. destruct (rev front) eqn:E; [|discriminate]. intros _.
  rewrite <- (rev_involutive front), E. reflexivity.
Qed.
Lemma pop_some front x r : pop front = Some (x, r) -> front = r ++ [x].
Proof.
  unfold pop. destruct (rev front) as [|y t] eqn:E; [discriminate|]. intros H; injection H as <- <-.
  rewrite <- (rev_involutive front), E. reflexivity.
Qed.

(* ------------------------------------------------------------------ one per-file iterator *)
Lemma fnext_o_props l : forall job rank zero neg opn,
  let p := fnext_o job rank zero neg opn l in
  f_job (snd p) = job /\ List.length (f_rest (snd p)) <= List.length l /\
  (forall e, fst p = NEv e -> List.length (f_rest (snd p)) < List.length l).
Proof.
  induction l as [|x r IH]; intros job rank zero neg opn; cbn [fnext_o].
  - cbn. repeat split; auto. intros e H; discriminate.
  - assert (W : forall q : nres * fstate,
               (f_job (snd q) = job /\ List.length (f_rest (snd q)) <= List.length r /\
                (forall e, fst q = NEv e -> List.length (f_rest (snd q)) < List.length r)) ->
               f_job (snd q) = job /\ List.length (f_rest (snd q)) <= List.length (x :: r) /\
               (forall e, fst q = NEv e -> List.length (f_rest (snd q)) < List.length (x :: r))).
    { intros q (H1 & H2 & H3). cbn [List.length]. repeat split; auto. intros e He. specialize (H3 e He). lia. }
    assert (Leaf : forall res rk z n, let q := (res, mkF job rk z n r) in
               f_job (snd q) = job /\ List.length (f_rest (snd q)) <= List.length (x :: r) /\
               (forall e, fst q = NEv e -> List.length (f_rest (snd q)) < List.length (x :: r))).
    { intros. cbn. repeat split; auto. }
    destruct (updated job rank x) as [[x1 rk]|t]; [|apply Leaf].
    destruct opn as [b|].
    + destruct (e_name b); [|apply Leaf]. destruct (e_name x1); [|apply Leaf].
      destruct (negb _); [apply Leaf|]. destruct (String.eqb (ph_of x1) "E"); [|apply Leaf].
      destruct (e_ts x1); [|apply Leaf]. destruct (e_ts b); [|apply Leaf].
      cbv zeta. destruct (sane _); [apply Leaf|apply W, IH|apply W, IH].
    + cbv zeta. destruct (negb _).
      * destruct (String.eqb _ _); [apply Leaf|]. destruct (sane x1); [apply Leaf|apply W, IH|apply W, IH].
      * destruct (String.eqb _ _); [apply W, IH|apply Leaf].
Qed.

Lemma fnext_st_len s : List.length (f_rest (snd (fnext_st s))) <= List.length (f_rest s) /\
  (forall e, fst (fnext_st s) = NEv e -> List.length (f_rest (snd (fnext_st s))) < List.length (f_rest s)).
Proof. unfold fnext_st, fnext. pose proof (fnext_o_props (f_rest s) (f_job s) (f_rank s) (f_zero s) (f_neg s) None) as H. cbv zeta in H. tauto. Qed.

(* unfolding the whole-stream specification by one __next__ call *)
Lemma fstream_unfold l : forall job rank zero neg opn,
  match fnext_o job rank zero neg opn l with
  | (NEv e, s') => fstream_o job rank zero neg opn l = consE e (fstream_st s')
  | (NStop, s') => fstream_o job rank zero neg opn l = ([], EStop, s') /\ f_rest s' = []
  | (NErr t, s') => fstream_o job rank zero neg opn l = ([], EErr t, s')
  end.
Proof.
  induction l as [|x r IH]; intros job rank zero neg opn; cbn [fnext_o fstream_o].
  - split; reflexivity.
  - destruct (updated job rank x) as [[x1 rk]|t]; [|reflexivity].
    destruct opn as [b|].
    + destruct (e_name b); [|reflexivity]. destruct (e_name x1); [|reflexivity].
      destruct (negb _); [reflexivity|]. destruct (String.eqb (ph_of x1) "E"); [|reflexivity].
      destruct (e_ts x1); [|reflexivity]. destruct (e_ts b); [|reflexivity].
      cbv zeta. destruct (sane _); [reflexivity|apply IH|apply IH].
    + cbv zeta. destruct (negb _).
      * destruct (String.eqb _ _); [reflexivity|]. destruct (sane x1); [reflexivity|apply IH|apply IH].
      * destruct (String.eqb _ _); [apply IH|reflexivity].
Qed.

Lemma next_ev s x s' : fnext_st s = (NEv x, s') ->
  file_events s = x :: file_events s' /\ file_end s = file_end s' /\ file_final s = file_final s' /\
  List.length (f_rest s') < List.length (f_rest s).
Proof.
  intros H. pose proof (fstream_unfold (f_rest s) (f_job s) (f_rank s) (f_zero s) (f_neg s) None) as U.
  unfold fnext_st, fnext in H. rewrite H in U.
  unfold file_events, file_end, file_final. unfold fstream_st at 1 3 5. rewrite U.
  destruct (fstream_st s') as [[o r] sf]. cbn. repeat split; auto.
  pose proof (fnext_st_len s) as [_ L]. unfold fnext_st, fnext in L. rewrite H in L. cbn in L. eapply L; eauto.
Qed.

Lemma rest_nil s : f_rest s = [] -> file_events s = [] /\ file_end s = EStop /\ file_final s = s.
Proof. destruct s as [j r z n l]. cbn. intros ->. unfold file_events, file_end, file_final, fstream_st. cbn. auto. Qed.

Lemma next_stop s s' : fnext_st s = (NStop, s') ->
  file_events s = [] /\ file_end s = EStop /\ file_final s = s' /\ f_rest s' = [].
Proof.
  intros H. pose proof (fstream_unfold (f_rest s) (f_job s) (f_rank s) (f_zero s) (f_neg s) None) as U.
  unfold fnext_st, fnext in H. rewrite H in U. destruct U as [U R].
  unfold file_events, file_end, file_final, fstream_st. rewrite U. cbn. auto.
Qed.

Lemma next_err s t s' : fnext_st s = (NErr t, s') -> file_end s = EErr t.
Proof.
  intros H. pose proof (fstream_unfold (f_rest s) (f_job s) (f_rank s) (f_zero s) (f_neg s) None) as U.
  unfold fnext_st, fnext in H. rewrite H in U. unfold file_end, fstream_st. rewrite U. reflexivity.
Qed.

Lemma F0_rest : f_rest F0 = [].
Proof. reflexivity. Qed.
Lemma F0_events : file_events F0 = [].
Proof. reflexivity. Qed.

Lemma nth_events i fs : nth i (map file_events fs) [] = file_events (nth i fs F0).
Proof. change (@nil ev) with (file_events F0). apply map_nth. Qed.

(* ------------------------------------------------------------------ the merge machine *)
Definition all_ok (fs : list fstate) : Prop := Forall (fun s => file_end s = EStop) fs.
(* everything still to come: events in the front plus what the files will still yield *)
Definition pend (front : list item) (fs : list fstate) : list ev :=
  map fst front ++ List.concat (map file_events fs).

Lemma total_len_upd i s' fs : i < List.length fs ->
  total_len (upd i s' fs) + List.length (f_rest (nth i fs F0)) = total_len fs + List.length (f_rest s').
Proof.
  revert i; induction fs as [|s fs IH]; intros [|i] H; cbn in *; try lia.
  specialize (IH i ltac:(lia)). unfold total_len in *. lia.
Qed.

(* invariant of (front, files, enabled) with a set H of "holes": indices whose file is enabled but
   has no representative in the front (about to be refilled) *)
Definition inv (H : nat -> Prop) (front : list item) (fs : list fstate) (en : list bool) : Prop :=
  List.length en = List.length fs /\
  NoDup (map snd front) /\
  (forall e j, In (e, j) front -> j < List.length fs /\ nth j en false = true /\ ~ H j) /\
  (forall j, j < List.length fs -> ~ H j -> In j (map snd front) \/ f_rest (nth j fs F0) = []) /\
  (forall j, j < List.length fs -> H j -> nth j en false = true).

Lemma inv_ext H H' front fs en :
  (forall j, j < List.length fs -> (H j <-> H' j)) -> inv H front fs en -> inv H' front fs en.
Proof.
  intros E (a & b & c & d & e). repeat split; auto.
  - apply (c _ _ H0).
  - apply (c _ _ H0).
  - destruct (c _ _ H0) as (c1 & _ & c3). rewrite <- E; auto.
  - intros j Hj Hn. apply d; auto. rewrite E; auto.
  - intros j Hj Hh. apply e; auto. rewrite E; auto.
Qed.

Lemma in_pend_streams y fs : In y (List.concat (map file_events fs)) ->
  exists j, j < List.length fs /\ In y (file_events (nth j fs F0)).
Proof.
  intros H. apply in_concat in H. destruct H as (l & Hl & Hy). apply in_map_iff in Hl.
  destruct Hl as (s & <- & Hs). destruct (In_nth _ _ F0 Hs) as (j & Hj & <-). eauto.
Qed.

(* per-file projection of a tagged list *)
Definition proj (j : nat) (l : list item) : list ev :=
  map fst (filter (fun it => Nat.eqb (snd it) j) l).
Definition pendi (j : nat) (front : list item) (fs : list fstate) : list ev :=
  proj j front ++ file_events (nth j fs F0).

(* time-order invariant: the front is in the code's key order, and for every file the events that have a
   ts - its representative in the front followed by what the file will still yield - are non-decreasing *)
Definition sinv (front : list item) (fs : list fstate) : Prop :=
  StronglySorted (Rb leb_desc) front /\ (forall j, tsorted (pendi j front fs)).

Lemma in_proj e j l : In (e, j) l -> In e (proj j l).
Proof.
  intros H. unfold proj. apply in_map_iff. exists (e, j). split; [reflexivity|].
  apply filter_In. split; [exact H|]. cbn. apply Nat.eqb_refl.
Qed.
Lemma proj_cons j e i l : proj j ((e, i) :: l) = (if Nat.eqb i j then [e] else []) ++ proj j l.
Proof. unfold proj. cbn [filter snd]. destruct (Nat.eqb i j); reflexivity. Qed.
Lemma proj_app j l1 l2 : proj j (l1 ++ l2) = proj j l1 ++ proj j l2.
Proof. unfold proj. now rewrite filter_app, map_app. Qed.
Lemma proj_notin j l : ~ In j (map snd l) -> proj j l = [].
Proof.
  induction l as [|[e i] l IH]; intros H; [reflexivity|]. rewrite proj_cons. cbn [map snd] in H.
  destruct (Nat.eqb i j) eqn:E; [apply Nat.eqb_eq in E; subst; exfalso; apply H; now left|].
  cbn [app]. apply IH. intros Hin. apply H. now right.
Qed.
Lemma filter_perm {A} (p : A -> bool) l l' : Permutation l l' -> Permutation (filter p l) (filter p l').
Proof.
  induction 1; cbn [filter]; auto.
  - destruct (p x); auto.
  - destruct (p x), (p y); auto. apply perm_swap.
  - etransitivity; eauto.
Qed.
Lemma filter_nodup_len j (l : list item) :
  NoDup (map snd l) -> List.length (filter (fun it => Nat.eqb (snd it) j) l) <= 1.
Proof.
  induction l as [|[e i] l IH]; intros H; cbn [filter snd]; [cbn; lia|].
  cbn [map snd] in H. inversion H as [|? ? Hn Hd]; subst.
  destruct (Nat.eqb i j) eqn:E; [|now apply IH].
  apply Nat.eqb_eq in E. subst. cbn [List.length].
  assert (Z : filter (fun it : item => Nat.eqb (snd it) j) l = []).
  { destruct (filter _ l) as [|[e' i'] t] eqn:F; [reflexivity|exfalso].
    assert (Hin : In (e', i') (filter (fun it : item => Nat.eqb (snd it) j) l)) by (rewrite F; now left).
    apply filter_In in Hin. destruct Hin as [Hin Hj]. cbn in Hj. apply Nat.eqb_eq in Hj. subst.
    apply Hn. apply in_map_iff. exists (e', j). auto. }
  unfold item in Z. rewrite Z. cbn. lia.
Qed.
Lemma proj_perm_nodup j l l' : NoDup (map snd l) -> Permutation l l' -> proj j l = proj j l'.
Proof.
  intros Hn Hp. unfold proj. f_equal.
  pose proof (filter_nodup_len j l Hn) as L.
  pose proof (filter_perm (fun it : item => Nat.eqb (snd it) j) _ _ Hp) as P.
  unfold item in *.
  remember (filter (fun it : ev * nat => Nat.eqb (snd it) j) l) as a eqn:Ea.
  remember (filter (fun it : ev * nat => Nat.eqb (snd it) j) l') as b eqn:Eb.
  clear Ea Eb. destruct a as [|x [|? ?]]; cbn in L; try lia.
  - apply Permutation_nil in P. now subst.
  - apply Permutation_length_1_inv in P. now subst.
Qed.

(* the refill action, when no per-file iterator raises *)
Lemma refill_spec H i front fs en :
  inv H front fs en -> H i -> i < List.length fs -> all_ok fs ->
  exists front2 fs2 en2,
    refill i front fs en = Ok (front2, fs2, en2) /\
    inv (fun j => H j /\ j <> i) front2 fs2 en2 /\ all_ok fs2 /\ List.length fs2 = List.length fs /\
    Permutation (pend front fs) (pend front2 fs2) /\
    map file_final fs2 = map file_final fs /\
    List.length front2 + total_len fs2 <= List.length front + total_len fs /\
    (sinv front fs -> sinv front2 fs2) /\
    (forall j, pendi j front2 fs2 = pendi j front fs).
Proof.
  intros (a & b & c & d & e) Hi Li Ok. unfold refill.
  assert (Oki : file_end (nth i fs F0) = EStop).
  { unfold all_ok in Ok. rewrite Forall_forall in Ok. apply Ok. now apply nth_In. }
  assert (NotIn : ~ In i (map snd front)).
  { intros Hin. apply in_map_iff in Hin. destruct Hin as ([e0 j] & Hj & Hin). cbn in Hj. subst j.
    destruct (c _ _ Hin) as (_ & _ & Hn). auto. }
  destruct (fnext_st (nth i fs F0)) as [[x| |t] s'] eqn:En.
  - (* refilled *)
    destruct (next_ev _ _ _ En) as (Ev & End & Fin & Len).
    exists (push_front (x, i) front), (upd i s' fs), en. split; [reflexivity|].
    assert (Pm : Permutation (map snd (push_front (x, i) front)) (i :: map snd front)).
    { rewrite (Permutation_map snd (push_front_perm (x, i) front)). reflexivity. }
    assert (PJ : forall j, pendi j (push_front (x, i) front) (upd i s' fs) = pendi j front fs).
    { intros j. unfold pendi.
      rewrite <- (proj_perm_nodup j ((x, i) :: front) (push_front (x, i) front));
        [|cbn [map snd]; constructor; auto|symmetry; apply push_front_perm].
      rewrite proj_cons. destruct (Nat.eqb i j) eqn:E.
      * apply Nat.eqb_eq in E. subst j. rewrite nth_upd_eq by auto. rewrite (proj_notin i front NotIn), Ev. reflexivity.
      * apply Nat.eqb_neq in E. rewrite nth_upd_neq by auto. reflexivity. }
    repeat split.
    + now rewrite length_upd.
    + eapply Permutation_NoDup; [symmetry; exact Pm|]. constructor; auto.
    + rewrite length_upd. apply (Permutation_in _ (push_front_perm _ _)) in H0.
      destruct H0 as [E|Hin]; [injection E as <- <-; auto|apply (c _ _ Hin)].
    + apply (Permutation_in _ (push_front_perm _ _)) in H0.
      destruct H0 as [E|Hin]; [injection E as <- <-; auto|apply (c _ _ Hin)].
    + apply (Permutation_in _ (push_front_perm _ _)) in H0.
      destruct H0 as [E|Hin]; [injection E as <- <-; tauto|]. destruct (c _ _ Hin) as (_ & _ & Hn). tauto.
    + intros j Hj Hn. rewrite length_upd in Hj. destruct (Nat.eq_dec j i) as [->|Ne].
      * left. apply (Permutation_in _ (Permutation_sym Pm)). now left.
      * rewrite nth_upd_neq by congruence.
        destruct (d j Hj ltac:(tauto)) as [Hin|Hr]; [left|now right].
        apply (Permutation_in _ (Permutation_sym Pm)). now right.
    + intros j Hj [Hh _]. rewrite length_upd in Hj. auto.
    + unfold all_ok in *. rewrite Forall_forall in *. intros s Hs.
      apply In_nth with (d := F0) in Hs. destruct Hs as (j & Hj & <-). rewrite length_upd in Hj.
      destruct (Nat.eq_dec j i) as [->|Ne].
      * rewrite nth_upd_eq by auto. congruence.
      * rewrite nth_upd_neq by congruence. apply Ok. now apply nth_In.
    + apply length_upd.
    + unfold pend. rewrite (Permutation_map fst (push_front_perm (x, i) front)). cbn [map fst].
      rewrite map_upd.
      rewrite (concat_upd_cons i x (file_events s') (map file_events fs)).
      * symmetry. apply Permutation_middle.
      * now rewrite map_length.
      * rewrite nth_events. exact Ev.
    + rewrite map_upd. apply upd_same with (d := file_final F0); [|now rewrite map_length].
      rewrite map_nth. congruence.
    + pose proof (total_len_upd i s' fs Li) as T.
      rewrite (Permutation_length (push_front_perm (x, i) front)). cbn [List.length]. lia.
    + apply push_front_sorted.
    + intros j. rewrite PJ. apply H0.
    + exact PJ.
  - (* exhausted: disabled *)
    destruct (next_stop _ _ En) as (Ev & End & Fin & Rs).
    destruct (rest_nil _ Rs) as (Ev' & End' & Fin').
    exists front, (upd i s' fs), (upd i false en). split; [reflexivity|].
    assert (PJ : forall j, pendi j front (upd i s' fs) = pendi j front fs).
    { intros j. unfold pendi. destruct (Nat.eq_dec j i) as [->|Ne].
      * rewrite nth_upd_eq by auto. congruence.
      * rewrite nth_upd_neq by congruence. reflexivity. }
    repeat split.
    + now rewrite !length_upd.
    + exact b.
    + rewrite length_upd. apply (c _ _ H0).
    + destruct (c _ _ H0) as (_ & c2 & c3). rewrite nth_upd_neq; auto. intros ->. auto.
    + destruct (c _ _ H0) as (_ & _ & c3). tauto.
    + intros j Hj Hn. rewrite length_upd in Hj. destruct (Nat.eq_dec j i) as [->|Ne].
      * right. now rewrite nth_upd_eq.
      * rewrite nth_upd_neq by congruence. apply d; auto; tauto.
    + intros j Hj [Hh Ne]. rewrite length_upd in Hj. rewrite nth_upd_neq by congruence. auto.
    + unfold all_ok in *. rewrite Forall_forall in *. intros s Hs.
      apply In_nth with (d := F0) in Hs. destruct Hs as (j & Hj & <-). rewrite length_upd in Hj.
      destruct (Nat.eq_dec j i) as [->|Ne].
      * now rewrite nth_upd_eq.
      * rewrite nth_upd_neq by congruence. apply Ok. now apply nth_In.
    + apply length_upd.
    + unfold pend. rewrite map_upd.
      rewrite (upd_same i [] (map file_events fs)); [reflexivity| |now rewrite map_length].
      rewrite nth_events. congruence.
    + rewrite map_upd. apply upd_same with (d := file_final F0); [|now rewrite map_length].
      rewrite map_nth. congruence.
    + pose proof (total_len_upd i s' fs Li) as T. rewrite Rs in T. cbn [List.length] in T. lia.
    + apply H0.
    + intros j. rewrite PJ. apply H0.
    + exact PJ.
  - rewrite (next_err _ _ _ En) in Oki. discriminate.
Qed.

Definition H0 : nat -> Prop := fun _ => False.

Lemma pop_inv front fs en e i front' :
  inv H0 front fs en -> pop front = Some ((e, i), front') ->
  i < List.length fs /\ nth i en false = true /\ inv (fun j => j = i) front' fs en /\
  Permutation (pend front fs) (e :: pend front' fs) /\ List.length front = S (List.length front') /\
  (sinv front fs -> sinv front' fs /\ (forall t, e_ts e = Some t -> Forall (tge t) (pend front' fs))) /\
  (forall j, pendi j front fs = (if Nat.eqb i j then [e] else []) ++ pendi j front' fs).
Proof.
  intros (a & b & c & d & e0) Hp. apply pop_some in Hp. subst front.
  assert (Hin : In (e, i) (front' ++ [(e, i)])) by (apply in_or_app; right; now left).
  destruct (c _ _ Hin) as (Li & Eni & _).
  rewrite map_app in b. cbn [map snd] in b.
  pose proof (NoDup_remove_1 _ _ _ b) as b1. pose proof (NoDup_remove_2 _ _ _ b) as b2.
  rewrite app_nil_r in b1, b2.
  assert (Hd : forall j, j < List.length fs -> j <> i -> In j (map snd front') \/ f_rest (nth j fs F0) = []).
  { intros j Hj Ne. destruct (d j Hj (fun f => f)) as [Hi|Hr]; [|now right].
    rewrite map_app in Hi. apply in_app_or in Hi. destruct Hi as [Hi|[Hi|[]]]; [now left|]. cbn in Hi. congruence. }
  assert (PJ : forall j, pendi j (front' ++ [(e, i)]) fs = (if Nat.eqb i j then [e] else []) ++ pendi j front' fs).
  { intros j. unfold pendi. rewrite proj_app, proj_cons. cbn [proj filter map app]. rewrite app_nil_r.
    destruct (Nat.eqb i j) eqn:E; [|now rewrite app_nil_r].
    apply Nat.eqb_eq in E. subst j. rewrite (proj_notin i front' b2). reflexivity. }
  split; [exact Li|]. split; [exact Eni|]. split; [|split; [|split; [|split]]].
  - repeat split; auto.
    + apply (c e1 j). apply in_or_app. now left.
    + apply (c e1 j). apply in_or_app. now left.
    + intros ->. apply b2. apply in_map_iff. exists (e1, i). auto.
    + intros j Hj ->. exact Eni.
  - unfold pend. rewrite map_app. cbn [map fst]. rewrite <- app_assoc. cbn [app].
    symmetry. apply Permutation_middle.
  - rewrite app_length. cbn. lia.
  - intros (s1 & s2). apply sorted_app_last in s1. destruct s1 as [s1 s1'].
    split.
    { split; [exact s1|]. intros j. specialize (s2 j). rewrite PJ in s2. apply tsorted_app_inv in s2. apply s2. }
    (* the popped event has a ts: everything still to come that has a ts is not earlier *)
    intros t Ht.
    assert (Kf : forall y j, In (y, j) front' -> exists u, e_ts y = Some u /\ (t <= u)%Q).
    { intros y j Hy. rewrite Forall_forall in s1'. specialize (s1' _ Hy). unfold Rb, leb_desc, key in s1'.
      cbn [fst] in s1'. rewrite Ht in s1'. now apply key_leb_some in s1'. }
    unfold pend. apply Forall_app. split.
    + apply Forall_forall. intros y Hy. apply in_map_iff in Hy. destruct Hy as ([y0 j] & <- & Hy).
      destruct (Kf _ _ Hy) as (u & Eu & Lu). cbn [fst]. intros w Hw. congruence.
    + apply Forall_forall. intros y Hy. apply in_pend_streams in Hy. destruct Hy as (j & Hj & Hy).
      destruct (Nat.eq_dec j i) as [->|Ne].
      * specialize (s2 i). rewrite PJ, Nat.eqb_refl in s2. cbn [app] in s2.
        apply tsorted_cons in s2. destruct s2 as [_ s2]. specialize (s2 t Ht).
        rewrite Forall_forall in s2. apply s2. unfold pendi. apply in_or_app. now right.
      * destruct (Hd j Hj Ne) as [Hi|Hr].
        -- apply in_map_iff in Hi. destruct Hi as ([ej j'] & Ej & Hi). cbn in Ej. subst j'.
           destruct (Kf _ _ Hi) as (u & Eu & Lu).
           assert (Hi' : In (ej, j) (front' ++ [(e, i)])) by (apply in_or_app; now left).
           specialize (s2 j). unfold pendi in s2. apply tsorted_app_inv in s2. destruct s2 as [_ s2].
           specialize (s2 ej u (in_proj _ _ _ Hi') Eu). rewrite Forall_forall in s2.
           eapply tge_trans; [exact Lu|now apply s2].
        -- destruct (rest_nil _ Hr) as (Ev & _). rewrite Ev in Hy. destruct Hy.
  - exact PJ.
Qed.

Lemma all_rest_nil fs : (forall j, j < List.length fs -> f_rest (nth j fs F0) = []) ->
  map file_final fs = fs /\ List.concat (map file_events fs) = [].
Proof.
  induction fs as [|s fs IH]; intros H; [split; reflexivity|].
  destruct (rest_nil s (H 0 ltac:(cbn; lia))) as (Ev & _ & Fin).
  destruct IH as [I1 I2]. { intros j Hj. apply (H (S j)). cbn. lia. }
  cbn [map List.concat]. rewrite Ev, Fin, I1, I2. split; reflexivity.
Qed.

Lemma run_spec fuel : forall front fs en,
  inv H0 front fs en -> all_ok fs -> List.length front + total_len fs < fuel ->
  exists out, run fuel front fs en = (out, Done, map file_final fs) /\
    Permutation (map fst out) (pend front fs) /\
    (sinv front fs -> tsorted (map fst out)) /\
    (forall j, proj j out = pendi j front fs).
Proof.
  induction fuel as [|fuel IH]; intros front fs en I Ok M; [lia|].
  cbn [run]. unfold step. destruct (pop front) as [[[e i] front']|] eqn:Ep.
  - destruct (pop_inv _ _ _ _ _ _ I Ep) as (Li & Eni & I1 & P1 & L1 & S1 & J1).
    rewrite Eni.
    destruct (refill_spec _ i front' fs en I1 eq_refl Li Ok)
      as (front2 & fs2 & en2 & Er & I2 & Ok2 & L2 & P2 & F2 & M2 & S2 & J2).
    rewrite Er.
    assert (I2' : inv H0 front2 fs2 en2).
    { eapply inv_ext; [|exact I2]. intros j _. unfold H0. cbn. split; [intros [-> Hn]; congruence|tauto]. }
    destruct (IH front2 fs2 en2 I2' Ok2 ltac:(lia)) as (o & Hr & Po & So & Jo).
    rewrite Hr. exists ((e, i) :: o). split; [now rewrite F2|]. split; [|split].
    + cbn [map fst]. rewrite Po, <- P2. symmetry. exact P1.
    + intros Sv. destruct (S1 Sv) as [Sv1 Fa]. cbn [map fst]. apply tsorted_cons. split; [apply So, S2, Sv1|].
      intros t Ht. specialize (Fa t Ht).
      apply Forall_forall. intros y Hy. rewrite Forall_forall in Fa. apply Fa.
      apply (Permutation_in _ (Permutation_sym P2)). apply (Permutation_in _ Po). exact Hy.
    + intros j. rewrite proj_cons, Jo, J2, J1. reflexivity.
  - apply pop_none in Ep. subst front. destruct I as (a & b & c & d & e0).
    destruct (all_rest_nil fs) as [A1 A2].
    { intros j Hj. destruct (d j Hj (fun f => f)) as [[]|Hr]. exact Hr. }
    exists []. rewrite A1. split; [reflexivity|]. split; [|split].
    + unfold pend. cbn [map app]. rewrite A2. constructor.
    + intros _. apply tsorted_nil.
    + intros j. unfold pendi. cbn. destruct (Nat.lt_ge_cases j (List.length fs)) as [Hj|Hj].
      * destruct (d j Hj (fun f => f)) as [[]|Hr]. now destruct (rest_nil _ Hr) as (-> & _).
      * rewrite nth_overflow by exact Hj. reflexivity.
Qed.

Lemma prefill_spec m : forall k front fs en,
  k + m = List.length fs -> inv (fun j => k <= j) front fs en -> all_ok fs ->
  exists front2 fs2 en2, prefill (seq k m) front fs en = Ok (front2, fs2, en2) /\
    inv H0 front2 fs2 en2 /\ all_ok fs2 /\ List.length fs2 = List.length fs /\
    Permutation (pend front fs) (pend front2 fs2) /\ map file_final fs2 = map file_final fs /\
    List.length front2 + total_len fs2 <= List.length front + total_len fs /\
    (sinv front fs -> sinv front2 fs2) /\
    (forall j, pendi j front2 fs2 = pendi j front fs).
Proof.
  induction m as [|m IH]; intros k front fs en Hk I Ok.
  - exists front, fs, en. cbn [seq prefill]. split; [reflexivity|]. split.
    + eapply inv_ext; [|exact I]. intros j Hj. unfold H0. lia.
    + split; [exact Ok|]. split; [reflexivity|]. split; [reflexivity|]. split; [reflexivity|].
      split; [lia|]. split; auto.
  - cbn [seq prefill].
    destruct (refill_spec _ k front fs en I (le_n k) ltac:(lia) Ok)
      as (front1 & fs1 & en1 & Er & I1 & Ok1 & L1 & P1 & F1 & M1 & S1 & J1).
    rewrite Er.
    assert (I1' : inv (fun j => S k <= j) front1 fs1 en1).
    { eapply inv_ext; [|exact I1]. intros j _. cbn. lia. }
    destruct (IH (S k) front1 fs1 en1 ltac:(lia) I1' Ok1)
      as (front2 & fs2 & en2 & Ep & I2 & Ok2 & L2 & P2 & F2 & M2 & S2 & J2).
    exists front2, fs2, en2. split; [exact Ep|]. split; [exact I2|]. split; [exact Ok2|].
    split; [congruence|]. split; [now rewrite P1|]. split; [congruence|]. split; [lia|]. split; [auto|].
    intros j. now rewrite J2, J1.
Qed.

(* every file's stream is ordered by ts: its events that have a ts are non-decreasing *)
Definition streams_sorted (fs : list fstate) : Prop :=
  Forall (fun s => StronglySorted Qle (timed (file_events s))) fs.

Theorem multi_spec files :
  let fs := map init_file files in
  all_ok fs ->
  exists out, multi files = (out, Done, map file_final fs) /\
    Permutation (map fst out) (List.concat (map file_events fs)) /\
    (streams_sorted fs -> StronglySorted Qle (timed (map fst out))) /\
    (forall j, proj j out = file_events (nth j fs F0)).
Proof.
  intros fs Ok. unfold multi. fold fs.
  assert (I : inv (fun j => 0 <= j) [] fs (repeat true (List.length fs))).
  { repeat split.
    - apply repeat_length.
    - constructor.
    - destruct H.
    - destruct H.
    - destruct H.
    - intros j Hj Hn. exfalso. apply Hn. lia.
    - intros j Hj _. now apply nth_repeat_true. }
  destruct (prefill_spec (List.length fs) 0 [] fs _ eq_refl I Ok)
    as (front2 & fs2 & en2 & Ep & I2 & Ok2 & L2 & P2 & F2 & M2 & S2 & J2).
  rewrite Ep.
  destruct (run_spec (fuel_of fs) front2 fs2 en2 I2 Ok2) as (out & Hr & Po & So & Jo).
  { unfold fuel_of. cbn [List.length] in M2. lia. }
  exists out. split; [now rewrite Hr, F2|]. split; [|split].
  - rewrite Po, <- P2. reflexivity.
  - intros Ss. apply So, S2. split.
    + constructor.
    + intros j. unfold pendi. cbn [proj filter map app].
      destruct (Nat.lt_ge_cases j (List.length fs)) as [Hj|Hj].
      * unfold streams_sorted in Ss. rewrite Forall_forall in Ss. apply Ss. now apply nth_In.
      * rewrite nth_overflow by exact Hj. rewrite F0_events. apply tsorted_nil.
  - intros j. rewrite Jo, J2. reflexivity.
Qed.

(* fuel: the model's fuel is always enough, whatever the files contain *)
Lemma refill_measure i front fs en front2 fs2 en2 :
  refill i front fs en = Ok (front2, fs2, en2) ->
  List.length front2 + total_len fs2 <= List.length front + total_len fs.
Proof.
  unfold refill. intros H.
  destruct (Nat.lt_ge_cases i (List.length fs)) as [Li|Li].
  - pose proof (total_len_upd i (snd (fnext_st (nth i fs F0))) fs Li) as T.
    pose proof (fnext_st_len (nth i fs F0)) as [L1 L2].
    destruct (fnext_st (nth i fs F0)) as [[x| |t] s'] eqn:En; cbn [fst snd] in *; try discriminate;
      injection H as <- <- <-.
    + rewrite (Permutation_length (push_front_perm (x, i) front)). cbn [List.length].
      specialize (L2 x eq_refl). lia.
    + lia.
  - rewrite (nth_overflow _ _ Li) in H. cbn in H. injection H as <- <- <-. rewrite upd_ge by exact Li. lia.
Qed.

Lemma run_fuel fuel : forall front fs en,
  List.length front + total_len fs < fuel -> snd (fst (run fuel front fs en)) <> OutOfFuel.
Proof.
  induction fuel as [|fuel IH]; intros front fs en M; [lia|].
  cbn [run]. unfold step. destruct (pop front) as [[[e i] front']|] eqn:Ep; [|cbn; discriminate].
  apply pop_some in Ep. subst front. rewrite app_length in M. cbn [List.length] in M.
  destruct (nth i en false).
  - destruct (refill i front' fs en) as [[[f2 fs2] en2]|t] eqn:Er; [|cbn; discriminate].
    apply refill_measure in Er. specialize (IH f2 fs2 en2 ltac:(lia)).
    destruct (run fuel f2 fs2 en2) as [[o s] ff]. exact IH.
  - apply IH. lia.
Qed.

Lemma prefill_measure idxs : forall front fs en front2 fs2 en2,
  prefill idxs front fs en = Ok (front2, fs2, en2) ->
  List.length front2 + total_len fs2 <= List.length front + total_len fs.
Proof.
  induction idxs as [|i r IH]; intros front fs en front2 fs2 en2 H; cbn [prefill] in H.
  - injection H as <- <- <-. lia.
  - destruct (refill i front fs en) as [[[f1 fs1] en1]|t] eqn:Er; [|discriminate].
    apply refill_measure in Er. apply IH in H. lia.
Qed.

Theorem fuel_sufficient files : snd (fst (multi files)) <> OutOfFuel.
Proof.
  unfold multi. destruct (prefill _ _ _ _) as [[[f2 fs2] en2]|t] eqn:Ep; [|cbn; discriminate].
  apply run_fuel. apply prefill_measure in Ep. unfold fuel_of. cbn [List.length] in Ep. lia.
Qed.

(* ------------------------------------------------------------------ per-file: pairing, counters, rank *)
Local Open Scope Z_scope.

Ltac dm H := repeat match type of H with context [match ?X with _ => _ end] => destruct X eqn:? end.

Lemma annotate_core ua rank e e1 rk : annotate ua rank e = Ok (e1, rk) -> core e1 = core e.
Proof.
  unfold annotate, the_dict, with_dict. intros H.
  destruct (if rank =? -1 then e_pid e else Some rank); [|discriminate].
  injection H as <- <-. destruct ua, (0 <=? z); reflexivity.
Qed.

Lemma updated_core job rank x x1 rk : updated job rank x = Ok (x1, rk) -> core x1 = core x.
Proof.
  unfold updated. intros H. destruct (e_ph x) as [ph|]; [|discriminate].
  destruct (negb (substr ph "XBE")).
  - destruct (substr ph "Mbei"); [|injection H as <- <-; reflexivity]. now apply annotate_core in H.
  - cbv zeta in H. destruct (annotate _ rank _) as [[e1 rk1]|] eqn:Ea; [|discriminate].
    apply annotate_core in Ea.
    assert (Ec : core e1 = core x) by (rewrite Ea; destruct (_ || _); reflexivity).
    destruct (e_pid e1); [|discriminate].
    destruct (existsb _ _); [injection H as <- <-; exact Ec|].
    destruct (the_dict _ e1); [|discriminate]. injection H as <- <-. rewrite <- Ec.
    unfold with_dict. destruct (is_some (e_attr x)); reflexivity.
Qed.

Definition ann_ok (R : Z) (e : ev) : Prop := ann_rank e = Some R /\ (0 <= R -> e_pid e = Some R).

Lemma updated_slice job rank x ph p :
  e_ph x = Some ph -> In ph ["X"; "B"; "E"]%string -> e_pid x = Some p ->
  exists x1, updated job rank x = Ok (x1, latch rank p) /\ core x1 = core x /\ ann_ok (latch rank p) x1.
Proof.
  intros Hph Hin Hp. unfold updated, annotate, the_dict, with_dict, latch, ann_ok, ann_rank, ann_dict, ph_of.
  rewrite Hph, Hp. cbv zeta.
  destruct Hin as [<-|[<-|[<-|[]]]]; cbn -[Z.eqb Z.leb];
    destruct (e_attr x) as [[? ?]|] eqn:Ea; destruct (e_args x) as [[? ?]|] eqn:Eg;
    destruct (rank =? -1);
    repeat (progress (cbn -[Z.eqb Z.leb]; rewrite ?Hp, ?Hph, ?Ea, ?Eg));
    try match goal with |- context [0 <=? ?r] => destruct (0 <=? r) eqn:El end;
    repeat (progress (cbn -[Z.eqb Z.leb]; rewrite ?Hp, ?Hph, ?Ea, ?Eg));
    eexists; (split; [reflexivity|]);
    cbn [e_ph e_attr e_args e_pid with_pid with_attr with_args e_uid e_name e_ts e_dur core fst snd];
    rewrite ?Hph, ?Ea, ?Eg; cbn;
    (split; [reflexivity|]); (split; [reflexivity|]); intros; try reflexivity; try lia.
Qed.

Lemma updated_meta job rank m ph p :
  e_ph m = Some ph -> In ph ["M"; "i"; "b"; "e"]%string -> e_pid m = Some p ->
  exists x1, updated job rank m = Ok (x1, latch rank p) /\ core x1 = core m /\ ann_ok (latch rank p) x1.
Proof.
  intros Hph Hin Hp. unfold updated, annotate, the_dict, with_dict, latch, ann_ok, ann_rank, ann_dict, ph_of.
  rewrite Hph.
  destruct Hin as [<-|[<-|[<-|[<-|[]]]]]; cbn -[Z.eqb Z.leb]; rewrite Hp;
    destruct (e_args m) as [[d1 d2]|];
    destruct (rank =? -1);
    match goal with |- context [0 <=? ?r] => destruct (0 <=? r) eqn:El end;
    eexists; (split; [reflexivity|]);
    cbn [e_ph e_attr e_args e_pid with_pid with_attr with_args e_uid e_name e_ts e_dur core fst snd];
    rewrite ?Hph; cbn;
    (split; [reflexivity|]); (split; [reflexivity|]); intros; try reflexivity; try lia.
Qed.

(* an annotated pass-through event is emitted as it is: M without looking at dur, i/b/e when it has none *)
Lemma meta_keep ph x1 :
  In ph ["M"; "i"; "b"; "e"]%string -> (ph = "M"%string \/ e_dur x1 = None) ->
  negb (substr ph "BE") = true /\
  ((ph =? "M")%string = true \/ ((ph =? "M")%string = false /\ sane x1 = Keep)).
Proof.
  intros Hin Hd. destruct Hin as [<-|[<-|[<-|[<-|[]]]]]; (split; [reflexivity|]);
    try (left; reflexivity);
    (destruct Hd as [Hd|Hd]; [discriminate|]); right; (split; [reflexivity|]); unfold sane; now rewrite Hd.
Qed.

Lemma updated_other job rank o : e_ph o = Some "C"%string -> updated job rank o = Ok (o, rank).
Proof. intros H. unfold updated. rewrite H. reflexivity. Qed.

Lemma sane_class e d : e_dur e = Some d -> sane e = dur_class d.
Proof. unfold sane, dur_class. now intros ->. Qed.

Lemma ph_is_true e p : ph_is e p = true -> e_ph e = Some p.
Proof. unfold ph_is. destruct (e_ph e); [|discriminate]. intros H. apply String.eqb_eq in H. now subst. Qed.
Lemma is_some_true {A} (o : option A) : is_some o = true -> exists v, o = Some v.
Proof. destruct o; [eauto|discriminate]. Qed.

Lemma wf_meta m :
  (ph_is m "M" || (ph_is m "i" || ph_is m "b" || ph_is m "e") && negb (is_some (e_dur m))) = true ->
  exists ph, e_ph m = Some ph /\ In ph ["M"; "i"; "b"; "e"]%string /\ (ph = "M"%string \/ e_dur m = None).
Proof.
  intros H. apply orb_prop in H. destruct H as [H|H].
  - apply ph_is_true in H. exists "M"%string. cbn. auto.
  - apply andb_prop in H. destruct H as [H Hd].
    assert (Hn : e_dur m = None) by (destruct (e_dur m); [discriminate|reflexivity]).
    apply orb_prop in H. destruct H as [H|H]; [apply orb_prop in H; destruct H as [H|H]|];
      apply ph_is_true in H; eexists; (split; [exact H|]); cbn; auto 6.
Qed.

Lemma core_ph a b : core a = core b -> e_ph a = e_ph b /\ e_dur a = e_dur b /\ e_ts a = e_ts b /\ e_name a = e_name b.
Proof. unfold core. intros H. injection H. auto. Qed.
Lemma core_uid a b : core a = core b -> e_uid a = e_uid b.
Proof. unfold core. intros H. now injection H. Qed.

Lemma ann_ok_pair R b1 d : e_ph b1 = Some "B"%string -> ann_ok R b1 ->
  ann_ok R (with_dur (with_ph b1 (Some "X"%string)) d).
Proof.
  unfold ann_ok, ann_rank, ann_dict, ph_of. intros H. rewrite H.
  cbn [with_dur with_ph e_ph e_attr e_args e_pid].
  change (substr "B" "XBE") with true. change (substr "X" "XBE") with true. auto.
Qed.

Lemma first_rank_fixed r ts : r <> -1 -> first_rank r ts = r.
Proof.
  intros H. assert (L : forall p, latch r p = r).
  { intros p. unfold latch. destruct (r =? -1) eqn:E; [apply Z.eqb_eq in E; congruence|reflexivity]. }
  induction ts as [|[x|b e|m|o] ts IH]; cbn [first_rank]; auto.
Qed.

Lemma count_cons p t ts : count p (t :: ts) = (if p t then 1 else 0) + count p ts.
Proof. unfold count. cbn [filter]. destruct (p t); [cbn [List.length]; lia|lia]. Qed.

Lemma cX1 : negb (substr "X" "BE") = true. Proof. reflexivity. Qed.
Lemma cX2 : ("X" =? "M")%string = false. Proof. reflexivity. Qed.
Lemma cB1 : negb (substr "B" "BE") = false. Proof. reflexivity. Qed.
Lemma cB2 : ("B" =? "B")%string = true. Proof. reflexivity. Qed.
Lemma cE2 : ("E" =? "E")%string = true. Proof. reflexivity. Qed.
Lemma cM1 : negb (substr "M" "BE") = true. Proof. reflexivity. Qed.
Lemma cM2 : ("M" =? "M")%string = true. Proof. reflexivity. Qed.
Lemma cC1 : negb (substr "C" "BE") = true. Proof. reflexivity. Qed.
Lemma cC2 : ("C" =? "M")%string = false. Proof. reflexivity. Qed.

Definition rank_claim (R : Z) (l : list ev) : Prop :=
  Forall (fun e => annotated e = true -> ann_ok R e) l.

Lemma consE_parts e p : fst (fst (consE e p)) = e :: fst (fst p) /\ snd (fst (consE e p)) = snd (fst p) /\
  snd (consE e p) = snd p.
Proof. destruct p as [[o r] sf]. cbn. auto. Qed.

(* the whole per-file statement by one induction over the token list *)
Lemma file_tokens toks : forall job rank zero neg,
  forallb wf_tok toks = true ->
  let r := fstream_o job rank zero neg None (flatten toks) in
  map core (fst (fst r)) = expected toks /\ snd (fst r) = EStop /\
  f_zero (snd r) = zero + count is_zero toks /\ f_neg (snd r) = neg + count is_neg toks /\
  (first_rank rank toks <> -1 -> rank_claim (first_rank rank toks) (fst (fst r))).
Proof.
  induction toks as [|t toks IH]; intros job rank zero neg W; cbv zeta.
  - cbn. repeat split; try lia. intros _. constructor.
  - cbn [forallb] in W. apply andb_prop in W. destruct W as [Wt W].
    unfold flatten. cbn [flat_map]. fold (flatten toks).
    destruct t as [x|b e|m|o]; cbn [wf_tok] in Wt; cbn [tok_raw app].
    + (* X slice *)
      apply andb_prop in Wt. destruct Wt as [Wt Wd]. apply andb_prop in Wt. destruct Wt as [Wph Wp].
      apply ph_is_true in Wph. apply is_some_true in Wp. destruct Wp as [p Hp].
      apply is_some_true in Wd. destruct Wd as [d Hd].
      destruct (updated_slice job rank x "X" p Wph ltac:(cbn; auto) Hp) as (x1 & Hu & Hc & Ha).
      destruct (core_ph _ _ Hc) as (Cph & Cd & Cts & Cn).
      cbn [fstream_o]. rewrite Hu. unfold ph_of. rewrite Cph, Wph. rewrite cX1, cX2.
      rewrite (sane_class x1 d) by congruence.
      assert (Hcl : tok_class (TX x) = dur_class d) by (unfold tok_class, tok_dur; now rewrite Hd).
      assert (Hr : first_rank rank (TX x :: toks) = latch rank p) by (cbn [first_rank]; unfold pid_or; now rewrite Hp).
      rewrite Hr. unfold expected. cbn [filter]. unfold is_keep at 1. rewrite !count_cons. unfold is_zero at 1, is_neg at 1.
      rewrite Hcl.
      specialize (IH job (latch rank p)).
      destruct (dur_class d).
      * destruct (IH zero neg W) as (I1 & I2 & I3 & I4 & I5).
        destruct (consE_parts x1 (fstream_o job (latch rank p) zero neg None (flatten toks))) as (E1 & E2 & E3).
        rewrite E1, E2, E3. cbn [map tok_out]. rewrite Hc, I1, I2, I3, I4. repeat split; try lia.
        intros Hne. constructor; [intros _; exact Ha|]. rewrite (first_rank_fixed _ toks Hne) in I5. now apply I5.
      * destruct (IH (zero + 1) neg W) as (I1 & I2 & I3 & I4 & I5).
        rewrite I1, I2, I3, I4. repeat split; try lia.
        intros Hne. rewrite (first_rank_fixed _ toks Hne) in I5. now apply I5.
      * destruct (IH zero (neg + 1) W) as (I1 & I2 & I3 & I4 & I5).
        rewrite I1, I2, I3, I4. repeat split; try lia.
        intros Hne. rewrite (first_rank_fixed _ toks Hne) in I5. now apply I5.
    + (* adjacent B/E pair *)
      repeat (apply andb_prop in Wt; let W' := fresh "Wq" in destruct Wt as [Wt W']).
      apply ph_is_true in Wt. apply ph_is_true in Wq4.
      apply is_some_true in Wq3. destruct Wq3 as [pb Hpb]. apply is_some_true in Wq2. destruct Wq2 as [pe Hpe].
      apply is_some_true in Wq0. destruct Wq0 as [tb Htb]. apply is_some_true in Wq. destruct Wq as [te Hte].
      destruct (e_name b) as [nb|] eqn:Hnb; [|discriminate]. destruct (e_name e) as [ne|] eqn:Hne; [|discriminate].
      destruct (updated_slice job rank b "B" pb Wt ltac:(cbn; auto) Hpb) as (b1 & Hub & Hcb & Hab).
      destruct (updated_slice job (latch rank pb) e "E" pe Wq4 ltac:(cbn; auto) Hpe) as (e1 & Hue & Hce & Hae).
      destruct (core_ph _ _ Hcb) as (Cphb & Cdb & Ctsb & Cnb). destruct (core_ph _ _ Hce) as (Cphe & Cde & Ctse & Cne).
      remember (e :: flatten toks) as tl eqn:Etl.
      cbn [fstream_o]. rewrite Hub. unfold ph_of. rewrite Cphb, Wt. rewrite cB1, cB2. cbv iota. subst tl.
      cbn [fstream_o]. rewrite Hue. rewrite Cnb, Cne, Hnb, Hne, Wq1. cbn [negb].
      unfold ph_of. rewrite Cphe, Wq4, cE2. cbv iota. rewrite Ctse, Ctsb, Hte, Htb. cbv zeta.
      set (o := with_dur (with_ph b1 (Some "X"%string)) (Some (te - tb)%Q)).
      rewrite (sane_class o (te - tb)%Q) by reflexivity.
      assert (Hcl : tok_class (TBE b e) = dur_class (te - tb)%Q) by (unfold tok_class, tok_dur; now rewrite Hte, Htb).
      assert (Hr : first_rank rank (TBE b e :: toks) = latch rank pb) by (cbn [first_rank]; unfold pid_or; now rewrite Hpb).
      assert (Hco : core o = tok_out (TBE b e)).
      { unfold o, core, tok_out, tok_dur. cbn [with_dur with_ph e_uid e_ph e_name e_ts e_dur].
        rewrite (core_uid _ _ Hcb), Cnb, Ctsb, Hte, Htb. reflexivity. }
      rewrite Hr. unfold expected. cbn [filter]. unfold is_keep at 1. rewrite !count_cons. unfold is_zero at 1, is_neg at 1.
      rewrite Hcl.
      assert (Hfix : latch rank pb <> -1 -> latch (latch rank pb) pe = latch rank pb).
      { intros Hn. unfold latch at 1. destruct (latch rank pb =? -1) eqn:E; [apply Z.eqb_eq in E; congruence|reflexivity]. }
      specialize (IH job (latch (latch rank pb) pe)).
      destruct (dur_class (te - tb)%Q).
      * destruct (IH zero neg W) as (I1 & I2 & I3 & I4 & I5).
        destruct (consE_parts o (fstream_o job (latch (latch rank pb) pe) zero neg None (flatten toks))) as (E1 & E2 & E3).
        rewrite E1, E2, E3. cbn [map]. rewrite Hco, I1, I2, I3, I4. repeat split; try lia.
        intros Hn. constructor; [intros _; apply ann_ok_pair; [congruence|exact Hab]|].
        rewrite (Hfix Hn) in I5 |- *. rewrite (first_rank_fixed _ toks Hn) in I5. now apply I5.
      * destruct (IH (zero + 1) neg W) as (I1 & I2 & I3 & I4 & I5).
        rewrite I1, I2, I3, I4. repeat split; try lia.
        intros Hn. rewrite (Hfix Hn) in I5 |- *. rewrite (first_rank_fixed _ toks Hn) in I5. now apply I5.
      * destruct (IH zero (neg + 1) W) as (I1 & I2 & I3 & I4 & I5).
        rewrite I1, I2, I3, I4. repeat split; try lia.
        intros Hn. rewrite (Hfix Hn) in I5 |- *. rewrite (first_rank_fixed _ toks Hn) in I5. now apply I5.
    + (* metadata / instant / async event, with or without args *)
      apply andb_prop in Wt. destruct Wt as [Wk Wp].
      apply is_some_true in Wp. destruct Wp as [p Hp].
      destruct (wf_meta m Wk) as (ph & Wph & Hin & Hd).
      destruct (updated_meta job rank m ph p Wph Hin Hp) as (x1 & Hu & Hc & Ha).
      destruct (core_ph _ _ Hc) as (Cph & Cd & Cts & Cn).
      assert (Hd1 : ph = "M"%string \/ e_dur x1 = None) by (rewrite Cd; exact Hd).
      destruct (meta_keep ph x1 Hin Hd1) as (K1 & K2).
      cbn [fstream_o]. rewrite Hu. unfold ph_of. rewrite Cph, Wph. rewrite K1.
      assert (Hr : first_rank rank (TM m :: toks) = latch rank p) by (cbn [first_rank]; unfold pid_or; now rewrite Hp).
      rewrite Hr. unfold expected. cbn [filter]. rewrite !count_cons.
      change (is_keep (TM m)) with true. change (is_zero (TM m)) with false. change (is_neg (TM m)) with false.
      destruct (IH job (latch rank p) zero neg W) as (I1 & I2 & I3 & I4 & I5).
      destruct (consE_parts x1 (fstream_o job (latch rank p) zero neg None (flatten toks))) as (E1 & E2 & E3).
      destruct K2 as [K2|[K2 K3]]; rewrite K2; [|rewrite K3];
        (rewrite E1, E2, E3; cbn [map tok_out]; rewrite Hc, I1, I2, I3, I4; repeat split; try lia;
         intros Hne; constructor; [intros _; exact Ha|]; rewrite (first_rank_fixed _ toks Hne) in I5; now apply I5).
    + (* other (counter) event: untouched *)
      apply andb_prop in Wt. destruct Wt as [Wph Wd]. apply ph_is_true in Wph.
      assert (Hd : e_dur o = None) by (destruct (e_dur o); [discriminate|reflexivity]).
      cbn [fstream_o]. rewrite (updated_other job rank o Wph). unfold ph_of. rewrite Wph. rewrite cC1, cC2.
      unfold sane. rewrite Hd.
      cbn [first_rank]. unfold expected. cbn [filter]. rewrite !count_cons.
      assert (K : tok_class (TO o) = Keep) by reflexivity.
      unfold is_keep at 1, is_zero at 1, is_neg at 1. rewrite K.
      destruct (IH job rank zero neg W) as (I1 & I2 & I3 & I4 & I5).
      destruct (consE_parts o (fstream_o job rank zero neg None (flatten toks))) as (E1 & E2 & E3).
      rewrite E1, E2, E3. cbn [map tok_out]. rewrite I1, I2, I3, I4. repeat split; try lia.
      intros Hne. constructor; [|now apply I5].
      unfold annotated, ph_of. rewrite Wph. cbn. discriminate.
Qed.

(* ------------------------------------------------------------------ raw order implies stream order *)
Local Close Scope Z_scope.

Lemma updated_ts job rank x x1 rk : updated job rank x = Ok (x1, rk) -> e_ts x1 = e_ts x.
Proof. intros Hu. now destruct (core_ph _ _ (updated_core _ _ _ _ _ Hu)) as (_ & _ & E & _). Qed.

Ltac leaf := cbn [fst snd]; constructor.

(* a lower bound of the ts values of the raw events (and of the open B) bounds the stream's *)
Lemma fstream_lower m l : forall job rank zero neg opn,
  Forall (tge m) l -> (forall b, opn = Some b -> tge m b) ->
  Forall (tge m) (fst (fst (fstream_o job rank zero neg opn l))).
Proof.
  induction l as [|x r IH]; intros job rank zero neg opn Hl Ho; cbn [fstream_o]; [leaf|].
  inversion Hl as [|? ? Hx Hr]; subst.
  assert (N : forall b : ev, @None ev = Some b -> tge m b) by (intros ? [=]).
  destruct (updated job rank x) as [[x1 rk]|t] eqn:Hu; [|leaf].
  pose proof (updated_ts _ _ _ _ _ Hu) as Kx.
  assert (Hx1 : tge m x1) by (eapply tge_eq; [exact Kx|exact Hx]).
  destruct opn as [b|].
  - pose proof (Ho b eq_refl) as Hb.
    destruct (e_name b); [|leaf]. destruct (e_name x1); [|leaf].
    destruct (negb _); [leaf|]. destruct (String.eqb (ph_of x1) "E"); [|leaf].
    destruct (e_ts x1); [|leaf]. destruct (e_ts b) eqn:Etb; [|leaf].
    cbv zeta. destruct (sane _); [|apply IH; auto|apply IH; auto].
    rewrite (proj1 (consE_parts _ _)). constructor; [|apply IH; auto].
    intros u Hu'. change (e_ts b = Some u) in Hu'. apply Hb. exact Hu'.
  - cbv zeta. destruct (negb _).
    + destruct (String.eqb _ _).
      * rewrite (proj1 (consE_parts _ _)). constructor; [exact Hx1|apply IH; auto].
      * destruct (sane x1); [|apply IH; auto|apply IH; auto].
        rewrite (proj1 (consE_parts _ _)). constructor; [exact Hx1|apply IH; auto].
    + destruct (String.eqb _ _); [|leaf]. apply IH; auto. intros b [= <-]. exact Hx1.
Qed.

Lemma fstream_sorted l : forall job rank zero neg opn,
  tsorted l -> (forall b t, opn = Some b -> e_ts b = Some t -> Forall (tge t) l) ->
  tsorted (fst (fst (fstream_o job rank zero neg opn l))).
Proof.
  induction l as [|x r IH]; intros job rank zero neg opn Hl Ho; cbn [fstream_o]; [apply tsorted_nil|].
  apply tsorted_cons in Hl. destruct Hl as [Hs Hf].
  assert (N : forall (b : ev) (t : Q), @None ev = Some b -> e_ts b = Some t -> Forall (tge t) r) by (intros ? ? [=]).
  assert (N' : forall (m : Q) (b : ev), @None ev = Some b -> tge m b) by (intros ? ? [=]).
  destruct (updated job rank x) as [[x1 rk]|t] eqn:Hu; [|apply tsorted_nil].
  pose proof (updated_ts _ _ _ _ _ Hu) as Kx.
  assert (Fx1 : forall t, e_ts x1 = Some t -> Forall (tge t) r) by (rewrite Kx; exact Hf).
  destruct opn as [b|].
  - assert (Fb : forall t, e_ts b = Some t -> Forall (tge t) r).
    { intros t Ht. specialize (Ho b t eq_refl Ht). now inversion Ho. }
    destruct (e_name b); [|apply tsorted_nil]. destruct (e_name x1); [|apply tsorted_nil].
    destruct (negb _); [apply tsorted_nil|]. destruct (String.eqb (ph_of x1) "E"); [|apply tsorted_nil].
    destruct (e_ts x1); [|apply tsorted_nil]. destruct (e_ts b) eqn:Etb; [|apply tsorted_nil].
    cbv zeta. destruct (sane _); [|apply IH; auto|apply IH; auto].
    rewrite (proj1 (consE_parts _ _)). apply tsorted_cons. split; [apply IH; auto|].
    intros t Ht. change (e_ts b = Some t) in Ht. apply fstream_lower; auto. apply Fb. congruence.
  - cbv zeta. destruct (negb _).
    + destruct (String.eqb _ _).
      * rewrite (proj1 (consE_parts _ _)). apply tsorted_cons. split; [apply IH; auto|].
        intros t Ht. apply fstream_lower; auto.
      * destruct (sane x1); [|apply IH; auto|apply IH; auto].
        rewrite (proj1 (consE_parts _ _)). apply tsorted_cons. split; [apply IH; auto|].
        intros t Ht. apply fstream_lower; auto.
    + destruct (String.eqb _ _); [|apply tsorted_nil]. apply IH; auto. intros b t [= <-] Ht. now apply Fx1.
Qed.

(* the stream's timed events are raw timed events in raw order (a B/E pair is emitted at B's ts, events
   are only dropped): if the raw events that have a ts are non-decreasing, so are the stream's *)
Theorem raw_sorted_stream_sorted s :
  StronglySorted Qle (timed (f_rest s)) -> StronglySorted Qle (timed (file_events s)).
Proof. intros H. unfold file_events, fstream_st. apply fstream_sorted; [exact H|intros ? ? [=]]. Qed.

(* ------------------------------------------------------------------ statements used by props/C15.v *)
Definition merged (files : list file) : list item := fst (fst (multi files)).
Definition rank_ok (R : Z) (e : ev) : Prop :=
  annotated e = true -> ann_rank e = Some R /\ ((0 <= R)%Z -> e_pid e = Some R).

Theorem merge_complete files :
  all_ok (map init_file files) ->
  exists out, multi files = (out, Done, map file_final (map init_file files)).
Proof. intros H. destruct (multi_spec files H) as (out & E & _). eauto. Qed.

Theorem merge_perm files :
  all_ok (map init_file files) ->
  Permutation (map fst (merged files)) (List.concat (map file_events (map init_file files))).
Proof. intros H. destruct (multi_spec files H) as (out & E & P & _). unfold merged. now rewrite E. Qed.

Theorem merge_per_file_order files :
  all_ok (map init_file files) ->
  forall j, proj j (merged files) = file_events (nth j (map init_file files) F0).
Proof. intros H. destruct (multi_spec files H) as (out & E & _ & _ & J). unfold merged. now rewrite E. Qed.

Theorem merge_sorted files :
  all_ok (map init_file files) -> streams_sorted (map init_file files) ->
  StronglySorted Qle (timed (map fst (merged files))).
Proof. intros H S. destruct (multi_spec files H) as (out & E & _ & So & _). unfold merged. rewrite E. now apply So. Qed.

Lemma init_tokens f toks : fl_processed f = false -> fl_evs f = flatten toks ->
  fstream_st (init_file f) = fstream_o (fl_job f) (fl_rank0 f) 0 0 None (flatten toks).
Proof. intros Hp He. unfold fstream_st, init_file. cbn. now rewrite Hp, He. Qed.

Theorem pairing f toks :
  fl_processed f = false -> fl_evs f = flatten toks -> forallb wf_tok toks = true ->
  map core (file_events (init_file f)) = expected toks /\
  file_end (init_file f) = EStop /\
  f_zero (file_final (init_file f)) = count is_zero toks /\
  f_neg (file_final (init_file f)) = count is_neg toks.
Proof.
  intros Hp He W. unfold file_events, file_end, file_final. rewrite (init_tokens f toks Hp He).
  destruct (file_tokens toks (fl_job f) (fl_rank0 f) 0%Z 0%Z W) as (A & B & C & D & _). cbv zeta in *.
  rewrite A, B, C, D. repeat split; reflexivity.
Qed.

Theorem rank_attr f toks :
  fl_processed f = false -> fl_evs f = flatten toks -> forallb wf_tok toks = true ->
  first_rank (fl_rank0 f) toks <> (-1)%Z ->
  Forall (rank_ok (first_rank (fl_rank0 f) toks)) (file_events (init_file f)).
Proof.
  intros Hp He W Hr. unfold file_events. rewrite (init_tokens f toks Hp He).
  destruct (file_tokens toks (fl_job f) (fl_rank0 f) 0%Z 0%Z W) as (_ & _ & _ & _ & E). cbv zeta in E.
  exact (E Hr).
Qed.

(* well-formed token files never raise: the hypothesis of the merge theorems is met by the whole
   domain of the property *)
Theorem wf_files_ok files :
  Forall (fun f => fl_processed f = true \/
                   exists toks, fl_evs f = flatten toks /\ forallb wf_tok toks = true) files ->
  all_ok (map init_file files).
Proof.
  intros H. unfold all_ok. rewrite Forall_map. eapply Forall_impl; [|exact H]. cbv beta.
  intros f [Hp|(toks & He & W)].
  - apply rest_nil. unfold init_file. cbn. now rewrite Hp.
  - destruct (fl_processed f) eqn:Hp.
    + apply rest_nil. unfold init_file. cbn. now rewrite Hp.
    + now destruct (pairing f toks Hp He W) as (_ & E & _).
Qed.
