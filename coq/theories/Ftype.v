(* ingestion.py::AbstractTraceIngest.detect_ftype: "a rough file type determination based on filename".
   The name is data: a JSON input is a JSON input whatever else its path contains (a seeded change of round 5 tested
   ".log" before ".json": `aiu.login1.rank2.json`, `run.logs/r0.json` were then skipped as logs, their events lost). *)
From Coq Require Import String Ascii List Bool.
From AiuModel Require Import Base.
Local Open Scope string_scope.

Fixpoint contains (pat s : string) : bool :=
  if String.prefix pat s then true
  else match s with
       | EmptyString => false
       | String _ r => contains pat r
       end.

Inductive ftype := FJson | FPftrace | FLog | FApi | FSniff.     (* FSniff: decided by the first line of the file *)

Definition detect_ftype (fname : string) : ftype :=
  if contains ".json" fname then FJson
  else if contains ".pftrace" fname then FPftrace
  else if contains ".log" fname then FLog
  else if String.prefix "api://" fname then FApi
  else FSniff.

Definition ftype_val (f : string) : val :=
  VS match detect_ftype f with
     | FJson => "json" | FPftrace => "pftrace" | FLog => "log" | FApi => "api" | FSniff => "sniff"
     end.

Lemma contains_unfold pat s :
  contains pat s = if String.prefix pat s then true
                   else match s with EmptyString => false | String _ r => contains pat r end.
Proof. destruct s; reflexivity. Qed.

Lemma prefix_app p r : String.prefix p (p ++ r) = true.
Proof.
  induction p as [|a p IH]; cbn; [destruct r; reflexivity|].
  destruct (ascii_dec a a) as [_|Hn]; [exact IH|contradiction].
Qed.

Lemma contains_app pat a b : contains pat (a ++ pat ++ b) = true.
Proof.
  induction a as [|c a IH].
  - cbn [append]. rewrite contains_unfold, prefix_app. reflexivity.
  - change ((String c a) ++ pat ++ b) with (String c (a ++ pat ++ b)).
    rewrite contains_unfold. destruct (String.prefix pat _); [reflexivity|exact IH].
Qed.

(* every path with ".json" somewhere in it is a JSON input, whatever stands in front of it or behind it *)
Theorem json_anywhere_is_json a b : detect_ftype (a ++ ".json" ++ b) = FJson.
Proof. unfold detect_ftype. rewrite contains_app. reflexivity. Qed.
