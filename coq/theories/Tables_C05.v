(* the hand model of normalize.py::_get_ref_ts uses exactly the if/elif chain of the current source (gen/Tables.v):
   first matching suffix wins, TSk as the 0-based index k-1 *)
From Coq Require Import List String Arith.
Import ListNotations.
From AiuModel Require Import Overflow.
From AiuGen Require Import Tables.
Fixpoint first_suffix (chain : list (string * nat)) (dflt : nat) (name : string) : nat :=
  match chain with
  | [] => dflt
  | (suf, k) :: r => if Overflow.ends_with suf name then k else first_suffix r dflt name
  end.
Lemma ref_idx_is_source :
  forall name, S (Overflow.ref_idx name) = first_suffix Tables.norm_ref_chain Tables.norm_ref_default name.
Proof.
  intros name. unfold Overflow.ref_idx, Tables.norm_ref_chain, Tables.norm_ref_default. cbn [first_suffix].
  repeat match goal with |- context [if ?b then _ else _] => destruct b; try reflexivity end.
Qed.
