(* C01Model.v — layer C for C01: the registration program GENERATED from acelyzer.py (gen/Registration.v),
   instantiated with abstract stage behaviours that describe what each registered stage does to the IDENTITY of
   slices (its uid): pass it on, withhold it until drain, or discard it by a documented rule.  Contexts are the
   context objects of the generated program ([r_ctx]): stages that share a context in the code share a cell here.

   Stage kinds (by callback name; the table is validated on every run against the per-stage uid account of the
   real pipeline, recorded by wrapping the real callbacks — harness/props/c01.py):
     normalize_phase1              limiter (EventLimiter.is_within_limits: window, then position in (skip, skip+count],
                                   metadata never counted) followed by --event_filter on slices
     pipeline_barrier              holds in the shared module-level cell, drain hands back and resets
     queueing_counter              discards Prep slices unless keep_prep
     drop_global_events            discards --drop_globals names
     detect_partial_overlap_events discards the slices -O drop removes (decision taken as an input attribute: it is C04's
                                   subject; the oracle of the tie checks each such slice really is a partial overlap)
     processing_filter             -F: discards every slice unless 'X' is in the pattern
     sort_events, mp_sync_tight_v1, mp_ts_calibration_v2, mp_calc_bw, mp_calc_bw_v2
                                   withhold everything until drain, which returns all of it
     every other stage             passes each slice on (possibly modified; identity on uids)
   The ledger component of a cell is ghost state: the uids a stage discarded, tagged with the rule. *)
From Coq Require Import List String Bool Arith ZArith.
Import ListNotations.
From AiuModel Require Import Base Pipeline Profile.
From AiuGen Require Import Registration Profiles.
Local Open Scope string_scope.

Record aev := { a_uid : Z;        (* uid of a slice; slices without uid and non-slices carry no key *)
                a_x : bool;       (* ph = X *)
                a_meta : bool;    (* ph in no_count_types (metadata) *)
                a_inwin : bool;   (* [ts, ts+dur] intersects [ts_start, ts_end] *)
                a_filt : bool;    (* some --event_filter pair matches *)
                a_prep : bool;    (* dialect category acc_compute_prep *)
                a_glob : bool;    (* name contains one of drop_global_events' names *)
                a_ovl : bool }.   (* removed by -O drop *)
Record aopts := { o_skip : Z; o_count : Z; o_keep_prep : bool; o_fx : bool; o_drop : bool }.

Inductive rule := RLimit | REventFilter | RPrep | RGlobal | RPhFilter | ROverlapDrop.
Definition rule_z (r : rule) : Z :=
  match r with RLimit => 1 | REventFilter => 2 | RPrep => 3 | RGlobal => 4 | RPhFilter => 5 | ROverlapDrop => 6 end%Z.

Record cell := { c_hold : list aev; c_count : Z; c_led : list (rule * Z) }.
Definition cell0 : cell := {| c_hold := []; c_count := 0; c_led := [] |}.

Definition keyl (e : aev) : list Z := if a_x e then [a_uid e] else [].
Definition note (s : cell) (r : rule) (e : aev) : cell :=
  {| c_hold := c_hold s; c_count := c_count s; c_led := (c_led s ++ map (fun u => (r, u)) (keyl e))%list |}.

Inductive kind := KMap | KHold | KBarrier | KLimit | KPrep | KGlobal | KPhFilter | KOverlap.
Definition kind_of (n : string) : kind :=
  if String.eqb n "normalize_phase1" then KLimit
  else if String.eqb n "pipeline_barrier" then KBarrier
  else if String.eqb n "queueing_counter" then KPrep
  else if String.eqb n "drop_global_events" then KGlobal
  else if String.eqb n "detect_partial_overlap_events" then KOverlap
  else if String.eqb n "processing_filter" then KPhFilter
  else if String.eqb n "sort_events" then KHold
  else if String.eqb n "mp_sync_tight_v1" then KHold
  else if String.eqb n "mp_ts_calibration_v2" then KHold
  else if String.eqb n "mp_calc_bw" then KHold
  else if String.eqb n "mp_calc_bw_v2" then KHold
  else KMap.

Definition hold (s : cell) (e : aev) : cell :=
  {| c_hold := (c_hold s ++ [e])%list; c_count := c_count s; c_led := c_led s |}.

(* EventLimiter.is_within_limits + NormalizationContext.event_within_limits + the X-only event filter *)
Definition limit_cb (o : aopts) (s : cell) (e : aev) : cell * list aev :=
  if a_meta e then (s, [e])
  else
    let n := if a_inwin e then (c_count s + 1)%Z else c_count s in
    let s1 := {| c_hold := c_hold s; c_count := n; c_led := c_led s |} in
    if a_inwin e && Z.ltb (o_skip o) n && Z.leb n (o_skip o + o_count o)
    then if a_x e && a_filt e then (note s1 REventFilter e, []) else (s1, [e])
    else (note s1 RLimit e, []).

Definition abs_cb (o : aopts) (k : kind) (s : cell) (e : aev) : cell * list aev :=
  match k with
  | KMap => (s, [e])
  | KHold | KBarrier => (hold s e, [])
  | KLimit => limit_cb o s e
  | KPrep => if a_x e && a_prep e && negb (o_keep_prep o) then (note s RPrep e, []) else (s, [e])
  | KGlobal => if a_glob e then (note s RGlobal e, []) else (s, [e])
  | KPhFilter => if a_x e && negb (o_fx o) then (note s RPhFilter e, []) else (s, [e])
  | KOverlap => if a_x e && o_drop o && a_ovl e then (note s ROverlapDrop e, []) else (s, [e])
  end.
(* drain() of every context: hand back what is held, keep counters and the ghost ledger *)
Definition abs_dr (s : cell) : cell * list aev :=
  ({| c_hold := []; c_count := c_count s; c_led := c_led s |}, c_hold s).

(* context object of a registration: r_ctx of the generated program (even cell numbers); a stage registered
   without context gets a private cell derived from its position in the program (odd cell numbers) *)
Definition cell_of (pos : nat) (r : reg) : nat := match r_ctx r with O => S (2 * pos) | c => 2 * c end.
Definition abs_stage (o : aopts) (pos : nat) (r : reg) : stage aev cell :=
  let k := kind_of (r_name r) in
  {| cb := abs_cb o k; cid := cell_of pos r; dr := abs_dr;
     bar := match k with KBarrier => true | _ => false end |}.

Fixpoint number {A} (i : nat) (l : list A) : list (nat * A) :=
  match l with [] => [] | x :: r => (i, x) :: number (S i) r end.
(* the stages that run under valuation [v] of the guard atoms and profile [P] (aligned with the program) *)
Definition selected (v : nat -> bool) (P : prof) (p : program) : list (nat * reg) :=
  map fst (filter (fun x => geval v (r_guard (snd (fst x))) && snd (snd x))
                  (combine (number 0 p) P)).
Definition abs_pipeline (o : aopts) (v : nat -> bool) (P : prof) (p : program) : list (stage aev cell) :=
  map (fun x => abs_stage o (fst x) (snd x)) (selected v P p).
Definition st0 : store cell := fun _ => cell0.

Definition keys (l : list aev) : list Z := flat_map keyl l.

(* what the tie compares: exported uids (sorted) and, per selected stage, the uids it discarded (sorted) *)
Definition zsort (l : list Z) : list Z := isort Z.leb l.
Definition run_full (o : aopts) (v : nat -> bool) (P : prof) (es : list aev)
  : list aev * store cell * list (stage aev cell) :=
  let gs := abs_pipeline o v P the_program in
  let '(st1, o1) := inputs gs st0 es in
  let '(st2, o2) := drain gs st1 in
  ((o1 ++ o2)%list, st2, gs).

Definition ledger_of (st : store cell) (c : nat) (r : rule) : list Z :=
  map snd (filter (fun x => Z.eqb (rule_z (fst x)) (rule_z r)) (c_led (st c))).

Definition mk_ev (t : (Z * (bool * bool)) * ((bool * bool) * (bool * (bool * bool)))) : aev :=
  let '((u, (x, m)), ((w, f), (p, (g, ov)))) := t in
  {| a_uid := u; a_x := x; a_meta := m; a_inwin := w; a_filt := f; a_prep := p; a_glob := g; a_ovl := ov |}.

Definition c01_run (inp : ((list bool * nat) * (Z * Z * (bool * (bool * bool)))) *
                          list ((Z * (bool * bool)) * ((bool * bool) * (bool * (bool * bool))))) : val :=
  let '(((vl, psel), (skip, cnt, (kp, (fx, dp)))), evs) := inp in
  let v := fun n => nth n vl false in
  let o := {| o_skip := skip; o_count := cnt; o_keep_prep := kp; o_fx := fx; o_drop := dp |} in
  let P := match psel with
           | O => match from_json profile_default everything with Some q => q | None => [] end
           | _ => match from_json profile_torch_minimal everything with Some q => q | None => [] end
           end in
  let '(out, st, gs) := run_full o v P (map mk_ev evs) in
  (* drops are compared per discarding stage: normalize_phase1 (limit + event filter), queueing_counter,
     drop_global_events, processing_filter, detect_partial_overlap_events *)
  let groups := [[RLimit; REventFilter]; [RPrep]; [RGlobal]; [RPhFilter]; [ROverlapDrop]] in
  let cells := nodup Nat.eq_dec (map (@cid aev cell) gs) in
  VL [VLz (zsort (keys out));
      VL (map (fun rs => VLz (zsort (flat_map (fun r => flat_map (fun c => ledger_of st c r) cells) rs))) groups);
      VZ (Z.of_nat (List.length gs))].
