(* Flow.v — executable model of the flow-arrow kernel of src/aiu_trace_analyzer/pipeline/coll_group.py
   (registered by Acelyzer.register_processing_functions under --flow, followed unconditionally by the cleanup):

     flow_prepare_event_data                      -> [prep]       (helper "F" copy: peers, sync tag, type code, cat)
       event_updates (strip " [<n>B]", Peer->Peers)  -> [strip_bytes], [upd_peers]
       regexes _sync_pattern/_send_data_pattern/_recv_pattern/_bytes_pattern, _event_type_map
     flow_extraction                              -> [extract]
     CollectiveGroupingContext.insert             -> [insert]     (queue, latest_ts, first_ts with the isclose quirk)
                              .group_candidates   -> [candidates]
                              .detect_final       -> [detect_final]  (per-sync-group counters and peer sets, literal fold)
                              .find_recv_partner  -> [find_partner]
                              .build_flows        -> [build_pairs] / [build_flows]   (build_coll_event = False)
                              .create_flow_events_from_pair -> [mk_s], [mk_f], [fsub001]  (fresh id; f at end - 0.001)
                              .check_drop_group   -> [check_drop]  (stale rule, drop_threshold 5e6 / 0 at drain)
                              .drain              -> [drain]
     flow_data_cleanup                            -> [cleanup]
   [run_flow] is the three stages applied to a stream followed by the context drain (what EventProcessor does with them,
   C03) and is what harness/props/c09.py ties to the real functions.

   Not modelled (not observable in the projection the tie compares, build_coll_event=False): io_type / step keys,
   group_state.peers / sends / rank_*_event, rank_coll_comp_queues, the reverse-flow table (only problem_count).
   Dictionaries keyed by hash(str) are modelled as association lists keyed by the string (hash collisions are outside
   the model).  Times are exact rationals; the one inexact float operation, (ts + dur) - 0.001, is modelled bit-exactly
   by [b64_round] (round-to-nearest-even to 53 significant bits; normal range only). *)
From Coq Require Import ZArith QArith Qabs List Bool String Ascii Lia.
Import ListNotations.
From AiuModel Require Import Base.
Local Open Scope Z_scope.

Inductive res (A : Type) : Type := Ok (a : A) | Err (tag : string).
Arguments Ok {A} a.
Arguments Err {A} tag.
Definition bind {A B} (r : res A) (f : A -> res B) : res B :=
  match r with Ok a => f a | Err t => Err t end.

(* ------------------------------------------------------------------ strings *)
Definition is_digit (a : ascii) : bool :=
  let n := nat_of_ascii a in (Nat.leb 48 n && Nat.leb n 57)%bool.
Definition is_space (a : ascii) : bool :=
  let n := nat_of_ascii a in (Nat.eqb n 32 || (Nat.leb 9 n && Nat.leb n 13))%bool.   (* \s on ASCII *)
Definition lower (a : ascii) : ascii :=
  let n := nat_of_ascii a in if (Nat.leb 65 n && Nat.leb n 90)%bool then ascii_of_nat (n + 32) else a.

Fixpoint sdrop (n : nat) (s : string) : string :=
  match n, s with
  | O, _ => s
  | S k, String _ r => sdrop k r
  | S _, EmptyString => EmptyString
  end.

(* rest of [s] after the leftmost occurrence of [pat] *)
Fixpoint after_first (pat s : string) : option string :=
  if String.prefix pat s then Some (sdrop (String.length pat) s)
  else match s with
       | EmptyString => None
       | String _ r => after_first pat r
       end.

(* [s] up to (excluding) the FIRST occurrence of character [c] *)
Fixpoint cut_first (c : ascii) (s : string) : option string :=
  match s with
  | EmptyString => None
  | String a r => if Ascii.eqb a c then Some EmptyString
                  else match cut_first c r with Some p => Some (String a p) | None => None end
  end.

(* _sync_pattern: space, opening bracket, sync=, anything but a closing bracket, closing bracket; first element of
   findall: leftmost start, the tag ends at the FIRST closing bracket (since the repair of the size-tag defect: a size
   tag behind the sync tag, as in  [sync=T] [65536B],  used to be swallowed by the greedy pattern).  If the leftmost
   start has no closing bracket behind it no later one has either. *)
Definition find_sync (name : string) : option string :=
  match after_first " [sync=" name with
  | Some r => cut_first "]" r
  | None => None
  end.

Fixpoint span_digits (s : string) (acc : Z) (n : nat) : Z * nat * string :=
  match s with
  | String a r => if is_digit a then span_digits r (acc * 10 + Z.of_nat (nat_of_ascii a - 48)) (S n)
                  else (acc, n, s)
  | EmptyString => (acc, n, s)
  end.

(* _bytes_pattern = " \[(\d+[Bb])\]" matched at the head of [s]: the remainder *)
Definition bytes_at (s : string) : option string :=
  match s with
  | String " " (String "[" r) =>
      let '(_, n, r1) := span_digits r 0 O in
      match n, r1 with
      | S _, String b (String "]" r2) => if (Ascii.eqb b "B" || Ascii.eqb b "b")%bool then Some r2 else None
      | _, _ => None
      end
  | _ => None
  end.
(* _bytes_pattern.sub('', name): left to right, non-overlapping; fuel = length of the name *)
Fixpoint strip_bytes_f (fuel : nat) (s : string) : string :=
  match fuel with
  | O => s
  | S k => match bytes_at s with
           | Some r => strip_bytes_f k r
           | None => match s with
                     | EmptyString => EmptyString
                     | String a r => String a (strip_bytes_f k r)
                     end
           end
  end.
Definition strip_bytes (s : string) : string := strip_bytes_f (S (String.length s)) s.

(* _recv_pattern = "[Rr][Ee][Cc][Vv]_(\d+)_": the number of the leftmost match *)
Definition recv_at (s : string) : option Z :=
  match s with
  | String a (String b (String c (String d (String "_" r)))) =>
      if (Ascii.eqb (lower a) "r" && Ascii.eqb (lower b) "e" && Ascii.eqb (lower c) "c" && Ascii.eqb (lower d) "v")%bool
      then let '(z, n, r1) := span_digits r 0 O in
           match n, r1 with
           | S _, String "_" _ => Some z
           | _, _ => None
           end
      else None
  | _ => None
  end.
Fixpoint find_recv (s : string) : option Z :=
  match s with
  | EmptyString => None
  | String _ r => match recv_at s with Some z => Some z | None => find_recv r end
  end.

(* a small regular-expression matcher (Brzozowski derivatives) for _send_data_pattern *)
Inductive re : Type :=
| REmp | REps | RChr (p : ascii -> bool) | RCat (a b : re) | RAlt (a b : re) | RStar (a : re).
Fixpoint nullable (r : re) : bool :=
  match r with
  | REmp => false | REps => true | RChr _ => false
  | RCat a b => nullable a && nullable b
  | RAlt a b => nullable a || nullable b
  | RStar _ => true
  end.
Definition rcat (a b : re) : re :=
  match a, b with
  | REmp, _ => REmp | _, REmp => REmp
  | REps, _ => b | _, REps => a
  | _, _ => RCat a b
  end.
Definition ralt (a b : re) : re :=
  match a, b with
  | REmp, _ => b | _, REmp => a
  | _, _ => RAlt a b
  end.
Fixpoint deriv (c : ascii) (r : re) : re :=
  match r with
  | REmp => REmp | REps => REmp
  | RChr p => if p c then REps else REmp
  | RCat a b => if nullable a then ralt (rcat (deriv c a) b) (deriv c b) else rcat (deriv c a) b
  | RAlt a b => ralt (deriv c a) (deriv c b)
  | RStar a => rcat (deriv c a) (RStar a)
  end.
Fixpoint rmatch (r : re) (s : string) : bool :=
  match s with
  | EmptyString => nullable r
  | String c t => rmatch (deriv c r) t
  end.
Fixpoint rlit (s : string) : re :=
  match s with EmptyString => REps | String a r => RCat (RChr (Ascii.eqb a)) (rlit r) end.
Definition rplus (a : re) : re := RCat a (RStar a).
Definition rany : re := RChr (fun _ => true).
(* _send_data_pattern = 'Send[_\d]+ Data [^\s]+ DmaO$' used with findall (search) *)
Definition send_data_re : re :=
  RCat (RStar rany)
   (RCat (rlit "Send")
    (RCat (rplus (RChr (fun a => Ascii.eqb a "_" || is_digit a)))
     (RCat (rlit " Data ")
      (RCat (rplus (RChr (fun a => negb (is_space a)))) (rlit " DmaO"))))).
Definition is_send_data (name : string) : bool := rmatch send_data_re name.

(* Python int(str): optional surrounding whitespace, optional sign, decimal digits *)
Fixpoint ltrim (s : string) : string :=
  match s with String a r => if is_space a then ltrim r else s | EmptyString => s end.
Fixpoint all_space (s : string) : bool :=
  match s with String a r => is_space a && all_space r | EmptyString => true end.
Definition parse_int (s : string) : res Z :=
  let s1 := ltrim s in
  let '(sg, s2) := match s1 with
                   | String "-" r => (-1, r)
                   | String "+" r => (1, r)
                   | _ => (1, s1)
                   end in
  let '(z, n, r) := span_digits s2 0 O in
  match n with
  | O => Err "ValueError"
  | S _ => if all_space r then Ok (sg * z) else Err "ValueError"
  end.
Fixpoint split_on (c : ascii) (s : string) : list string :=
  match s with
  | EmptyString => [EmptyString]
  | String a r => if Ascii.eqb a c then EmptyString :: split_on c r
                  else match split_on c r with
                       | h :: t => String a h :: t
                       | [] => [String a EmptyString]
                       end
  end.
Fixpoint map_res {A B} (f : A -> res B) (l : list A) : res (list B) :=
  match l with
  | [] => Ok []
  | x :: r => bind (f x) (fun y => bind (map_res f r) (fun ys => Ok (y :: ys)))
  end.

(* ------------------------------------------------------------------ binary64 rounding of the one inexact operation *)
Definition b64_round (q : Q) : Q :=
  let n := Qnum q in
  let d := Zpos (Qden q) in
  if n =? 0 then 0%Q else
  let a := Z.abs n in
  let scaled (e : Z) : Z * Z := if 0 <=? e then (a, d * 2 ^ e) else (a * 2 ^ (- e), d) in
  let e0 := Z.log2 a - Z.log2 d - 52 in
  let m0 := (fst (scaled e0)) / (snd (scaled e0)) in
  let e := if m0 <? 2 ^ 52 then e0 - 1 else if 2 ^ 53 <=? m0 then e0 + 1 else e0 in
  let '(nu, de) := scaled e in
  let m := nu / de in
  let r := nu mod de in
  let m' := if de <? 2 * r then m + 1
            else if de =? 2 * r then (if Z.odd m then m + 1 else m) else m in
  let v := if 0 <=? e then inject_Z (m' * 2 ^ e) else Qmake m' (Z.to_pos (2 ^ (- e))) in
  if n <? 0 then Qopp v else v.

(* the double nearest to 0.001 and to 1e-9 (float.as_integer_ratio) *)
Definition c_0001 : Q := Qmake 1152921504606847 (2 ^ 60)%positive.
Definition c_1em9 : Q := Qmake 4835703278458517 (2 ^ 92)%positive.
(* dst["ts"] + dst["dur"] - 0.001 : the sum is exact on the grid, the subtraction rounds *)
Definition fsub001 (x : Q) : Q := b64_round (x - c_0001)%Q.

(* ------------------------------------------------------------------ events *)
(* raw value of args["Peer"] / args["Peers"] *)
Inductive peerdata := PStr (s : string) | PInt (z : Z) | PList (l : list string).

(* an event as it reaches flow_prepare_event_data, projected to what the three stages read *)
Record iev := mkI {
  i_ph : string; i_args : bool; i_name : string; i_pid : Z; i_tid : Z; i_ts : Q; i_dur : option Q;
  i_peer : option peerdata; i_peers : option peerdata; i_type : option string; i_cg : option string;
  i_bytes : bool;            (* "Bytes" in args *)
  i_job : option Z;          (* args["jobhash"] *)
  i_uid : Z }.

Definition T_NONE := 0. Definition T_BCLIST := 1. Definition T_SEND := 2. Definition T_MCAST := 3.
Definition T_DONE := 4.

(* the helper event ("F" copy without args) *)
Record hev := mkH {
  h_pid : Z; h_tid : Z; h_ts : Q; h_dur : option Q; h_name : string; h_cat : string; h_sync : string;
  h_type : Z; h_peers : list Z; h_job : Z }.

(* exported event of the three stages: pass-through slice or flow arrow end *)
Record oev := mkO {
  o_ph : string; o_name : string; o_pid : Z; o_tid : Z; o_ts : Q; o_dur : option Q;
  o_id : option Z; o_bp : bool; o_cat : option string; o_uid : option Z;
  o_peer : option peerdata; o_peers : option peerdata }.

Definition ph_in_Xbe (ph : string) : bool :=
  existsb (String.eqb ph) [""; "X"; "b"; "e"; "Xb"; "be"; "Xbe"]%string.

Definition type_code (t : string) : res Z :=
  if String.eqb t "WDone Barrier" then Ok T_DONE
  else if String.eqb t "MultiCast" then Ok T_MCAST
  else if String.eqb t "MultiCast XSEG" then Ok T_SEND
  else if String.eqb t "SingleCast" then Ok T_SEND
  else if String.eqb t "Set BCList" then Ok T_BCLIST
  else Err "KeyError".

Definition parse_peers (p : peerdata) : res (list Z) :=
  match p with
  | PStr s => map_res parse_int (split_on "," s)
  | PInt z => Ok [z]
  | PList l => map_res parse_int l
  end.

Definition pass_of (e : iev) : oev :=
  mkO (i_ph e) (i_name e) (i_pid e) (i_tid e) (i_ts e) (i_dur e) None false None (Some (i_uid e))
      (i_peer e) (i_peers e).

(* event_updates: the slice itself is changed (name without byte tokens, Peer renamed to Peers) *)
Definition updated (e : iev) : iev :=
  mkI (i_ph e) (i_args e) (if i_bytes e then i_name e else strip_bytes (i_name e)) (i_pid e) (i_tid e)
      (i_ts e) (i_dur e) None
      (match i_peers e with Some p => Some p | None => i_peer e end)   (* an existing "Peers" is kept: fix C20 *)
      (i_type e) (i_cg e) (i_bytes e) (i_job e) (i_uid e).

(* flow_prepare_event_data: the (possibly updated) slice and, if it carries a sync tag, its helper *)
Definition prep (e0 : iev) : res (iev * option hev) :=
  if negb (ph_in_Xbe (i_ph e0) && i_args e0) then Ok (e0, None) else
  let e := updated e0 in
  let name := i_name e in
  bind (match i_peers e with
        | Some p => bind (parse_peers p) (fun l => Ok (Some l))
        | None => if is_send_data name then Ok (Some [])
                  else Ok (match find_recv name with Some z => Some [z] | None => None end)
        end) (fun peers =>
  match find_sync name with
  | None => Ok (e, None)
  | Some sync =>
      bind (match i_type e with Some t => type_code t | None => Ok T_NONE end) (fun ty =>
      match i_job e with
      | None => Err "KeyError"
      | Some job =>
          match peers with
          | None => Err "AssertionError"
          | Some pl =>
              Ok (e, Some (mkH (i_pid e) (i_tid e) (i_ts e) (i_dur e) name
                               (match i_cg e with Some c => c | None => EmptyString end)
                               sync ty pl job))
          end
      end)
  end).

(* ------------------------------------------------------------------ CollectiveGroupingContext *)
Record grp := mkG { g_cat : string; g_queue : list hev; g_latest : Q; g_first : Q }.
Record fctx := mkC { c_groups : list grp; c_next : Z; c_stale : Z; c_problems : Z; c_thresh : Q }.
Definition ctx0 : fctx := mkC [] 1000000 0 0 (Qmake 5000000 1).

Definition h_end (h : hev) : Q := (h_ts h + match h_dur h with Some d => d | None => 0 end)%Q.

Fixpoint upd_group (cat : string) (f : option grp -> grp) (gs : list grp) : list grp :=
  match gs with
  | [] => [f None]
  | g :: r => if String.eqb (g_cat g) cat then f (Some g) :: r else g :: upd_group cat f r
  end.

(* insert(): append, latest_ts, first_ts (isclose(first_ts, 0.0, abs_tol=1e-9) quirk) *)
Definition insert_grp (h : hev) (og : option grp) : grp :=
  let g := match og with Some g => g | None => mkG (h_cat h) [] 0%Q 0%Q end in
  let first := if Qle_bool (Qabs (g_first g)) c_1em9 then h_ts h
               else if h_type h =? T_SEND then Qmin (g_first g) (h_ts h) else g_first g in
  mkG (g_cat g) (g_queue g ++ [h]) (Qmax (g_latest g) (h_end h)) first.

Definition insert (c : fctx) (h : hev) : res fctx :=
  match h_dur h with
  | None => Err "AssertionError"
  | Some d => if Qlt_b 0%Q d
              then Ok (mkC (upd_group (h_cat h) (insert_grp h) (c_groups c)) (c_next c) (c_stale c)
                           (c_problems c) (c_thresh c))
              else Err "AssertionError"
  end.

(* detect_final: sync-group table keyed by the sync tag, in first-seen order *)
Record sg := mkS { s_key : string; s_closed : bool; s_mcast : bool; s_open : Z; s_close : Z; s_peers : list Z }.

Definition add_set (x : Z) (l : list Z) : list Z := if existsb (Z.eqb x) l then l else l ++ [x].

Definition sg_step (s : sg) (h : hev) : sg :=
  let peers := fold_left (fun acc p => add_set p acc) (h_peers h) (add_set (h_pid h) (s_peers s)) in
  let mc := s_mcast s || (2 <? Z.of_nat (List.length peers)) in
  let '(op, cl, mc) :=
    if h_type h =? T_BCLIST then (s_open s + Z.of_nat (List.length (h_peers h)), s_close s, true)
    else if h_type h =? T_MCAST then (s_open s + 1, s_close s, true)
    else if h_type h =? T_SEND then (s_open s + 1, s_close s, mc)
    else if h_type h =? T_DONE then (s_open s, s_close s + 1, mc)
    else (s_open s, s_close s, mc) in
  let partners := Z.of_nat (List.length peers) in
  let closed0 := (1 <? partners) && (0 <? cl) in
  let closed := if mc then closed0 && (2 * partners - 1 =? op) && (cl =? partners - 1)
                else closed0 && (0 <? op) && (cl =? partners - 1) in
  mkS (s_key s) closed mc op cl peers.

Fixpoint upd_sg (h : hev) (tbl : list sg) : list sg :=
  match tbl with
  | [] => [sg_step (mkS (h_sync h) false false 0 0 []) h]
  | s :: r => if String.eqb (s_key s) (h_sync h) then sg_step s h :: r else s :: upd_sg h r
  end.
Definition sync_table (q : list hev) : list sg := fold_left (fun t h => upd_sg h t) q [].
Definition detect_final (q : list hev) : bool :=
  let t := sync_table q in
  (1 <? Z.of_nat (List.length t)) && forallb s_closed t.

(* find_recv_partner: first queued event with (sync, Type, pid) = (sync of the send, DONE, first peer) *)
Definition partner_ok (e : hev) (peer : Z) (r : hev) : bool :=
  String.eqb (h_sync r) (h_sync e) && (h_type r =? T_DONE) && (h_pid r =? peer).
Definition find_partner (e : hev) (q : list hev) : res (option hev) :=
  match h_peers e with
  | [] => Err "IndexError"
  | p :: _ => Ok (find (partner_ok e p) q)
  end.

(* build_flows without the id/arrow construction: (send, receive) in queue order of the sends *)
Fixpoint build_pairs_from (q rest : list hev) : res (list (hev * hev)) :=
  match rest with
  | [] => Ok []
  | e :: r =>
      if h_type e =? T_SEND then
        bind (find_partner e q) (fun o =>
        bind (build_pairs_from q r) (fun ps =>
        Ok (match o with Some d => (e, d) :: ps | None => ps end)))
      else build_pairs_from q r
  end.
Definition build_pairs (q : list hev) : res (list (hev * hev)) := build_pairs_from q q.

(* create_flow_events_from_pair *)
Definition f_ts (d : hev) : Q := fsub001 (h_end d).
Definition mk_s (id : Z) (e : hev) : oev :=
  mkO "s" (h_sync e) (h_pid e) (h_tid e) (h_ts e) None (Some id) false (Some (h_cat e)) None None None.
Definition mk_f (id : Z) (e d : hev) : oev :=
  mkO "f" (h_sync e) (h_pid d) (h_tid d) (f_ts d) None (Some id) true (Some (h_cat d)) None None None.

(* ids: flow_sequence_id is incremented before use *)
Fixpoint number_pairs (next : Z) (ps : list (hev * hev)) : list (Z * (hev * hev)) :=
  match ps with
  | [] => []
  | p :: r => (next + 1, p) :: number_pairs (next + 1) r
  end.
Definition pair_events (x : Z * (hev * hev)) : list oev :=
  let '(id, (e, d)) := x in [mk_s id e; mk_f id e d].
Definition reverse_flow (p : hev * hev) : bool := Qlt_b (f_ts (snd p)) (h_ts (fst p)).

(* build_flows(group): pops the group (done by the callers below) *)
Definition build_flows (c : fctx) (q : list hev) : res (fctx * list oev) :=
  bind (build_pairs q) (fun ps =>
  Ok (mkC (c_groups c) (c_next c + Z.of_nat (List.length ps)) (c_stale c)
          (c_problems c + Z.of_nat (List.length (filter reverse_flow ps))) (c_thresh c),
      flat_map pair_events (number_pairs (c_next c) ps))).

Definition remove_group (cat : string) (gs : list grp) : list grp :=
  filter (fun g => negb (String.eqb (g_cat g) cat)) gs.
Definition set_groups (c : fctx) (gs : list grp) : fctx :=
  mkC gs (c_next c) (c_stale c) (c_problems c) (c_thresh c).

(* check_drop_group *)
Definition is_stale (thresh : Q) (g : grp) (ref : Q) : bool :=
  let d := Qmax (g_latest g - g_first g)%Q thresh in
  Qlt_b (g_latest g + 4 * d)%Q ref.
Definition check_drop (c : fctx) (g : grp) (ref : Q) : fctx :=
  if is_stale (c_thresh c) g ref
  then mkC (remove_group (g_cat g) (c_groups c)) (c_next c) (c_stale c + 1) (c_problems c) (c_thresh c)
  else c.

Definition ts_leb (a b : oev) : bool := Qle_bool (o_ts a) (o_ts b).

(* the loop of flow_extraction over the candidate groups: the first complete one is emitted (sorted by ts)
   and the loop is left; incomplete ones are tested against the stale rule *)
Fixpoint scan (c : fctx) (cands : list grp) (ts : Q) : res (fctx * list oev) :=
  match cands with
  | [] => Ok (c, [])
  | g :: r =>
      if detect_final (g_queue g)
      then bind (build_flows (set_groups c (remove_group (g_cat g) (c_groups c))) (g_queue g))
                (fun x => Ok (fst x, isort ts_leb (snd x)))
      else scan (check_drop c g ts) r ts
  end.

Definition candidates (c : fctx) (ts : Q) : list grp :=
  filter (fun g => Qlt_b (g_latest g) ts) (c_groups c).

(* flow_extraction on a helper event *)
Definition extract (c : fctx) (h : hev) : res (fctx * list oev) :=
  bind (insert c h) (fun c1 => scan c1 (candidates c1 (h_ts h)) (h_ts h)).

(* drain(): drop_threshold := 0; groups in dictionary order; incomplete ones are dropped as stale
   (reference time 1e30: always later than any time of the claimed domain) *)
Fixpoint drain_groups (c : fctx) (gs : list grp) : res (fctx * list oev) :=
  match gs with
  | [] => Ok (c, [])
  | g :: r =>
      if detect_final (g_queue g)
      then bind (build_flows c (g_queue g)) (fun x =>
           bind (drain_groups (fst x) r) (fun y => Ok (fst y, snd x ++ snd y)))
      else drain_groups (mkC (c_groups c) (c_next c) (c_stale c + 1) (c_problems c) (c_thresh c)) r
  end.
Definition drain (c : fctx) : res (fctx * list oev) :=
  drain_groups (mkC [] (c_next c) (c_stale c) (c_problems c) 0%Q) (c_groups c).

(* flow_data_cleanup *)
Definition cleanup (l : list oev) : list oev := filter (fun o => negb (String.eqb (o_ph o) "F")) l.

(* one input event through flow_prepare_event_data ; flow_extraction ; flow_data_cleanup *)
Definition step (c : fctx) (e : iev) : res (fctx * list oev) :=
  bind (prep e) (fun x =>
  let '(e1, oh) := x in
  match oh with
  | None => Ok (c, cleanup [pass_of e1])
  | Some h => bind (extract c h) (fun y => Ok (fst y, cleanup (pass_of e1 :: snd y)))
  end).

Fixpoint steps (c : fctx) (es : list iev) : res (fctx * list oev) :=
  match es with
  | [] => Ok (c, [])
  | e :: r => bind (step c e) (fun x => bind (steps (fst x) r) (fun y => Ok (fst y, snd x ++ snd y)))
  end.

(* whole run: stream, then the drain of the context, whose events still pass the cleanup stage *)
Definition run_flow (es : list iev) : res (fctx * list oev) :=
  bind (steps ctx0 es) (fun x =>
  bind (drain (fst x)) (fun y => Ok (fst y, snd x ++ cleanup (snd y)))).

(* ------------------------------------------------------------------ encoders for the tie *)
Definition Vq (o : option Q) : val := match o with Some q => VQ q | None => VN end.
Definition Vz (o : option Z) : val := match o with Some z => VZ z | None => VN end.
Definition Vs (o : option string) : val := match o with Some s => VS s | None => VN end.
Definition Vpd (o : option peerdata) : val :=
  match o with
  | None => VN
  | Some (PStr s) => VS s
  | Some (PInt z) => VZ z
  | Some (PList l) => VL (map VS l)
  end.
Definition oev_val (o : oev) : val :=
  VL [VS (o_ph o); VS (o_name o); VZ (o_pid o); VZ (o_tid o); VQ (o_ts o); Vq (o_dur o); Vz (o_id o);
      VB (o_bp o); Vs (o_cat o); Vz (o_uid o); Vpd (o_peer o); Vpd (o_peers o)].
Definition hev_val (h : hev) : val :=
  VL [VZ (h_pid h); VZ (h_tid h); VQ (h_ts h); Vq (h_dur h); VS (h_name h); VS (h_cat h); VS (h_sync h);
      VZ (h_type h); VLz (h_peers h); VZ (h_job h)].

(* tie 1: the whole kernel.  [events; stale_drop; problem_count; flow_sequence_id] or the exception *)
Definition run_val (es : list iev) : val :=
  match run_flow es with
  | Ok (c, out) => VL [VL (map oev_val out); VZ (c_stale c); VZ (c_problems c); VZ (c_next c)]
  | Err t => VE t
  end.
(* tie 2: flow_prepare_event_data alone: [updated slice; helper or None] *)
Definition prep_val (e : iev) : val :=
  match prep e with
  | Ok (e1, oh) => VL [oev_val (pass_of e1); match oh with Some h => hev_val h | None => VN end]
  | Err t => VE t
  end.
(* tie 3: detect_final / build_flows on one queue of helper events: [final; pairs as (index of send, index of recv)] *)
Definition idx_of (x : hev) (q : list hev) (eqb : hev -> hev -> bool) : Z :=
  (fix go (l : list hev) (i : Z) : Z :=
     match l with [] => -1 | y :: r => if eqb x y then i else go r (i + 1) end) q 0.
Definition Qopt_eqb (a b : option Q) : bool :=
  match a, b with Some x, Some y => Qeq_bool x y | None, None => true | _, _ => false end.
Definition hev_eqb (a b : hev) : bool :=
  (h_pid a =? h_pid b) && (h_tid a =? h_tid b) && Qeq_bool (h_ts a) (h_ts b) && Qopt_eqb (h_dur a) (h_dur b)
  && String.eqb (h_name a) (h_name b) && String.eqb (h_cat a) (h_cat b) && String.eqb (h_sync a) (h_sync b)
  && (h_type a =? h_type b) && (if list_eq_dec Z.eq_dec (h_peers a) (h_peers b) then true else false)
  && (h_job a =? h_job b).
Definition group_val (q : list hev) : val :=
  VL [VB (detect_final q);
      match build_pairs q with
      | Ok ps => VL (map (fun p => VL [VZ (idx_of (fst p) q hev_eqb); VZ (idx_of (snd p) q hev_eqb)]) ps)
      | Err t => VE t
      end].
(* tie 4: the float subtraction *)
Definition fsub_val (x : Q) : val := VQ (fsub001 x).

(* "non-trivial" rule measured inside Coq: the case contains a group with at least two sync tags *)
Definition two_syncs (q : list hev) : bool := 1 <? Z.of_nat (List.length (sync_table q)).

(* tie 5 (end to end): the flow arrows of a whole run, ordered by (id, s before f), projected to
   [ph; name; id; bp; pid; tid; ts; cat] - compared with the s/f events of the exported JSON *)
Definition is_flow (o : oev) : bool := String.eqb (o_ph o) "s" || String.eqb (o_ph o) "f".
Definition flow_key_leb (a b : oev) : bool :=
  match o_id a, o_id b with
  | Some x, Some y => if x =? y then String.eqb (o_ph a) "s" || negb (String.eqb (o_ph b) "s") else x <? y
  | _, _ => true
  end.
Definition flow_val (o : oev) : val :=
  VL [VS (o_ph o); VS (o_name o); Vz (o_id o); VB (o_bp o); VZ (o_pid o); VZ (o_tid o); VQ (o_ts o); Vs (o_cat o)].
Definition e2e_val (es : list iev) : val :=
  match run_flow es with
  | Ok (_, out) => VL (map flow_val (isort flow_key_leb (filter is_flow out)))
  | Err t => VE t
  end.
