(* Ingest.v — executable model of src/aiu_trace_analyzer/ingest/ingestion.py (FLEX dialect, scale 1.0):

     AbstractTraceIngest.updated_event, _rank_device_annotation (FLEX branch), _pid_correction
       (integer pids), _tid_correction (jobhash entry only)                     -> [updated], [annotate]
     JsonEventTraceIngest._initialize_data (list or {"traceEvents","distributedInfo","otherData"}),
       get_next_event, sane_event, build_complete_event, __next__               -> [init_file], [sane], [fnext]
     MultifileIngest.__iter__ (prefill), __next__ (pop / refill / disable / silent drop of an event
       whose file is disabled), update_event_front (append + stable descending sort,
       key ts / -inf when absent),
       disable_ingest                                              -> [refill], [prefill], [step], [run], [multi]
   Specification-level definitions used by the theorems (not executed by the tie): [fstream_o] (whole
   per-file stream), tokens / [expected] / [first_rank] (well-formed files of the property's domain).

   Faithful to what the code does today, including:
     * `ph in "XBE"`, `ph in "BE"`, `ph in "Mbei"` are SUBSTRING tests ("" and "BE" qualify);
     * the rank of a file is latched from the pid of the first annotated event while it is -1
       (so a first pid of -1 does not latch), or preset by distributedInfo.rank;
     * pid is overwritten only if the rank is >= 0;
     * an M/b/e/i event without an args dict gets a fresh one holding only the rank
       (event.setdefault(the_args, {})["rank"] = rank_pid), like every other annotated event;
     * a trailing B without E ends the file silently (StopIteration inside build_complete_event);
     * zero test is math.isclose(dur, 0.0, abs_tol=1e-9), i.e. dur <= double(1e-9) once dur >= 0;
       it is applied to every event that is neither B/E nor exactly "M";
     * the sort key of the event front is ts, or -inf for an event without ts (metadata): such an event
       is emitted as soon as it heads its file, before every timed event of the front;
     * ties in the event front: list.sort is stable also with reverse=True, the refill is appended
       last, pop() takes the last element -> among equal keys the most recently refilled goes first;
     * an exception of a per-file iterator aborts the iteration (the popped event is lost).
   `pending_close` is not a state component: it is False whenever build_complete_event is entered
   (it is only left True by StopIteration/exceptions, after which the file is never read again).
   Outside the model: TORCH dialect, string pids/tids (hash), scale <> 1, .pftrace, api://. *)
From Coq Require Import ZArith QArith List Bool String Ascii.
Import ListNotations.
From AiuModel Require Import Base.
Local Open Scope Z_scope.

(* the two entries of an args/attr dict that ingestion writes: (rank, jobhash) *)
Definition adict : Type := (option Z * option Z)%type.

Record ev : Type := mkEv {
  e_uid : Z;                    (* top-level "uid": identity given by the generator, never touched *)
  e_ph : option string;
  e_name : option string;
  e_ts : option Q;
  e_dur : option Q;
  e_pid : option Z;
  e_args : option adict;
  e_attr : option adict }.

Definition with_ph (e : ev) (p : option string) : ev :=
  mkEv (e_uid e) p (e_name e) (e_ts e) (e_dur e) (e_pid e) (e_args e) (e_attr e).
Definition with_dur (e : ev) (d : option Q) : ev :=
  mkEv (e_uid e) (e_ph e) (e_name e) (e_ts e) d (e_pid e) (e_args e) (e_attr e).
Definition with_pid (e : ev) (p : option Z) : ev :=
  mkEv (e_uid e) (e_ph e) (e_name e) (e_ts e) (e_dur e) p (e_args e) (e_attr e).
Definition with_args (e : ev) (a : option adict) : ev :=
  mkEv (e_uid e) (e_ph e) (e_name e) (e_ts e) (e_dur e) (e_pid e) a (e_attr e).
Definition with_attr (e : ev) (a : option adict) : ev :=
  mkEv (e_uid e) (e_ph e) (e_name e) (e_ts e) (e_dur e) (e_pid e) (e_args e) a.

(* Python `s in t` on strings *)
Fixpoint substr (s t : string) : bool :=
  prefix s t || match t with EmptyString => false | String _ t' => substr s t' end.

Definition KEYERR : string := "KeyError".
Definition ASSERT : string := "AssertionError".

Inductive res (A : Type) : Type := Ok (a : A) | Er (tag : string).
Arguments Ok {A} a.
Arguments Er {A} tag.

(* the dict event[the_args] *)
Definition the_dict (use_attr : bool) (e : ev) : option adict := if use_attr then e_attr e else e_args e.
Definition with_dict (use_attr : bool) (e : ev) (d : adict) : ev :=
  if use_attr then with_attr e (Some d) else with_args e (Some d).

(* _rank_device_annotation, FLEX branch; returns the event and the file's rank_pid *)
Definition annotate (use_attr : bool) (rank : Z) (e : ev) : res (ev * Z) :=
  match (if rank =? -1 then e_pid e else Some rank) with
  | None => Er KEYERR                                   (* event["pid"] *)
  | Some rk =>
      (* event.setdefault(the_args, {})["rank"] = rank_pid : an M/b/e/i event without an args dict gets a
         fresh one holding only the rank *)
      let d := match the_dict use_attr e with Some d => d | None => (None, None) end in
      let e1 := with_dict use_attr e (Some rk, snd d) in
      Ok (if 0 <=? rk then with_pid e1 (Some rk) else e1, rk)
  end.

Definition no_job_ph : list string := ["F"; "f"; "s"; "t"; "C"; "M"]%string.
Definition is_some {A} (o : option A) : bool := match o with Some _ => true | None => false end.

(* updated_event (scale = 1.0) *)
Definition updated (job rank : Z) (e : ev) : res (ev * Z) :=
  match e_ph e with
  | None => Er KEYERR
  | Some ph =>
      if negb (substr ph "XBE") then
        if substr ph "Mbei" then annotate false rank e else Ok (e, rank)
      else
        let use_attr := is_some (e_attr e) in
        let e0 := if use_attr || is_some (e_args e) then e else with_args e (Some (None, None)) in
        match annotate use_attr rank e0 with
        | Er t => Er t
        | Ok (e1, rk) =>
            match e_pid e1 with
            | None => Er KEYERR                          (* _pid_correction *)
            | Some _ =>
                if existsb (String.eqb ph) no_job_ph then Ok (e1, rk)
                else match the_dict use_attr e1 with
                     | Some d => Ok (with_dict use_attr e1 (fst d, Some job), rk)   (* _tid_correction *)
                     | None => Er KEYERR
                     end
            end
        end
  end.

(* double(1e-9) as an exact rational: math.isclose(dur, 0.0, abs_tol=1e-9) <-> |dur| <= double(1e-9) *)
Definition TOL : Q := 4835703278458517 # 4835703278458516698824704.

Inductive sane_res := Keep | SkipZero | SkipNeg.
Definition sane (e : ev) : sane_res :=
  match e_dur e with
  | None => Keep
  | Some d => if Qlt_b d 0 then SkipNeg else if Qle_b d TOL then SkipZero else Keep
  end.

(* one JsonFileEventTraceIngest: job id, rank_pid, the two warning counters, unread events *)
Record fstate : Type := mkF { f_job : Z; f_rank : Z; f_zero : Z; f_neg : Z; f_rest : list ev }.

Inductive nres := NEv (e : ev) | NStop | NErr (tag : string).

Definition ph_of (e : ev) : string := match e_ph e with Some p => p | None => EmptyString end.

(* JsonEventTraceIngest.__next__ : build_complete_event until it returns an event.
   [opn] is the local open_event of build_complete_event (pending_close = True): one raw event is
   consumed per recursion step. *)
Fixpoint fnext_o (job rank zero neg : Z) (opn : option ev) (l : list ev) {struct l} : nres * fstate :=
  match l with
  | [] => (NStop, mkF job rank zero neg [])                  (* also: trailing B silently dropped *)
  | x :: r =>
      match updated job rank x with                          (* get_next_event *)
      | Er t => (NErr t, mkF job rank zero neg r)
      | Ok (x1, rk) =>
          match opn with
          | None =>
              let ph := ph_of x1 in
              if negb (substr ph "BE") then
                if String.eqb ph "M" then (NEv x1, mkF job rk zero neg r)
                else match sane x1 with
                     | Keep => (NEv x1, mkF job rk zero neg r)
                     | SkipZero => fnext_o job rk (zero + 1) neg None r
                     | SkipNeg => fnext_o job rk zero (neg + 1) None r
                     end
              else if String.eqb ph "B" then fnext_o job rk zero neg (Some x1) r
              else (NErr ASSERT, mkF job rk zero neg r)      (* E (or "", "BE") without open B *)
          | Some b =>
              match e_name b, e_name x1 with
              | Some nb, Some ny =>
                  if negb (String.eqb nb ny) then (NErr ASSERT, mkF job rk zero neg r)
                  else if String.eqb (ph_of x1) "E" then
                    match e_ts x1, e_ts b with
                    | Some ty, Some tx =>
                        let o := with_dur (with_ph b (Some "X"%string)) (Some (ty - tx)%Q) in
                        match sane o with
                        | Keep => (NEv o, mkF job rk zero neg r)
                        | SkipZero => fnext_o job rk (zero + 1) neg None r
                        | SkipNeg => fnext_o job rk zero (neg + 1) None r
                        end
                    | _, _ => (NErr KEYERR, mkF job rk zero neg r)
                    end
                  else (NErr ASSERT, mkF job rk zero neg r)
              | _, _ => (NErr KEYERR, mkF job rk zero neg r)
              end
          end
      end
  end.
Definition fnext (job rank zero neg : Z) (l : list ev) : nres * fstate := fnext_o job rank zero neg None l.

Definition fnext_st (s : fstate) : nres * fstate :=
  fnext (f_job s) (f_rank s) (f_zero s) (f_neg s) (f_rest s).

(* ---------------------------------------------------------------- MultifileIngest *)
Definition item : Type := (ev * nat)%type.          (* event and index of the ingester it came from *)
(* the sort key of update_event_front: event["ts"] if present, else -math.inf.  An absent ts is the
   least key (None below every Some t), not a number. *)
Definition key (e : ev) : option Q := e_ts e.
Definition key_leb (a b : option Q) : bool :=
  match a, b with
  | None, _ => true                       (* -inf <= anything *)
  | Some _, None => false
  | Some x, Some y => Qle_bool x y
  end.
(* order of event_front after sort(reverse=True, key=ts or -inf) *)
Definition leb_desc (a b : item) : bool := key_leb (key (fst b)) (key (fst a)).
(* update_event_front: append, then stable sort *)
Definition push_front (x : item) (front : list item) : list item := isort leb_desc (front ++ [x]).
(* list.pop(): the LAST element *)
Definition pop (front : list item) : option (item * list item) :=
  match rev front with [] => None | x :: r => Some (x, rev r) end.

Fixpoint upd {A} (i : nat) (x : A) (l : list A) : list A :=
  match l, i with
  | [], _ => []
  | _ :: r, O => x :: r
  | y :: r, S i' => y :: upd i' x r
  end.

Definition F0 : fstate := mkF 0 (-1) 0 0 [].

(* try: refill = ingesters[i].__next__(); update_event_front(refill, i)
   except StopIteration: disable_ingest(i)           (shared by __iter__ and __next__) *)
Definition refill (i : nat) (front : list item) (fs : list fstate) (en : list bool)
  : res (list item * list fstate * list bool) :=
  match fnext_st (nth i fs F0) with
  | (NEv x, s') => Ok (push_front (x, i) front, upd i s' fs, en)
  | (NStop, s') => Ok (front, upd i s' fs, upd i false en)
  | (NErr t, _) => Er t
  end.

Inductive step_res :=
| Stop
| Lost (front : list item)                                  (* popped event of a disabled file: dropped *)
| Emit (it : item) (front : list item) (fs : list fstate) (en : list bool)
| Fail (tag : string).

(* one pass of the `while True` body of MultifileIngest.__next__ *)
Definition step (front : list item) (fs : list fstate) (en : list bool) : step_res :=
  match pop front with
  | None => Stop
  | Some ((e, i), front') =>
      if nth i en false then
        match refill i front' fs en with
        | Ok (front2, fs2, en2) => Emit (e, i) front2 fs2 en2
        | Er t => Fail t
        end
      else Lost front'
  end.

Inductive status := Done | Failed (tag : string) | OutOfFuel.

(* all __next__ calls until StopIteration / exception *)
Fixpoint run (fuel : nat) (front : list item) (fs : list fstate) (en : list bool)
  : list item * status * list fstate :=
  match fuel with
  | O => ([], OutOfFuel, fs)
  | S f =>
      match step front fs en with
      | Stop => ([], Done, fs)
      | Lost front' => run f front' fs en
      | Emit it front' fs' en' =>
          let '(o, s, ff) := run f front' fs' en' in (it :: o, s, ff)
      | Fail t => ([], Failed t, fs)
      end
  end.

(* MultifileIngest.__iter__ *)
Fixpoint prefill (idxs : list nat) (front : list item) (fs : list fstate) (en : list bool)
  : res (list item * list fstate * list bool) :=
  match idxs with
  | [] => Ok (front, fs, en)
  | i :: r =>
      match refill i front fs en with
      | Ok (front2, fs2, en2) => prefill r front2 fs2 en2
      | Er t => Er t
      end
  end.

(* an input file as the harness wrote it: job id (crc32(path) mod 10000), preset rank
   (distributedInfo.rank, else -1), "already processed by acelyzer" marker, events *)
Record file : Type := mkFile { fl_job : Z; fl_rank0 : Z; fl_processed : bool; fl_evs : list ev }.

Definition init_file (f : file) : fstate :=
  mkF (fl_job f) (fl_rank0 f) 0 0 (if fl_processed f then [] else fl_evs f).

Definition total_len (fs : list fstate) : nat :=
  fold_right (fun s n => (List.length (f_rest s) + n)%nat) O fs.
Definition fuel_of (fs : list fstate) : nat := S (total_len fs + List.length fs).

Definition multi (files : list file) : list item * status * list fstate :=
  let fs := map init_file files in
  match prefill (seq 0 (List.length fs)) [] fs (repeat true (List.length fs)) with
  | Er t => ([], Failed t, fs)
  | Ok (front, fs', en) => run (fuel_of fs) front fs' en
  end.

(* ---------------------------------------------------------------- specification-level definitions
   the complete stream of one per-file iterator: all events it yields until StopIteration or an
   exception, with the final state (same case tree as fnext_o, continuing after an emission) *)
Inductive fend := EStop | EErr (tag : string).
Definition consE (e : ev) (p : list ev * fend * fstate) : list ev * fend * fstate :=
  let '(o, r, sf) := p in (e :: o, r, sf).
Fixpoint fstream_o (job rank zero neg : Z) (opn : option ev) (l : list ev) {struct l}
  : list ev * fend * fstate :=
  match l with
  | [] => ([], EStop, mkF job rank zero neg [])
  | x :: r =>
      match updated job rank x with
      | Er t => ([], EErr t, mkF job rank zero neg r)
      | Ok (x1, rk) =>
          match opn with
          | None =>
              let ph := ph_of x1 in
              if negb (substr ph "BE") then
                if String.eqb ph "M" then consE x1 (fstream_o job rk zero neg None r)
                else match sane x1 with
                     | Keep => consE x1 (fstream_o job rk zero neg None r)
                     | SkipZero => fstream_o job rk (zero + 1) neg None r
                     | SkipNeg => fstream_o job rk zero (neg + 1) None r
                     end
              else if String.eqb ph "B" then fstream_o job rk zero neg (Some x1) r
              else ([], EErr ASSERT, mkF job rk zero neg r)
          | Some b =>
              match e_name b, e_name x1 with
              | Some nb, Some ny =>
                  if negb (String.eqb nb ny) then ([], EErr ASSERT, mkF job rk zero neg r)
                  else if String.eqb (ph_of x1) "E" then
                    match e_ts x1, e_ts b with
                    | Some ty, Some tx =>
                        let o := with_dur (with_ph b (Some "X"%string)) (Some (ty - tx)%Q) in
                        match sane o with
                        | Keep => consE o (fstream_o job rk zero neg None r)
                        | SkipZero => fstream_o job rk (zero + 1) neg None r
                        | SkipNeg => fstream_o job rk zero (neg + 1) None r
                        end
                    | _, _ => ([], EErr KEYERR, mkF job rk zero neg r)
                    end
                  else ([], EErr ASSERT, mkF job rk zero neg r)
              | _, _ => ([], EErr KEYERR, mkF job rk zero neg r)
              end
          end
      end
  end.
Definition fstream_st (s : fstate) : list ev * fend * fstate :=
  fstream_o (f_job s) (f_rank s) (f_zero s) (f_neg s) None (f_rest s).
Definition file_events (s : fstate) : list ev := fst (fst (fstream_st s)).
Definition file_end (s : fstate) : fend := snd (fst (fstream_st s)).
Definition file_final (s : fstate) : fstate := snd (fstream_st s).

(* the ts values of the events that have one, in order (what "ordered by ts" speaks about) *)
Fixpoint timed (l : list ev) : list Q :=
  match l with
  | [] => []
  | e :: r => match e_ts e with Some t => t :: timed r | None => timed r end
  end.

(* well-formed files of the property's domain as token lists: X slice, adjacent B/E pair, metadata
   (M; also the other annotated pass-through events: instant i, async b/e without dur), other
   (counter) event *)
Inductive token := TX (x : ev) | TBE (b e : ev) | TM (m : ev) | TO (o : ev).
Definition tok_raw (t : token) : list ev :=
  match t with TX x => [x] | TBE b e => [b; e] | TM m => [m] | TO o => [o] end.
Definition flatten (ts : list token) : list ev := flat_map tok_raw ts.
Definition ph_is (e : ev) (p : string) : bool := match e_ph e with Some q => String.eqb q p | None => false end.
Definition wf_tok (t : token) : bool :=
  match t with
  | TX x => ph_is x "X" && is_some (e_pid x) && is_some (e_dur x)
  | TBE b e => ph_is b "B" && ph_is e "E" && is_some (e_pid b) && is_some (e_pid e) &&
               match e_name b, e_name e with Some n, Some n' => String.eqb n n' | _, _ => false end &&
               is_some (e_ts b) && is_some (e_ts e)
  | TM m => (ph_is m "M" || (ph_is m "i" || ph_is m "b" || ph_is m "e") && negb (is_some (e_dur m))) &&
            is_some (e_pid m)                  (* with or without an args dict *)
  | TO o => ph_is o "C" && negb (is_some (e_dur o))
  end.
(* what the property speaks about: identity, phase, name, ts, dur *)
Definition core (e : ev) : Z * option string * option string * option Q * option Q :=
  (e_uid e, e_ph e, e_name e, e_ts e, e_dur e).
Definition dur_class (d : Q) : sane_res :=
  if Qlt_b d 0 then SkipNeg else if Qle_b d TOL then SkipZero else Keep.
Definition tok_dur (t : token) : option Q :=
  match t with
  | TX x => e_dur x
  | TBE b e => match e_ts e, e_ts b with Some te, Some tb => Some (te - tb)%Q | _, _ => None end
  | _ => None
  end.
Definition tok_class (t : token) : sane_res := match tok_dur t with Some d => dur_class d | None => Keep end.
Definition tok_out (t : token) : Z * option string * option string * option Q * option Q :=
  match t with
  | TX x => core x
  | TBE b e => (e_uid b, Some "X"%string, e_name b, e_ts b, tok_dur t)
  | TM m => core m
  | TO o => core o
  end.
Definition is_keep (t : token) : bool := match tok_class t with Keep => true | _ => false end.
Definition is_zero (t : token) : bool := match tok_class t with SkipZero => true | _ => false end.
Definition is_neg (t : token) : bool := match tok_class t with SkipNeg => true | _ => false end.
Definition expected (ts : list token) := map tok_out (filter is_keep ts).
Definition count (p : token -> bool) (ts : list token) : Z := Z.of_nat (List.length (filter p ts)).

(* rank attribution: the dict that _rank_device_annotation writes into, and the rank found there *)
Definition ann_dict (e : ev) : option adict :=
  if substr (ph_of e) "XBE" then (if is_some (e_attr e) then e_attr e else e_args e) else e_args e.
Definition ann_rank (e : ev) : option Z := match ann_dict e with Some (r, _) => r | None => None end.
Definition annotated (e : ev) : bool := negb (String.eqb (ph_of e) "C").
Definition latch (rank pid : Z) : Z := if rank =? -1 then pid else rank.
Definition pid_or (e : ev) : Z := match e_pid e with Some p => p | None => -1 end.
(* rank_pid after the first annotated event of a token list *)
Fixpoint first_rank (rank0 : Z) (ts : list token) : Z :=
  match ts with
  | [] => rank0
  | TO _ :: r => first_rank rank0 r
  | TX x :: _ => latch rank0 (pid_or x)
  | TBE b _ :: _ => latch rank0 (pid_or b)
  | TM m :: _ => latch rank0 (pid_or m)
  end.

(* ---------------------------------------------------------------- encoders for the tie *)
Definition adict_val (d : option adict) : val :=
  match d with None => VN | Some (r, j) => VL [Vopt VZ r; Vopt VZ j] end.
Definition ev_val (e : ev) : val :=
  VL [VZ (e_uid e); Vopt VS (e_ph e); Vopt VS (e_name e); Vopt VQ (e_ts e); Vopt VQ (e_dur e);
      Vopt VZ (e_pid e); adict_val (e_args e); adict_val (e_attr e)].
Definition fstate_val (s : fstate) : val := VL [VZ (f_zero s); VZ (f_neg s); VZ (f_rank s)].

(* what the tie compares: [events in emission order; per-file (zero count, negative count, rank_pid)]
   or [events emitted before the exception; error class] *)
Definition ingest_val (files : list file) : val :=
  let '(o, s, ff) := multi files in
  VL [VL (map (fun it => ev_val (fst it)) o);
      match s with
      | Done => VL (map fstate_val ff)
      | Failed t => VE t
      | OutOfFuel => VE "OutOfFuel"
      end].

(* non-triviality rule measured inside Coq: at least two files yield at least one event *)
Definition yields (f : file) : bool :=
  match fnext_st (init_file f) with (NEv _, _) => true | _ => false end.
Definition nontrivial (c : list file * val) : bool :=
  (2 <=? Z.of_nat (List.length (filter yields (fst c)))).
