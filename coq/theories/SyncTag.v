(* The sync tag of an event name, as Flow.find_sync (= coll_group.py::_sync_pattern, first element of findall) reads it:
   for EVERY name of the shape   <front> [sync=<tag>]<rest>   whose front has no opening bracket and whose tag has no
   closing bracket, the tag is found exactly - whatever the rest is (a size tag "[65536B]", a phase word, more
   brackets).  This is the statement behind the repair of the size-tag defect (74a044f): with the former greedy pattern
   the claim was false for rest = " [65536B] DmaI". *)
From Coq Require Import String Ascii List Bool.
From AiuModel Require Import Flow.
Local Open Scope string_scope.

Fixpoint has_char (c : ascii) (s : string) : bool :=
  match s with
  | EmptyString => false
  | String a r => Ascii.eqb a c || has_char c r
  end.

Lemma prefix_app p r : String.prefix p (p ++ r) = true.
Proof.
  induction p as [|a p IH]; cbn; [destruct r; reflexivity|].
  destruct (ascii_dec a a) as [_|Hn]; [exact IH|contradiction].
Qed.

Lemma sdrop_app p r : sdrop (String.length p) (p ++ r) = r.
Proof. induction p as [|a p IH]; cbn; [reflexivity|exact IH]. Qed.

Lemma after_first_unfold p s :
  after_first p s = if String.prefix p s then Some (sdrop (String.length p) s)
                    else match s with EmptyString => None | String _ r => after_first p r end.
Proof. destruct s; reflexivity. Qed.

Lemma after_first_here p r : after_first p (p ++ r) = Some r.
Proof. rewrite after_first_unfold, prefix_app, sdrop_app. reflexivity. Qed.

Definition pat : string := " [sync=".

(* no occurrence of the pattern starts inside a front that has no opening bracket *)
Lemma after_first_skip front r :
  has_char "[" front = false ->
  after_first pat (front ++ pat ++ r) = after_first pat (pat ++ r).
Proof.
  induction front as [|a f IH]; intros H; [reflexivity|].
  cbn in H. apply orb_false_iff in H. destruct H as [Ha Hf].
  change ((String a f) ++ pat ++ r) with (String a (f ++ pat ++ r)).
  rewrite after_first_unfold.
  assert (Hp : String.prefix pat (String a (f ++ pat ++ r)) = false).
  { unfold pat. cbn [String.prefix].
    destruct (ascii_dec " " a) as [<-|_]; [|reflexivity].
    destruct f as [|b f']; cbn [append String.prefix].
    - (* next character is the blank of the pattern, not a bracket *)
      destruct (ascii_dec "[" " ") as [E|_]; [discriminate E|reflexivity].
    - cbn in Hf. apply orb_false_iff in Hf. destruct Hf as [Hb _].
      destruct (ascii_dec "[" b) as [<-|_]; [|reflexivity].
      cbn in Hb. discriminate Hb. }
  rewrite Hp. apply IH. exact Hf.
Qed.

Lemma cut_first_tag tag rest :
  has_char "]" tag = false -> cut_first "]" (tag ++ "]" ++ rest) = Some tag.
Proof.
  induction tag as [|a t IH]; intros H.
  - cbn. reflexivity.
  - cbn in H. apply orb_false_iff in H. destruct H as [Ha Ht].
    change ((String a t) ++ "]" ++ rest) with (String a (t ++ "]" ++ rest)).
    cbn [cut_first]. rewrite Ha. rewrite (IH Ht). reflexivity.
Qed.

Theorem find_sync_reads_the_tag front tag rest :
  has_char "[" front = false -> has_char "]" tag = false ->
  find_sync (front ++ " [sync=" ++ tag ++ "]" ++ rest) = Some tag.
Proof.
  intros Hf Ht. unfold find_sync.
  change " [sync=" with pat.
  rewrite (after_first_skip front (tag ++ "]" ++ rest) Hf).
  rewrite after_first_here. apply cut_first_tag. exact Ht.
Qed.
