(* Stats.v — executable Gallina model of the kernel statistics stage, in exact rationals [Q].

   Code modelled (src/aiu_trace_analyzer, what it DOES today, quirks included):
     pipeline/stats.py::calculate_stats(event, context)                      -> [step] / [run]
         a kernel slice is an event with ph == "X" whose name CONTAINS "Cmpt Exec" (anywhere);
         its group key is (re.sub(r"[_-]\d+", "_[N]", name), pid)  -> [mask], [add_dur]
         (context.queue_hash = hash((name, pid)) is modelled as the pair itself: collision-free hash, trusted);
         args.TS1..TS5 are read BEFORE the duration assertion (missing -> KeyError), then
         "assert event_dur > 0.0" (-> AssertionError); nothing is stored when either is raised;
         every event (kernel or not) is returned unchanged: [event].
         Not modelled: the "PT Active" utilisation counter branch (collect_util; C11) and the four
         TSk+1 - TSk duration lists that feed <output>_ts_analysis.csv.
     pipeline/stats.py::StatsExtractionContext.update_min_ts / update_max_ts -> [upd] with the code's
         initial values 1e30 (min of starts) and 0.0 (max of ends): a rank whose slices all end below 0 gets
         end = 0.0, a start above 1e30 is reported as 1e30 (kept; the theorems say so).
     pipeline/stats.py::StatsExtractionContext.calculate_stats_using_event_duration -> [gstats]
         total = sum, calls = len, min, max, mean/median/stdev of the statistics module (sample stdev,
         0.0 for a single call); round(., 3) and the "%8.3f" formatting are [cell3] (round half to even
         of the exact value), stdev is [stdev_cell] (correctly rounded square root of the exact variance).
     pipeline/stats.py::StatsExtractionContext.drain                         -> [summary], [active]
         dict insertion order of the queues, "for pid in sorted(stats_list)", per pid a STABLE sort by
         descending total (sorted(..., reverse=True) keeps the original order of equal totals),
         Time = total / (rank total) * 100, rank total accumulated again over the sorted rows,
         elapsed = max_ts - min_ts, active = total / elapsed * 100.
     pipeline/tools.py::PipelineContextTool.generate_filename                 -> [gen_filename]

   Definitions only, plus the [val] encoders used by the correspondence (harness/props/c12.py);
   proofs are in Stats_proofs.v. *)
From Coq Require Import ZArith QArith Qabs Qround List Bool String Ascii.
Import ListNotations.
From AiuModel Require Import Base.
Local Open Scope Q_scope.

(* ---------------------------------------------------------------- strings *)
Definition is_digit (c : ascii) : bool :=
  let n := nat_of_ascii c in (Nat.leb 48 n && Nat.leb n 57)%bool.
Definition is_sep (c : ascii) : bool := (Ascii.eqb c "_" || Ascii.eqb c "-")%bool.
Definition starts_digit (s : string) : bool :=
  match s with String c _ => is_digit c | EmptyString => false end.

(* re.sub(r"[_-]\d+", "_[N]", s): leftmost non-overlapping matches, \d+ greedy.
   [skip] = we are inside the digit run of a match that has already been replaced. *)
Fixpoint mask_go (skip : bool) (s : string) : string :=
  match s with
  | EmptyString => EmptyString
  | String c r =>
      if (skip && is_digit c)%bool then mask_go true r
      else if (is_sep c && starts_digit r)%bool then ("_[N]" ++ mask_go true r)%string
      else String c (mask_go false r)
  end.
Definition mask (s : string) : string := mask_go false s.

(* "sub in s" *)
Fixpoint contains (sub s : string) : bool :=
  (String.prefix sub s ||
   match s with EmptyString => false | String _ r => contains sub r end)%bool.

(* ---------------------------------------------------------------- events, state *)
Record ev := mkEv {
  e_ph : string; e_name : string; e_pid : Z; e_ts : Q; e_dur : Q;
  e_tsx : bool;      (* args.TS1..TS5 all present and convertible by float() *)
  e_uid : Z }.       (* identity of the event object (observes the pass-through only) *)

Definition is_kernel (e : ev) : bool :=
  (String.eqb (e_ph e) "X" && contains "Cmpt Exec" (e_name e))%bool.

Definition key : Type := (string * Z)%type.
Definition key_eqb (a b : key) : bool := (String.eqb (fst a) (fst b) && Z.eqb (snd a) (snd b))%bool.
Definition ekey (e : ev) : key := (mask (e_name e), e_pid e).

Record grp := mkGrp { g_key : key; g_durs : list Q }.     (* durations in arrival order *)

Record state := mkSt {
  s_q : list grp;            (* context.queues, dict insertion order *)
  s_min : list (Z * Q);      (* min_ts_map *)
  s_max : list (Z * Q) }.    (* max_ts_map *)
Definition st0 : state := mkSt [] [] [].

Inductive sres (A : Type) := Ok (a : A) | Err (tag : string).
Arguments Ok {A} a.
Arguments Err {A} tag.

(* queues[qid][2].append(dur), creating the queue at the end of the dict on first sight *)
Fixpoint add_dur (k : key) (d : Q) (l : list grp) : list grp :=
  match l with
  | [] => [mkGrp k [d]]
  | g :: r => if key_eqb k (g_key g) then mkGrp (g_key g) (g_durs g ++ [d]) :: r
              else g :: add_dur k d r
  end.

(* map[pid] = f(map.get(pid, init)) with dict insertion order *)
Fixpoint upd (f : Q -> Q) (init : Q) (p : Z) (l : list (Z * Q)) : list (Z * Q) :=
  match l with
  | [] => [(p, f init)]
  | (p', v) :: r => if Z.eqb p p' then (p', f v) :: r else (p', v) :: upd f init p r
  end.
Fixpoint lookup (p : Z) (l : list (Z * Q)) : option Q :=
  match l with
  | [] => None
  | (p', v) :: r => if Z.eqb p p' then Some v else lookup p r
  end.

(* float literal 1e30 is exactly this integer *)
Definition BIG : Q := inject_Z 1000000000000000019884624838656.

Definition e_end (e : ev) : Q := e_ts e + e_dur e.

Definition step (s : state) (e : ev) : sres state :=
  if is_kernel e then
    if negb (e_tsx e) then Err "KeyError"
    else if Qle_bool (e_dur e) 0 then Err "AssertionError"
    else Ok (mkSt (add_dur (ekey e) (e_dur e) (s_q s))
                  (upd (fun v => Qmin v (e_ts e)) BIG (e_pid e) (s_min s))
                  (upd (fun v => Qmax v (e_end e)) 0 (e_pid e) (s_max s)))
  else Ok s.

(* the stage over a whole stream; the first exception aborts the run *)
Fixpoint run_from (s : state) (evs : list ev) : sres state :=
  match evs with
  | [] => Ok s
  | e :: r => match step s e with Ok s' => run_from s' r | Err t => Err t end
  end.
Definition run (evs : list ev) : sres state := run_from st0 evs.

(* ---------------------------------------------------------------- per-group statistics *)
Fixpoint qsum (l : list Q) : Q := match l with [] => 0 | x :: r => x + qsum r end.
Definition qlen (l : list Q) : Q := inject_Z (Z.of_nat (List.length l)).

(* min(list) / max(list); the lists are never empty (a group is created together with its first duration) *)
Definition lmin (l : list Q) : Q := match l with [] => 0 | x :: r => fold_left Qmin r x end.
Definition lmax (l : list Q) : Q := match l with [] => 0 | x :: r => fold_left Qmax r x end.

Definition mean (l : list Q) : Q := qsum l / qlen l.

(* statistics.median: middle of the sorted data, mean of the two middle values for even length *)
Definition median (l : list Q) : Q :=
  let s := isort Qle_b l in
  let n := List.length l in
  if Nat.even n then (nth (Nat.div2 n - 1) s 0 + nth (Nat.div2 n) s 0) / 2
  else nth (Nat.div2 n) s 0.

(* statistics.variance (sample variance, exact); the code uses 0.0 for a single call *)
Definition sqdev (l : list Q) : Q := let m := mean l in qsum (map (fun d => (d - m) * (d - m)) l).
Definition variance (l : list Q) : Q :=
  match l with
  | _ :: _ :: _ => sqdev l / (qlen l - 1)
  | _ => 0
  end.

Record gstat := mkGs {
  gs_key : key; gs_total : Q; gs_calls : Z; gs_mean : Q; gs_median : Q; gs_min : Q; gs_max : Q; gs_var : Q }.

Definition gstats (g : grp) : gstat :=
  let d := g_durs g in
  mkGs (g_key g) (qsum d) (Z.of_nat (List.length d)) (mean d) (median d) (lmin d) (lmax d) (variance d).

(* ---------------------------------------------------------------- drain *)
(* keys of stats_list in creation order: pids in order of their first group *)
Fixpoint nodup_first (seen : list Z) (l : list Z) : list Z :=
  match l with
  | [] => []
  | p :: r => if existsb (Z.eqb p) seen then nodup_first seen r else p :: nodup_first (p :: seen) r
  end.
Definition pids_of (q : list grp) : list Z := isort Z.leb (nodup_first [] (map (fun g => snd (g_key g)) q)).

Definition of_pid (p : Z) (q : list grp) : list grp := filter (fun g => Z.eqb (snd (g_key g)) p) q.

(* sorted(rows, key=total, reverse=True): stable, descending *)
Definition desc_total (a b : gstat) : bool := Qle_b (gs_total b) (gs_total a).

Record row := mkRow { r_pid : Z; r_share : Q; r_gs : gstat }.

Definition rows_of_pid (q : list grp) (p : Z) : list row :=
  let gs := map gstats (of_pid p q) in
  let tot := qsum (map gs_total gs) in                     (* total_times[pid] *)
  map (fun s => mkRow p (gs_total s / tot * 100) s) (isort desc_total gs).

Definition summary (s : state) : list row := flat_map (rows_of_pid (s_q s)) (pids_of (s_q s)).

Record arow := mkAct { a_pid : Z; a_total : Q; a_elapsed : Q; a_start : Q; a_end : Q; a_active : Q }.

Definition get (p : Z) (l : list (Z * Q)) : Q := match lookup p l with Some v => v | None => 0 end.

Definition active_of_pid (s : state) (p : Z) : arow :=
  let tot := qsum (map (fun r => gs_total (r_gs r)) (rows_of_pid (s_q s) p)) in   (* total_compute_time *)
  let mn := get p (s_min s) in
  let mx := get p (s_max s) in
  mkAct p tot (mx - mn) mn mx (tot / (mx - mn) * 100).

Definition active (s : state) : list arow := map (active_of_pid s) (pids_of (s_q s)).

(* ---------------------------------------------------------------- printed cells *)
(* round half to even of an exact rational: what "%.Nf" (and round(x, N) followed by "%.Nf") print for a
   double whose exact value is q * 10^-N *)
Definition rhe (q : Q) : Z :=
  let f := Qfloor q in
  match Qcompare (q - inject_Z f) (1 # 2) with
  | Lt => f
  | Gt => (f + 1)%Z
  | Eq => if Z.even f then f else (f + 1)%Z
  end.
Definition cell3 (q : Q) : Z := rhe (q * 1000).      (* thousandths *)
Definition cell2 (q : Q) : Z := rhe (q * 100).       (* hundredths *)

(* thousandths of the correctly rounded square root of a variance v >= 0:
   s = floor(1000 sqrt v) = Z.sqrt (floor (10^6 v)); round up iff 1000 sqrt v > s + 1/2 iff 4*10^6 v > (2s+1)^2 *)
Definition stdev_cell (v : Q) : Z :=
  let x := v * 1000000 in
  let s := Z.sqrt (Qfloor x) in
  match Qcompare (4 * x) (inject_Z ((2 * s + 1) * (2 * s + 1))) with
  | Lt => s
  | Gt => (s + 1)%Z
  | Eq => if Z.even s then s else (s + 1)%Z
  end.

(* a printed cell c (in units of the last printed digit) agrees with the exact value x (same units) when it is
   a correct rounding of x up to 1/1000 of a unit: the code computes means, shares and active percentages with
   two or three double operations, which can land on the other side of a rounding midpoint *)
Definition near (c : Z) (x : Q) : bool := Qle_bool (Qabs (inject_Z c - x)) ((1 # 2) + (1 # 1000)).
(* the same for a square root: |c - 1000 sqrt v| <= 1/2 + 1/1000, squared *)
Definition near_sqrt (c : Z) (v : Q) : bool :=
  let x := v * 1000000 in
  let hi := inject_Z c + (1 # 2) + (1 # 1000) in
  let lo := inject_Z c - (1 # 2) - (1 # 1000) in
  (Z.leb 0 c && Qle_bool x (hi * hi) && (Qle_bool lo 0 || Qle_bool (lo * lo) x))%bool.

(* ---------------------------------------------------------------- encoders / the tie *)
(* exactly printed cells of one summary row: pid, name, calls, total, median, min, max (the exact-grid stream
   makes these doubles exact) *)
Definition row_val (r : row) : val :=
  let s := r_gs r in
  VL [VZ (r_pid r); VS (fst (gs_key s)); VZ (gs_calls s); VZ (cell3 (gs_total s)); VZ (cell3 (gs_median s));
      VZ (cell3 (gs_min s)); VZ (cell3 (gs_max s))].
Definition arow_val (a : arow) : val :=
  VL [VZ (a_pid a); VZ (cell3 (a_total a)); VZ (cell3 (a_elapsed a)); VZ (cell3 (a_start a)); VZ (cell3 (a_end a))].

(* observed Time / Mean / StDev cells of a summary row and Active cell of an active row, checked with [near] *)
Definition row_near (r : row) (o : Z * Z * Z) : bool :=
  let '(t, m, sd) := o in
  (near t (r_share r * 100) && near m (gs_mean (r_gs r) * 1000) && near_sqrt sd (gs_var (r_gs r)))%bool.
Fixpoint all2 {A B} (f : A -> B -> bool) (l : list A) (m : list B) : bool :=
  match l, m with
  | [], [] => true
  | x :: l', y :: m' => (f x y && all2 f l' m')%bool
  | _, _ => false
  end.

(* the model's own rendering of the rounded cells (used by the examples and by the exact part of the tie) *)
Definition row_cells (r : row) : list Z :=
  [cell2 (r_share r); cell3 (gs_mean (r_gs r)); stdev_cell (gs_var (r_gs r))].

(* [canon] = rows compared as a set (sorted by (pid, name)): used end to end, where the order in which the slices
   reach the stage - hence the order of rows with equal totals - cannot be read off the exported file *)
Definition row_key_leb (a b : row) : bool :=
  (Z.ltb (r_pid a) (r_pid b) ||
   (Z.eqb (r_pid a) (r_pid b) && String.leb (fst (gs_key (r_gs a))) (fst (gs_key (r_gs b)))))%bool.

Definition tie_gen (canon : bool) (c : list ev * (list (Z * Z * Z) * list Z)) : val :=
  let '(evs, (osum, oact)) := c in
  match run evs with
  | Err t => VE t
  | Ok s =>
      let rs := if canon then isort row_key_leb (summary s) else summary s in
      let acts := active s in
      VL [VL (map (fun e => VZ (e_uid e)) evs);                (* every event is passed on: [event] *)
          VL (map row_val rs); VL (map arow_val acts);
          VB (all2 row_near rs osum && all2 (fun a o => near o (a_active a * 100)) acts oact)]
  end.
Definition tie_val := tie_gen false.
Definition e2e_val := tie_gen true.

(* full model rendering, independent of observed cells (for examples / debugging) *)
Definition render (evs : list ev) : val :=
  match run evs with
  | Err t => VE t
  | Ok s => VL [VL (map (fun r => VL [row_val r; VLz (row_cells r)]) (summary s));
                VL (map (fun a => VL [arow_val a; VZ (cell2 (a_active a))]) (active s))]
  end.

(* names: the queue name calculate_stats creates for an X event of that name (None: not a kernel slice) *)
Definition name_val (s : string) : val := if contains "Cmpt Exec" s then VS (mask s) else VN.

(* ---------------------------------------------------------------- generate_filename *)
(* str.replace(pat, ""): non-overlapping occurrences, left to right; [skip] characters of a match remain *)
Fixpoint remove_go (pat : string) (skip : nat) (s : string) : string :=
  match s with
  | EmptyString => EmptyString
  | String c r =>
      match skip with
      | S k => remove_go pat k r
      | O => if String.prefix pat s then remove_go pat (String.length pat - 1) r
             else String c (remove_go pat 0 r)
      end
  end.
Fixpoint has_dot (s : string) : bool :=
  match s with EmptyString => false | String c r => (Ascii.eqb c "." || has_dot r)%bool end.
(* '.'.join(fname.split('.')[:-1]) if there is a dot, else fname *)
Fixpoint before_last_dot (s : string) : string :=
  match s with
  | EmptyString => EmptyString
  | String c r => if has_dot r then String c (before_last_dot r)
                  else if Ascii.eqb c "." then EmptyString else String c (before_last_dot r)
  end.
Fixpoint has_slash (s : string) : bool :=
  match s with EmptyString => false | String c r => (Ascii.eqb c "/" || has_slash r)%bool end.
(* fname[:fname.rfind('/')+1], fname[fname.rfind('/')+1:] *)
Fixpoint split_dir (s : string) : string * string :=
  match s with
  | EmptyString => (EmptyString, EmptyString)
  | String c r => if has_slash r then let '(d, b) := split_dir r in (String c d, b)
                  else if Ascii.eqb c "/" then (String c EmptyString, r) else (EmptyString, s)
  end.
(* only the file name takes part: a '.' in a directory name is not an extension (fix C12b) *)
Definition gen_filename (fname purpose ext : string) : string :=
  let '(d, b) := split_dir (remove_go ".pt.trace" 0 fname) in
  (d ++ before_last_dot b ++ "_" ++ purpose ++ "." ++ ext)%string.
Definition fname_val (c : string * string * string) : val :=
  let '(f, p, e) := c in VS (gen_filename f p e).
