(* PowerStats.v — executable Gallina model of src/aiu_trace_analyzer/pipeline/power_stats.py
   (stage enabled by --power-stats), in exact rationals [Q].

   Modelled functions (what the code DOES today, quirks included):
     analyze_power_statistics(event, context)            -> [step] / [run_events]
         quirks kept: an event whose ts is missing or 0 is ignored ("if not ts"); the pid is never
         looked at (samples of all ranks go into one timeline); a Power sample whose ts is not
         greater than the previous sample's ts produces no period but still REPLACES the previous
         sample; a "C"/"Power" event without args.Watts is ignored; a kernel is an "X" event whose
         name CONTAINS "Cmpt Exec" and whose dur (default 0) is > 0.
     PowerStatisticsContext._merge_periods(periods)      -> [merge_periods]
     PowerStatisticsContext._split_power_period(...)     -> [split_period]
     PowerStatisticsContext._compute_weighted_stats(...) -> [wstats]
     PowerStatisticsContext.drain()                      -> [drain]  (the two groups and their stats;
         the "%.2f" formatting of the log lines is outside the model)

   Definitions only (plus the [val] encoders used by the correspondence, harness/props/c19.py);
   the proofs are in PowerStats_proofs.v. *)
From Coq Require Import ZArith QArith Qabs List Bool String Ascii.
Import ListNotations.
From AiuModel Require Import Base.
Local Open Scope Q_scope.

Definition period : Type := (Q * Q)%type.            (* (start, end) *)
Definition pperiod : Type := (Q * Q * Q)%type.       (* (start, end, watts) *)
Definition seg : Type := (Q * Q * bool)%type.        (* (duration, watts, has_kernel) *)
Definition wseg : Type := (Q * Q)%type.              (* (duration, watts) *)

(* Python's max(a, b) / min(a, b): the second argument wins only if strictly greater / smaller *)
Definition pymax (a b : Q) : Q := if Qlt_b a b then b else a.
Definition pymin (a b : Q) : Q := if Qlt_b b a then b else a.

Fixpoint qsum (l : list Q) : Q :=
  match l with [] => 0 | x :: r => x + qsum r end.

(* ---------------------------------------------------------------- _merge_periods *)
(* tuple comparison (start, end) <= (start', end') used by sorted(periods) *)
Definition period_leb (a b : period) : bool :=
  Qlt_b (fst a) (fst b) || (Qeq_b (fst a) (fst b) && Qle_b (snd a) (snd b)).

(* the loop over sorted_periods[1:]; [cur] is merged[-1], everything before it is final *)
Fixpoint merge_go (cur : period) (rest : list period) : list period :=
  match rest with
  | [] => [cur]
  | (s, e) :: r =>
      if Qle_b s (snd cur) then merge_go (fst cur, pymax (snd cur) e) r
      else cur :: merge_go (s, e) r
  end.

Definition merge_periods (ps : list period) : list period :=
  match isort period_leb ps with
  | [] => []
  | h :: t => merge_go h t
  end.

(* ---------------------------------------------------------------- _split_power_period *)
(* the loop over kernel_timeline with current_pos = [cur]; segments in emission order *)
Fixpoint split_go (ps pe p cur : Q) (tl : list period) : list seg :=
  match tl with
  | [] => if Qlt_b cur pe then [(pe - cur, p, false)] else []
  | (ks, ke) :: r =>
      if Qle_b ke ps || Qle_b pe ks then split_go ps pe p cur r
      else
        let os := pymax ps ks in
        let oe := pymin pe ke in
        (if Qlt_b cur os then [(os - cur, p, false)] else [])
          ++ (oe - os, p, true) :: split_go ps pe p oe r
  end.

Definition split_period (ps pe p : Q) (tl : list period) : list seg := split_go ps pe p ps tl.

(* ---------------------------------------------------------------- _compute_weighted_stats *)
Record stats := mkStats {
  s_min_nz : Q; s_max : Q; s_mean_nz : Q; s_median_nz : Q; s_avg_total : Q;
  s_dur_total : Q; s_dur_nz : Q }.

Definition durs (l : list wseg) : list Q := map fst l.
Definition wsum (l : list wseg) : Q := qsum (map (fun s => fst s * snd s) l).
Definition nonzero (l : list wseg) : list wseg := filter (fun s => Qlt_b 0 (snd s)) l.

(* min(list) / max(list) of a non-empty list given as head and tail *)
Definition list_min (h : Q) (t : list Q) : Q := fold_left pymin t h.
Definition list_max (h : Q) (t : list Q) : Q := fold_left pymax t h.

(* "for dur, power in sorted_segments: cumulative += dur; if cumulative >= half: median = power; break"
   (0 is the initial value of median_non_zero) *)
Fixpoint median_go (half cum : Q) (l : list wseg) : Q :=
  match l with
  | [] => 0
  | (d, p) :: r => let c := cum + d in if Qle_b half c then p else median_go half c r
  end.

Definition power_leb (a b : wseg) : bool := Qle_b (snd a) (snd b).   (* sorted(key=lambda x: x[1]), stable *)

Definition wstats (segs : list wseg) : option stats :=
  match segs with
  | [] => None
  | s0 :: srest =>
      let total := qsum (durs segs) in
      let avg := if Qlt_b 0 total then wsum segs / total else 0 in
      let nz := nonzero segs in
      let nzd := qsum (durs nz) in
      let mean := if Qlt_b 0 nzd then wsum nz / nzd else 0 in
      let median := match nz with
                    | [] => 0
                    | _ => median_go (nzd / 2) 0 (isort power_leb nz)
                    end in
      let mn := match nz with [] => 0 | n0 :: nr => list_min (snd n0) (map snd nr) end in
      let mx := list_max (snd s0) (map snd srest) in
      Some (mkStats mn mx mean median avg total nzd)
  end.

(* ---------------------------------------------------------------- analyze_power_statistics *)
Record pev := mkEv {
  e_ph : option string;        (* event.get("ph") *)
  e_name : option string;      (* event.get("name") *)
  e_ts : option Q;             (* event.get("ts") *)
  e_dur : option Q;            (* event.get("dur") *)
  e_watts : option Q           (* event["args"]["Watts"] when both keys exist *)
}.

Record pstate := mkSt {
  st_periods : list pperiod;       (* context.power_periods *)
  st_last : option (Q * Q);        (* context.last_power_sample *)
  st_kernels : list period         (* context.kernel_periods *)
}.
Definition st_init : pstate := mkSt [] None [].

Definition opt_is (o : option string) (s : string) : bool :=
  match o with Some x => String.eqb x s | None => false end.

(* Python's  sub in s *)
Fixpoint contains (sub s : string) : bool :=
  if prefix sub s then true
  else match s with EmptyString => false | String _ r => contains sub r end.

(* "if not ts: return [event]" *)
Definition truthy_ts (o : option Q) : option Q :=
  match o with Some t => if Qeq_b t 0 then None else Some t | None => None end.

Definition step (st : pstate) (e : pev) : pstate :=
  match truthy_ts (e_ts e) with
  | None => st
  | Some ts =>
      if opt_is (e_ph e) "C" && opt_is (e_name e) "Power" then
        match e_watts e with
        | None => st
        | Some w =>
            let periods :=
              match st_last st with
              | Some (lts, lw) => if Qlt_b lts ts then st_periods st ++ [(lts, ts, lw)] else st_periods st
              | None => st_periods st
              end in
            mkSt periods (Some (ts, w)) (st_kernels st)
        end
      else if opt_is (e_ph e) "X"
              && contains "Cmpt Exec" (match e_name e with Some n => n | None => EmptyString end) then
        let dur := match e_dur e with Some d => d | None => 0 end in
        if Qlt_b 0 dur then mkSt (st_periods st) (st_last st) (st_kernels st ++ [(ts, ts + dur)]) else st
      else st
  end.

Definition run_events (evs : list pev) : pstate := fold_left step evs st_init.

(* ---------------------------------------------------------------- drain *)
Definition all_segments (st : pstate) : list seg :=
  let tl := merge_periods (st_kernels st) in
  flat_map (fun pp => match pp with (s, e, p) => split_period s e p tl end) (st_periods st).

Definition strip (l : list seg) : list wseg := map (fun x => (fst (fst x), snd (fst x))) l.
Definition with_k (l : list seg) : list wseg := strip (filter (fun x => snd x) l).
Definition without_k (l : list seg) : list wseg := strip (filter (fun x => negb (snd x)) l).

Definition is_nil {A} (l : list A) : bool := match l with [] => true | _ => false end.

(* None = "Insufficient power data" warning; otherwise the (with kernels, without kernels) groups *)
Definition drain_groups (st : pstate) : option (list wseg * list wseg) :=
  match st_periods st with
  | [] => None
  | _ =>
      let segs := all_segments st in
      let w := with_k segs in
      let wo := without_k segs in
      let wo' := if is_nil (st_kernels st) && is_nil wo then strip segs else wo in
      Some (w, wo')
  end.

Definition drain (st : pstate) : option (option stats * option stats) :=
  match drain_groups st with
  | None => None
  | Some (w, wo) => Some (wstats w, wstats wo)
  end.

(* total duration a label reports ("No data" reports nothing: 0) *)
Definition dur_of (o : option stats) : Q := match o with Some s => s_dur_total s | None => 0 end.

(* ---------------------------------------------------------------- val encoders for the tie *)
Definition period_val (p : period) : val := VL [VQ (fst p); VQ (snd p)].
Definition pperiod_val (p : pperiod) : val := VL [VQ (fst (fst p)); VQ (snd (fst p)); VQ (snd p)].
Definition seg_val (s : seg) : val := VL [VQ (fst (fst s)); VQ (snd (fst s)); VB (snd s)].
Definition stats_val (o : option stats) : val :=
  match o with
  | None => VN
  | Some s => VL [VQ (s_min_nz s); VQ (s_max s); VQ (s_mean_nz s); VQ (s_median_nz s);
                  VQ (s_avg_total s); VQ (s_dur_total s); VQ (s_dur_nz s)]
  end.

Definition merge_val (ps : list period) : val := VL (map period_val (merge_periods ps)).

(* input (ps, pe, p, timeline): the function on ANY timeline, merged or not *)
Definition split_val (x : Q * Q * Q * list period) : val :=
  match x with (ps, pe, p, tl) => VL (map seg_val (split_period ps pe p tl)) end.

(* input (ps, pe, p, kernels): split against the merged kernels (the exhaustive grid) *)
Definition split_merged_val (x : Q * Q * Q * list period) : val :=
  match x with (ps, pe, p, ks) => VL (map seg_val (split_period ps pe p (merge_periods ks))) end.

Definition wstats_val (segs : list wseg) : val := stats_val (wstats segs).

(* float stream: every field is exact on the dyadic grid except the two quotients, which a binary64
   division rounds to nearest: relative error <= 2^-53.  [snap m o] yields the observed value when it
   is within 2^-52 relative of the model's, so the comparison fails exactly when it is not. *)
Definition snap (m o : Q) : Q :=
  if Qle_b (Qabs (m - o) * (4503599627370496 # 1)) (Qabs m) then o else m.
Definition wstats_float_val (x : list wseg * (Q * Q)) : val :=
  match x with
  | (segs, (omean, oavg)) =>
      match wstats segs with
      | None => VN
      | Some s => VL [VQ (s_min_nz s); VQ (s_max s); VQ (snap (s_mean_nz s) omean); VQ (s_median_nz s);
                      VQ (snap (s_avg_total s) oavg); VQ (s_dur_total s); VQ (s_dur_nz s)]
      end
  end.

Definition state_val (st : pstate) : val :=
  VL [VL (map pperiod_val (st_periods st));
      Vopt (fun x => VL [VQ (fst x); VQ (snd x)]) (st_last st);
      VL (map period_val (st_kernels st))].

Definition drain_val (st : pstate) : val :=
  match drain st with
  | None => VN
  | Some (a, b) => VL [VL [VS "Power with kernels"; stats_val a];
                       VL [VS "Power without kernels"; stats_val b]]
  end.

(* the whole stage: feed every event to the dispatcher, then drain; observed = [state; drain log] *)
Definition pipeline_val (evs : list pev) : val :=
  let st := run_events evs in VL [state_val st; drain_val st].

(* non-triviality rule measured inside Coq (DESIGN Appendix C: "period/kernel families with >= 1
   cut"): some power period is split into at least two segments *)
Definition has_cut_st (st : pstate) : bool :=
  let tl := merge_periods (st_kernels st) in
  existsb (fun pp => match pp with (s, e, p) => Nat.ltb 1 (List.length (split_period s e p tl)) end)
          (st_periods st).
Definition nontrivial_pipeline (c : list pev * val) : bool := has_cut_st (run_events (fst c)).
Definition nontrivial_split (c : (Q * Q * Q * list period) * val) : bool :=
  match fst c with (ps, pe, p, ks) => Nat.ltb 1 (List.length (split_period ps pe p (merge_periods ks))) end.
