(* Where the statistics files go (pipeline/tools.py::PipelineContextTool.generate_filename, model Stats.gen_filename):
   <output>_summary.csv, _active.csv, _categories.csv ... are written INTO THE DIRECTORY OF THE OUTPUT FILE, whatever dots
   the directory names contain.  (Until /repo fix C12b the whole path was split on '.': "-o ./res" wrote "_summary.csv"
   into the current directory, "-o run.v1/res" wrote "run_summary.csv" one level up.) *)
From Coq Require Import List Bool String Ascii.
From AiuModel Require Import Base Stats.
Local Open Scope string_scope.

(* a directory prefix: empty, or ending in '/' *)
Fixpoint dir_like (d : string) : bool :=
  match d with
  | EmptyString => true
  | String c EmptyString => Ascii.eqb c "/"
  | String _ r => dir_like r
  end.

Lemma has_slash_app a b : has_slash (a ++ b) = has_slash a || has_slash b.
Proof. induction a as [|c a IH]; cbn; [reflexivity|]. rewrite IH. now rewrite orb_assoc. Qed.

Lemma split_dir_noslash b : has_slash b = false -> split_dir b = (EmptyString, b).
Proof.
  destruct b as [|c r]; cbn; [reflexivity|]. intros H. apply orb_false_iff in H. destruct H as [Hc Hr].
  now rewrite Hr, Hc.
Qed.

Lemma dir_like_has_slash c d : dir_like (String c d) = true -> has_slash (String c d) = true.
Proof.
  revert c. induction d as [|x r IH]; intros c H.
  - cbn in *. now rewrite H.
  - cbn [has_slash]. apply orb_true_iff; right. apply IH. exact H.
Qed.

Lemma split_dir_cons c r :
  split_dir (String c r) =
  if has_slash r then let '(d, b) := split_dir r in (String c d, b)
  else if Ascii.eqb c "/" then (String c EmptyString, r) else (EmptyString, String c r).
Proof. reflexivity. Qed.

(* split_dir gives back exactly the directory prefix and the file name *)
Lemma split_dir_app : forall d b, dir_like d = true -> has_slash b = false -> split_dir (d ++ b) = (d, b).
Proof.
  induction d as [|c d IH]; intros b Hd Hb.
  - cbn [append]. now apply split_dir_noslash.
  - destruct d as [|c' d'].
    + cbn [dir_like] in Hd. cbn [append split_dir]. now rewrite Hb, Hd.
    + assert (Hd' : dir_like (String c' d') = true) by exact Hd.
      assert (Hs : has_slash (String c' d' ++ b) = true).
      { rewrite has_slash_app, (dir_like_has_slash _ _ Hd'). reflexivity. }
      change (String c (String c' d') ++ b) with (String c (String c' d' ++ b)).
      rewrite split_dir_cons, Hs, (IH b Hd' Hb). reflexivity.
Qed.

Lemma split_dir_spec : forall s,
  s = fst (split_dir s) ++ snd (split_dir s) /\ dir_like (fst (split_dir s)) = true /\
  has_slash (snd (split_dir s)) = false.
Proof.
  induction s as [|c r IH]; cbn [split_dir]; [repeat split|].
  destruct (has_slash r) eqn:Hr.
  - destruct (split_dir r) as [d b] eqn:E. cbn [fst snd] in *. destruct IH as (Es & Hd & Hb).
    repeat split; [cbn; now rewrite <- Es| |exact Hb].
    destruct d as [|c' d']; [|exact Hd].
    cbn in Es. subst r. congruence.
  - destruct (Ascii.eqb c "/") eqn:Ec; cbn [fst snd].
    + repeat split; [cbn; exact Ec|exact Hr].
    + repeat split. cbn [has_slash]. now rewrite Ec, Hr.
Qed.

(* THE STATEMENT: the generated name lies in the directory of the output file and its file-name part is derived from
   the output's file name only *)
Theorem gen_filename_same_directory (fname purpose ext : string) :
  has_slash purpose = false -> has_slash ext = false ->
  split_dir (gen_filename fname purpose ext) =
  (fst (split_dir (remove_go ".pt.trace" 0 fname)),
   before_last_dot (snd (split_dir (remove_go ".pt.trace" 0 fname))) ++ "_" ++ purpose ++ "." ++ ext).
Proof.
  intros Hp He. unfold gen_filename.
  pose proof (split_dir_spec (remove_go ".pt.trace" 0 fname)) as S.
  destruct (split_dir (remove_go ".pt.trace" 0 fname)) as [d b]. cbn [fst snd] in *. destruct S as (_ & Hd & Hb).
  apply split_dir_app; [exact Hd|].
  assert (Hbl : forall s, has_slash s = false -> has_slash (before_last_dot s) = false).
  { induction s as [|c r IHs]; cbn; [reflexivity|]. intros H. apply orb_false_iff in H. destruct H as [Hc Hr'].
    destruct (has_dot r); cbn; [now rewrite Hc, (IHs Hr')|].
    destruct (Ascii.eqb c "."); cbn; [reflexivity|now rewrite Hc, (IHs Hr')]. }
  rewrite !has_slash_app, Hp, He, (Hbl b Hb). reflexivity.
Qed.
