(* Power_proofs.v — lemmas about the model in Power.v (the property theorems are in props/C10.v).

   Structure:
     1. insertion sort: sortedness, commutation with filter and map
     2. the three stages as stream functions; Pipeline.stream_compose gives run = composition
     3. stage 2 groups the helper counters by rank (first-seen order), stage 3 treats the groups independently
     4. one rank: zero readings are invisible; on a time-sorted list of non-zero, non-Prep samples the state
        machine of compute_power emits exactly one event per consecutive pair of distinct-time samples
     5. assembly: power_run = slices ++ per-rank specification
     6. bounds, time order, energy *)
From Coq Require Import ZArith QArith List Bool String Lia Sorted Qabs.
Import ListNotations.
From AiuModel Require Import Base Pipeline.
From AiuModel Require Import Power.
Local Open Scope Z_scope.

(* ================================================================== 1. insertion sort *)
Section SortFacts.
  Variable A : Type.
  Variable leb : A -> A -> bool.
  Hypothesis leb_total : forall a b, leb a b = false -> leb b a = true.
  Hypothesis leb_trans : forall a b c, leb a b = true -> leb b c = true -> leb a c = true.
  Definition le_of (a b : A) : Prop := leb a b = true.

  Lemma insert_HdRel x y l : HdRel le_of y l -> le_of y x -> HdRel le_of y (insert_sorted leb x l).
  Proof.
    intros H Hyx. destruct l as [|z r]; cbn.
    - constructor. exact Hyx.
    - destruct (leb x z); constructor; [exact Hyx|]. inversion H; assumption.
  Qed.

  Lemma insert_Sorted x l : Sorted le_of l -> Sorted le_of (insert_sorted leb x l).
  Proof.
    induction l as [|y r IH]; intros H; cbn.
    - repeat constructor.
    - inversion H as [|? ? Hr Hhd]; subst. destruct (leb x y) eqn:E.
      + constructor; [exact H|]. constructor. exact E.
      + constructor; [apply IH; exact Hr|]. apply insert_HdRel; [exact Hhd|]. apply leb_total. exact E.
  Qed.

  Lemma isort_Sorted l : Sorted le_of (isort leb l).
  Proof. induction l as [|x r IH]; cbn; [constructor|]. apply insert_Sorted. exact IH. Qed.

  Lemma isort_SSorted l : StronglySorted le_of (isort leb l).
  Proof.
    apply Sorted_StronglySorted; [|apply isort_Sorted].
    intros a b c. unfold le_of. apply leb_trans.
  Qed.

  Lemma insert_Forall (P : A -> Prop) x l : P x -> Forall P l -> Forall P (insert_sorted leb x l).
  Proof.
    intros Hx H. induction H as [|y r Hy Hr IH]; cbn; [repeat constructor; exact Hx|].
    destruct (leb x y); repeat constructor; assumption.
  Qed.
  Lemma isort_Forall (P : A -> Prop) l : Forall P l -> Forall P (isort leb l).
  Proof. induction 1; cbn; [constructor|]. apply insert_Forall; assumption. Qed.

  Lemma filter_insert f x l : StronglySorted le_of l ->
    filter f (insert_sorted leb x l) = if f x then insert_sorted leb x (filter f l) else filter f l.
  Proof.
    assert (Hc : forall a m, filter f (a :: m) = if f a then a :: filter f m else filter f m) by reflexivity.
    induction l as [|y r IH]; intros H.
    - cbn. destruct (f x); reflexivity.
    - inversion H as [|? ? Hr Hall]; subst. cbn [insert_sorted]. destruct (leb x y) eqn:E.
      + rewrite (Hc x). destruct (f x) eqn:Fx; [|reflexivity].
        (* x goes in front of the filtered list as well *)
        assert (Hhead : forall m, Forall (fun z => leb x z = true) m -> insert_sorted leb x m = x :: m).
        { intros m Hm. destruct m as [|z m']; [reflexivity|]. cbn. inversion Hm; subst.
          match goal with h : leb x z = true |- _ => rewrite h end. reflexivity. }
        rewrite Hhead; [reflexivity|].
        rewrite Forall_forall in *. intros z Hz. apply filter_In in Hz. destruct Hz as [Hz _].
        destruct Hz as [->|Hz]; [exact E|]. apply (leb_trans x y z E). apply Hall. exact Hz.
      + rewrite (Hc y), (IH Hr). destruct (f x) eqn:Fx; destruct (f y) eqn:Fy; rewrite ?Hc, ?Fy; cbn [insert_sorted];
          try rewrite E; reflexivity.
  Qed.

  Lemma filter_isort f l : filter f (isort leb l) = isort leb (filter f l).
  Proof.
    induction l as [|x r IH]; cbn [isort fold_right filter]; [reflexivity|].
    change (fold_right (insert_sorted leb) [] r) with (isort leb r).
    rewrite filter_insert by apply isort_SSorted. rewrite IH.
    destruct (f x); reflexivity.
  Qed.
End SortFacts.

Lemma insert_map {A B} (f : A -> B) lebA lebB :
  (forall a b, lebA a b = lebB (f a) (f b)) ->
  forall x l, map f (insert_sorted lebA x l) = insert_sorted lebB (f x) (map f l).
Proof.
  intros H x l. induction l as [|y r IH]; cbn; [reflexivity|].
  rewrite <- H. destruct (lebA x y); cbn; [reflexivity|]. rewrite IH. reflexivity.
Qed.
Lemma isort_map {A B} (f : A -> B) lebA lebB :
  (forall a b, lebA a b = lebB (f a) (f b)) -> forall l, map f (isort lebA l) = isort lebB (map f l).
Proof.
  intros H l. induction l as [|x r IH]; cbn; [reflexivity|].
  change (fold_right (insert_sorted lebA) [] r) with (isort lebA r).
  rewrite (insert_map f lebA lebB H). rewrite IH. reflexivity.
Qed.

(* the two orders in use are total preorders *)
Lemma Qle_bool_total a b : Qle_bool a b = false -> Qle_bool b a = true.
Proof.
  intros H. apply Qle_bool_iff. destruct (Qlt_le_dec b a) as [L|L].
  - apply Qlt_le_weak. exact L.
  - apply Qle_bool_iff in L. congruence.
Qed.
Lemma Qle_bool_trans a b c : Qle_bool a b = true -> Qle_bool b c = true -> Qle_bool a c = true.
Proof. rewrite !Qle_bool_iff. apply Qle_trans. Qed.

Lemma key_leb_total a b : key_leb a b = false -> key_leb b a = true.
Proof. apply Qle_bool_total. Qed.
Lemma key_leb_trans a b c : key_leb a b = true -> key_leb b c = true -> key_leb a c = true.
Proof. apply Qle_bool_trans. Qed.
Lemma time_leb_total a b : time_leb a b = false -> time_leb b a = true.
Proof. apply Qle_bool_total. Qed.
Lemma time_leb_trans a b c : time_leb a b = true -> time_leb b c = true -> time_leb a c = true.
Proof. apply Qle_bool_trans. Qed.

(* ================================================================== 2. the stages as stream functions *)
Fixpoint extract_feed (seen : Z -> bool) (es : list ev) : (Z -> bool) * list ev :=
  match es with
  | [] => (seen, [])
  | e :: r => let '(n, o) := extract_step seen e in let '(n2, o2) := extract_feed n r in (n2, o ++ o2)
  end.
Fixpoint sort_feed (qs : queues) (es : list ev) : queues * list ev :=
  match es with
  | [] => (qs, [])
  | e :: r => let '(n, o) := sort_step qs e in let '(n2, o2) := sort_feed n r in (n2, o ++ o2)
  end.
Fixpoint power_feed (skip : bool) (st : pstate) (es : list ev) : pstate * list ev :=
  match es with
  | [] => (st, [])
  | e :: r => let '(n, o) := power_step skip st e in let '(n2, o2) := power_feed skip n r in (n2, o ++ o2)
  end.

Lemma feedc_extract es : forall seen,
  feedc g_extract (SX seen) es = (SX (fst (extract_feed seen es)), snd (extract_feed seen es)).
Proof.
  induction es as [|e r IH]; intros seen; cbn [feedc extract_feed]; [reflexivity|].
  cbn [cb g_extract extract_cb]. destruct (extract_step seen e) as [n o]. rewrite IH.
  destruct (extract_feed n r) as [n2 o2]. reflexivity.
Qed.
Lemma feedc_sort es : forall qs,
  feedc g_sort (SS qs) es = (SS (fst (sort_feed qs es)), snd (sort_feed qs es)).
Proof.
  induction es as [|e r IH]; intros qs; cbn [feedc sort_feed]; [reflexivity|].
  cbn [cb g_sort sort_cb]. destruct (sort_step qs e) as [n o]. rewrite IH.
  destruct (sort_feed n r) as [n2 o2]. reflexivity.
Qed.
Lemma feedc_power skip es : forall st,
  feedc (g_power skip) (SP st) es = (SP (fst (power_feed skip st es)), snd (power_feed skip st es)).
Proof.
  induction es as [|e r IH]; intros st; cbn [feedc power_feed]; [reflexivity|].
  cbn [cb g_power power_cb]. destruct (power_step skip st e) as [n o]. rewrite IH.
  destruct (power_feed skip n r) as [n2 o2]. reflexivity.
Qed.

Definition extract_stream (es : list ev) : list ev := snd (extract_feed (fun _ => false) es).
Definition sort_stream (es : list ev) : list ev :=
  snd (sort_feed qempty es) ++ snd (sort_drain (fst (sort_feed qempty es))).
Definition power_stream (skip : bool) (es : list ev) : list ev := snd (power_feed skip (fun _ => None) es).

Lemma power_stages_wf skip : wf BCELL happ hlist hempty (power_stages skip).
Proof.
  unfold power_stages.
  apply wf_priv; [reflexivity|cbn; intros [H|[H|[]]]; discriminate|].
  apply wf_priv; [reflexivity|cbn; intros [H|[]]; discriminate|].
  apply wf_priv; [reflexivity|cbn; intros []|]. constructor.
Qed.

(* Engine.run over the registered stages = composition of the three stream functions *)
Lemma power_run_compose skip es :
  power_run skip es = power_stream skip (sort_stream (extract_stream es)).
Proof.
  unfold power_run.
  rewrite (@stream_compose ev pst BCELL happ hlist hempty).
  - unfold power_stages. cbn [compose bar g_extract g_sort g_power cid st0].
    unfold streamc. rewrite feedc_extract. cbn [dr g_extract no_dr].
    rewrite app_nil_r. fold (extract_stream es).
    rewrite feedc_sort. cbn [dr g_sort sort_dr]. 
    destruct (sort_drain (fst (sort_feed qempty (extract_stream es)))) as [q2 o2] eqn:Ed.
    rewrite feedc_power. cbn [dr g_power no_dr]. rewrite app_nil_r.
    unfold power_stream, sort_stream. rewrite Ed. reflexivity.
  - intros s e. reflexivity.
  - reflexivity.
  - apply power_stages_wf.
  - cbn. intros [H|[H|[H|[]]]]; discriminate.
  - reflexivity.
Qed.

(* ---- helper counters and the rest of a stream *)
Definition is_cnt (e : ev) : bool := match e with ECnt _ => true | _ => false end.
Definition cnt_of (l : list ev) : list counter := flat_map (fun e => match e with ECnt c => [c] | _ => [] end) l.
Definition noncnt (l : list ev) : list ev := filter (fun e => negb (is_cnt e)) l.

Lemma cnt_of_app a b : cnt_of (a ++ b) = cnt_of a ++ cnt_of b.
Proof. unfold cnt_of. apply flat_map_app. Qed.
Lemma noncnt_app a b : noncnt (a ++ b) = noncnt a ++ noncnt b.
Proof. unfold noncnt. apply filter_app. Qed.

(* stage 1 on a stream of slices *)
Fixpoint cnts (seen : Z -> bool) (ss : list slice) : list counter :=
  match ss with
  | [] => []
  | s :: r => if sampled s then
                if seen (s_pid s) then sample_counter s :: cnts seen r
                else zero_counter s :: sample_counter s :: cnts (fun k => (k =? s_pid s) || seen k) r
              else cnts seen r
  end.
Lemma extract_feed_slices ss : forall seen,
  noncnt (snd (extract_feed seen (map ESlice ss))) = map ESlice ss /\
  cnt_of (snd (extract_feed seen (map ESlice ss))) = cnts seen ss.
Proof.
  induction ss as [|s r IH]; intros seen; cbn [map extract_feed cnts]; [split; reflexivity|].
  cbn [extract_step]. destruct (sampled s).
  - destruct (seen (s_pid s)).
    + specialize (IH seen). destruct (extract_feed seen (map ESlice r)) as [n2 o2]. cbn [snd] in *.
      destruct IH as [I1 I2]. split; [rewrite noncnt_app, I1|rewrite cnt_of_app, I2]; reflexivity.
    + specialize (IH (fun k => (k =? s_pid s) || seen k)).
      destruct (extract_feed (fun k => (k =? s_pid s) || seen k) (map ESlice r)) as [n2 o2]. cbn [snd] in *.
      destruct IH as [I1 I2]. split; [rewrite noncnt_app, I1|rewrite cnt_of_app, I2]; reflexivity.
  - specialize (IH seen). destruct (extract_feed seen (map ESlice r)) as [n2 o2]. cbn [snd] in *.
    destruct IH as [I1 I2]. split; [rewrite noncnt_app, I1|rewrite cnt_of_app, I2]; reflexivity.
Qed.

(* stage 2: non-counters pass at once, counters are collected *)
Definition firsts_acc (acc : list Z) (l : list Z) : list Z :=
  fold_left (fun acc p => if mem p acc then acc else acc ++ [p]) l acc.
Lemma sort_feed_spec es : forall qs,
  snd (sort_feed qs es) = noncnt es /\
  q_held (fst (sort_feed qs es)) = q_held qs ++ cnt_of es /\
  q_order (fst (sort_feed qs es)) = firsts_acc (q_order qs) (map c_pid (cnt_of es)).
Proof.
  induction es as [|e r IH]; intros qs; cbn [sort_feed].
  - cbn. rewrite app_nil_r. auto.
  - destruct e as [s|c|p t w|]; cbn [sort_step].
    + specialize (IH qs). destruct (sort_feed qs r) as [n2 o2]. cbn [fst snd] in *.
      destruct IH as (I1 & I2 & I3). cbn. rewrite I1. auto.
    + specialize (IH (qadd c qs)). destruct (sort_feed (qadd c qs) r) as [n2 o2]. cbn [fst snd] in *.
      destruct IH as (I1 & I2 & I3). cbn. rewrite I1, I2, I3. cbn [qadd q_held q_order].
      rewrite <- app_assoc. auto.
    + specialize (IH qs). destruct (sort_feed qs r) as [n2 o2]. cbn [fst snd] in *.
      destruct IH as (I1 & I2 & I3). cbn. rewrite I1. auto.
    + specialize (IH qs). destruct (sort_feed qs r) as [n2 o2]. cbn [fst snd] in *.
      destruct IH as (I1 & I2 & I3). cbn. rewrite I1. auto.
Qed.

(* the stream that reaches compute_power *)
Lemma sort_extract_stream ss :
  sort_stream (extract_stream (map ESlice ss)) =
  map ESlice ss ++
  flat_map (fun p => map ECnt (isort key_leb (queue_of p (cnts (fun _ => false) ss))))
           (firsts_acc [] (map c_pid (cnts (fun _ => false) ss))).
Proof.
  unfold sort_stream, extract_stream.
  destruct (extract_feed_slices ss (fun _ => false)) as [E1 E2].
  destruct (sort_feed_spec (snd (extract_feed (fun _ => false) (map ESlice ss))) qempty) as (S1 & S2 & S3).
  rewrite S1, E1. unfold sort_drain. cbn [snd]. rewrite S2, S3, E2. reflexivity.
Qed.

(* ---- first-seen order of ranks *)
Lemma mem_app_self p acc : mem p (acc ++ [p]) = true.
Proof. unfold mem. rewrite existsb_app. cbn. rewrite Z.eqb_refl. apply orb_true_iff. right. reflexivity. Qed.
Lemma firsts_acc_dup acc p l : firsts_acc acc (p :: p :: l) = firsts_acc acc (p :: l).
Proof.
  unfold firsts_acc. cbn [fold_left]. destruct (mem p acc) eqn:E.
  - rewrite E. reflexivity.
  - rewrite mem_app_self. reflexivity.
Qed.
Lemma firsts_cnts ss : forall seen acc,
  firsts_acc acc (map c_pid (cnts seen ss)) = firsts_acc acc (map s_pid (filter sampled ss)).
Proof.
  induction ss as [|s r IH]; intros seen acc; cbn [cnts filter map]; [reflexivity|].
  destruct (sampled s); [|apply IH].
  destruct (seen (s_pid s)); cbn [map zero_counter sample_counter c_pid].
  - unfold firsts_acc in *. cbn [fold_left]. apply IH.
  - rewrite firsts_acc_dup. unfold firsts_acc in *. cbn [fold_left]. apply IH.
Qed.

Lemma NoDup_snoc (acc : list Z) x : NoDup acc -> ~ In x acc -> NoDup (acc ++ [x]).
Proof.
  intros Hn H. induction acc as [|a acc IHa]; cbn.
  - constructor; [intros []|constructor].
  - inversion Hn; subst. constructor.
    + rewrite in_app_iff. cbn. intros [Hi|[Hi|[]]]; [tauto|]. subst. apply H. left. reflexivity.
    + apply IHa; [assumption|]. intro. apply H. right. assumption.
Qed.
Lemma mem_false p acc : mem p acc = false -> ~ In p acc.
Proof.
  intros E Hin. unfold mem in E. assert (existsb (Z.eqb p) acc = true); [|congruence].
  apply existsb_exists. exists p. split; [exact Hin|apply Z.eqb_refl].
Qed.
Lemma mem_true p acc : mem p acc = true -> In p acc.
Proof.
  intros E. unfold mem in E. apply existsb_exists in E. destruct E as (y & Hy & Exy).
  apply Z.eqb_eq in Exy. subst y. exact Hy.
Qed.
Lemma firsts_acc_spec l : forall acc, NoDup acc ->
  NoDup (firsts_acc acc l) /\ (forall p, In p (firsts_acc acc l) <-> In p acc \/ In p l).
Proof.
  induction l as [|x r IH]; intros acc Hn; cbn.
  - split; [exact Hn|]. intros p. tauto.
  - destruct (mem x acc) eqn:E.
    + destruct (IH acc Hn) as [I1 I2]. split; [exact I1|]. intros p. rewrite I2.
      apply mem_true in E. split; [tauto|]. intros [H|[->|H]]; tauto.
    + destruct (IH (acc ++ [x]) (NoDup_snoc acc x Hn (mem_false _ _ E))) as [I1 I2].
      split; [exact I1|]. intros p. rewrite I2, in_app_iff. cbn. tauto.
Qed.

(* ================================================================== 3. stage 3 on slices and on rank groups *)
Fixpoint pid_feed (skip : bool) (prev : option counter) (cs : list counter) : option counter * list ev :=
  match cs with
  | [] => (prev, [])
  | c :: r => let '(n, o) := pid_step skip prev c in let '(n2, o2) := pid_feed skip n r in (n2, o ++ o2)
  end.

Lemma power_feed_app skip a : forall b st,
  power_feed skip st (a ++ b) =
  let '(s1, o1) := power_feed skip st a in let '(s2, o2) := power_feed skip s1 b in (s2, o1 ++ o2).
Proof.
  induction a as [|e r IH]; intros b st; cbn [app power_feed].
  - destruct (power_feed skip st b). reflexivity.
  - destruct (power_step skip st e) as [n o]. rewrite IH.
    destruct (power_feed skip n r) as [s1 o1]. destruct (power_feed skip s1 b) as [s2 o2].
    rewrite app_assoc. reflexivity.
Qed.
Lemma power_feed_slices skip ss st : power_feed skip st (map ESlice ss) = (st, map ESlice ss).
Proof.
  induction ss as [|s r IH]; cbn [map power_feed power_step]; [reflexivity|]. rewrite IH. reflexivity.
Qed.

(* a group of counters of one rank only reads and writes that rank's previous sample *)
Lemma power_feed_group skip p cs : forall st, Forall (fun c => c_pid c = p) cs ->
  snd (power_feed skip st (map ECnt cs)) = snd (pid_feed skip (st p) cs) /\
  (forall k, k <> p -> fst (power_feed skip st (map ECnt cs)) k = st k).
Proof.
  induction cs as [|c r IH]; intros st H; cbn [map power_feed pid_feed].
  - split; reflexivity.
  - inversion H as [|? ? Hc Hr]; subst. cbn [power_step].
    destruct (pid_step skip (st (c_pid c)) c) as [n o].
    set (st1 := fun k => if k =? c_pid c then n else st k).
    destruct (IH st1 Hr) as [I1 I2].
    destruct (power_feed skip st1 (map ECnt r)) as [s2 o2]. cbn [fst snd] in *.
    assert (E1 : st1 (c_pid c) = n) by (unfold st1; rewrite Z.eqb_refl; reflexivity).
    rewrite E1 in I1. destruct (pid_feed skip n r) as [n2 o3]. cbn [snd] in *. split.
    + rewrite I1. reflexivity.
    + intros k Hk. rewrite (I2 k Hk). unfold st1. apply Z.eqb_neq in Hk. rewrite Hk. reflexivity.
Qed.

Lemma power_feed_groups skip (G : Z -> list counter) order : forall st,
  NoDup order ->
  (forall p, In p order -> st p = None) ->
  (forall p, Forall (fun c => c_pid c = p) (G p)) ->
  snd (power_feed skip st (flat_map (fun p => map ECnt (G p)) order)) =
  flat_map (fun p => snd (pid_feed skip None (G p))) order.
Proof.
  induction order as [|p r IH]; intros st Hn Hst HG; cbn [flat_map]; [reflexivity|].
  rewrite power_feed_app. inversion Hn as [|? ? Hnotin Hn']; subst.
  destruct (power_feed_group skip p (G p) st (HG p)) as [I1 I2].
  destruct (power_feed skip st (map ECnt (G p))) as [s1 o1]. cbn [fst snd] in *.
  assert (Hs1 : forall q, In q r -> s1 q = None).
  { intros q Hq. rewrite I2; [apply Hst; right; exact Hq|]. intros ->. contradiction. }
  specialize (IH s1 Hn' Hs1 HG).
  destruct (power_feed skip s1 (flat_map (fun p0 => map ECnt (G p0)) r)) as [s2 o2]. cbn [snd] in *.
  rewrite I1, IH, (Hst p (or_introl eq_refl)). reflexivity.
Qed.

(* the counters of rank p produced by stage 1 *)
Definition psl (p : Z) (ss : list slice) : list slice := filter (fun s => sampled s && (s_pid s =? p)) ss.
Lemma queue_of_cnts p ss : forall seen,
  queue_of p (cnts seen ss) =
  (if seen p then [] else match psl p ss with [] => [] | s1 :: _ => [zero_counter s1] end)
  ++ map sample_counter (psl p ss).
Proof.
  unfold queue_of, psl.
  induction ss as [|s r IH]; intros seen; cbn [cnts filter map].
  - destruct (seen p); reflexivity.
  - destruct (sampled s) eqn:Es; cbn [andb]; [|apply IH].
    destruct (s_pid s =? p) eqn:Ep.
    + apply Z.eqb_eq in Ep. destruct (seen (s_pid s)) eqn:Eseen.
      * cbn [filter sample_counter c_pid]. rewrite Ep, Z.eqb_refl. rewrite IH. rewrite <- Ep, Eseen.
        cbn [map app]. reflexivity.
      * cbn [filter sample_counter zero_counter c_pid]. rewrite Ep, Z.eqb_refl. rewrite IH.
        rewrite Z.eqb_refl. cbn [orb]. rewrite <- Ep, Eseen. cbn [map app]. reflexivity.
    + destruct (seen (s_pid s)) eqn:Eseen.
      * cbn [filter sample_counter c_pid]. rewrite Ep. apply IH.
      * cbn [filter sample_counter zero_counter c_pid]. rewrite Ep. rewrite IH.
        assert (E : (p =? s_pid s) = false) by (rewrite Z.eqb_sym; exact Ep). rewrite E. reflexivity.
Qed.

(* ================================================================== 4. one rank *)
(* ---- zero readings are invisible *)
Definition nz (c : counter) : bool := negb (c_q c =? 0).
Definition norm (prev : option counter) : option counter :=
  match prev with Some p => if c_q p =? 0 then None else prev | None => None end.

Lemma step_zero skip prev c : (c_q c =? 0) = true ->
  snd (pid_step skip prev c) = [] /\ norm (fst (pid_step skip prev c)) = norm prev.
Proof.
  intros Hc. destruct prev as [p|]; cbn [pid_step].
  - unfold delta. destruct (c_q p =? 0) eqn:Ep.
    + cbn [fst snd norm]. rewrite Hc, Ep. auto.
    + rewrite Hc. cbn [fst snd]. auto.
  - cbn [fst snd norm]. rewrite Hc. auto.
Qed.
Lemma step_nonzero skip prev prev' c : norm prev = norm prev' -> (c_q c =? 0) = false ->
  pid_step skip prev c = pid_step skip prev' c.
Proof.
  intros Hn Hc. destruct prev as [p|], prev' as [p'|]; cbn [norm] in Hn.
  - destruct (c_q p =? 0) eqn:Ep, (c_q p' =? 0) eqn:Ep'; try discriminate.
    + cbn [pid_step]. unfold delta. rewrite Ep, Ep'. reflexivity.
    + inversion Hn; subst. reflexivity.
  - destruct (c_q p =? 0) eqn:Ep; try discriminate. cbn [pid_step]. unfold delta. rewrite Ep. reflexivity.
  - destruct (c_q p' =? 0) eqn:Ep'; try discriminate. cbn [pid_step]. unfold delta. rewrite Ep'. reflexivity.
  - reflexivity.
Qed.
Lemma pid_feed_nz skip l : forall prev prev', norm prev = norm prev' ->
  snd (pid_feed skip prev l) = snd (pid_feed skip prev' (filter nz l)).
Proof.
  induction l as [|c r IH]; intros prev prev' Hn; cbn [filter pid_feed]; [reflexivity|].
  unfold nz at 1. destruct (c_q c =? 0) eqn:Ec; cbn [negb].
  - destruct (step_zero skip prev c Ec) as [S1 S2].
    destruct (pid_step skip prev c) as [n o]. cbn [fst snd] in *. subst o.
    specialize (IH n prev' (eq_trans S2 Hn)).
    destruct (pid_feed skip n r) as [n2 o2]. cbn [snd] in *. exact IH.
  - cbn [pid_feed]. rewrite (step_nonzero skip prev prev' c Hn Ec).
    destruct (pid_step skip prev' c) as [n o]. specialize (IH n n eq_refl).
    destruct (pid_feed skip n r) as [n2 o2]. destruct (pid_feed skip n (filter nz r)) as [n3 o3].
    cbn [snd] in *. rewrite IH. reflexivity.
Qed.

(* ---- arithmetic of one pair *)
Lemma W32_val : W32 = 4294967296.
Proof. reflexivity. Qed.
Lemma dcharge_mod pa pb : 0 <= pa < W32 -> 0 <= pb < W32 -> dcharge pa pb = (pb - pa) mod W32.
Proof.
  rewrite W32_val. intros Ha Hb. unfold dcharge. rewrite W32_val. destruct (pa <=? pb) eqn:E.
  - apply Z.leb_le in E. rewrite Z.mod_small; lia.
  - apply Z.leb_gt in E. apply Z.mod_unique with (q := -1); lia.
Qed.
Lemma mod_nonneg a : 0 <= a mod W32.
Proof. apply Z.mod_pos_bound. rewrite W32_val. lia. Qed.

Lemma raw_nonneg dq ta tb : 0 <= dq -> (ta < tb)%Q -> (0 <= VOLT * inject_Z dq * LSB / (tb - ta))%Q.
Proof.
  intros Hq Ht. unfold Qdiv. apply Qmult_le_0_compat.
  - apply Qmult_le_0_compat; [apply Qmult_le_0_compat|]; [discriminate| |discriminate].
    change 0%Q with (inject_Z 0). rewrite <- Zle_Qle. exact Hq.
  - apply Qinv_le_0_compat. apply Qlt_le_weak. unfold Qminus. apply -> Qlt_minus_iff. exact Ht.
Qed.
Lemma clamp_bounds w : (0 <= w)%Q -> (0 <= clamp w)%Q /\ (clamp w <= CAP)%Q.
Proof.
  intros H. unfold clamp, Qlt_b. destruct (Qle_bool w CAP) eqn:E; cbn [negb].
  - apply Qle_bool_iff in E. auto.
  - split; discriminate.
Qed.
Lemma Qlt_of_bools a b : Qle_bool a b = true -> Qeq_bool a b = false -> (a < b)%Q.
Proof.
  intros L N. apply Qle_bool_iff in L. apply Qle_lteq in L. destruct L as [L|L]; [exact L|].
  apply Qeq_bool_iff in L. congruence.
Qed.

(* ---- the state machine on a time-sorted list of proper samples *)
Definition proj (c : counter) : Q * Z := (c_key c, c_q c).
Definition good (p : Z) (c : counter) : Prop :=
  c_pid c = p /\ c_ts c = c_key c /\ is_prep (c_cat c) = false /\ 0 < c_q c < W32.
Definition Fpow (p : Z) (a b : Q * Z) : ev := EPow p (fst a) (watts_spec a b).

Lemma SSorted_skip {A} (R : A -> A -> Prop) a b r :
  StronglySorted R (a :: b :: r) -> StronglySorted R (a :: r).
Proof.
  intros H. inversion H as [|? ? H1 H2]; subst. inversion H1; subst. inversion H2; subst.
  constructor; assumption.
Qed.

Lemma pid_feed_sorted p l : forall p0,
  good p p0 -> Forall (good p) l -> StronglySorted (le_of _ key_leb) (p0 :: l) ->
  snd (pid_feed false (Some p0) l) = pairs (Fpow p) (proj p0 :: dedup_from (c_key p0) (map proj l)).
Proof.
  induction l as [|c r IH]; intros p0 Hg Hl Hs; [reflexivity|].
  inversion Hl as [|? ? Hc Hr]; subst.
  destruct Hg as (G1 & G2 & G3 & G4). destruct Hc as (C1 & C2 & C3 & C4).
  cbn [pid_feed pid_step map dedup_from]. unfold delta.
  assert (E0 : (c_q p0 =? 0) = false) by (apply Z.eqb_neq; lia).
  assert (Ec : (c_q c =? 0) = false) by (apply Z.eqb_neq; lia).
  rewrite E0, Ec. cbn [proj fst]. destruct (Qeq_bool (c_key p0) (c_key c)) eqn:Eq.
  - rewrite G3. specialize (IH p0 (conj G1 (conj G2 (conj G3 G4))) Hr (SSorted_skip _ _ _ _ Hs)).
    destruct (pid_feed false (Some p0) r) as [n2 o2]. cbn [snd app] in *. exact IH.
  - cbn [andb].
    assert (Hlt : (c_key p0 < c_key c)%Q).
    { apply Qlt_of_bools; [|exact Eq]. inversion Hs as [|? ? _ Hall]; subst. inversion Hall; subst. assumption. }
    assert (Hraw : (0 <= raw_watts p0 c)%Q).
    { unfold raw_watts. apply raw_nonneg; [|exact Hlt]. rewrite dcharge_mod by lia. apply mod_nonneg. }
    destruct (clamp_bounds _ Hraw) as [B1 _].
    assert (Eneg : Qlt_b (clamp (raw_watts p0 c)) 0 = false).
    { unfold Qlt_b. apply Qle_bool_iff in B1. rewrite B1. reflexivity. }
    rewrite Eneg.
    assert (Hs' : StronglySorted (le_of _ key_leb) (c :: r)) by (inversion Hs; assumption).
    specialize (IH c (conj C1 (conj C2 (conj C3 C4))) Hr Hs').
    destruct (pid_feed false (Some c) r) as [n2 o2]. cbn [snd] in *. rewrite IH.
    cbn [pairs app]. f_equal. unfold Fpow, watts_spec, raw_watts. cbn [proj fst snd].
    rewrite G1, G2, dcharge_mod by lia. reflexivity.
Qed.

Lemma pid_feed_sorted_none p l :
  Forall (good p) l -> StronglySorted (le_of _ key_leb) l ->
  snd (pid_feed false None l) = pairs (Fpow p) (dedup (map proj l)).
Proof.
  intros Hl Hs. destruct l as [|c r]; [reflexivity|].
  inversion Hl; subst. cbn [pid_feed pid_step map dedup].
  pose proof (pid_feed_sorted p r c) as H. 
  destruct (pid_feed false (Some c) r) as [n2 o2]. cbn [snd app] in *. apply H; assumption.
Qed.

(* ================================================================== 5. assembly *)
Lemma flat_map_filter_map {A B} (g : A -> bool) (h : A -> B) l :
  flat_map (fun s => if g s then [h s] else []) l = map h (filter g l).
Proof. induction l as [|x r IH]; cbn; [reflexivity|]. destruct (g x); cbn; rewrite IH; reflexivity. Qed.
Lemma filter_map_comm {A B} (f : A -> B) (g : B -> bool) l :
  filter g (map f l) = map f (filter (fun x => g (f x)) l).
Proof. induction l as [|x r IH]; cbn; [reflexivity|]. destruct (g (f x)); cbn; rewrite IH; reflexivity. Qed.

Definition nzs (x : Q * Z) : bool := negb (snd x =? 0).

Lemma rank_output p ss : charges_32bit ss ->
  snd (pid_feed false None (isort key_leb (queue_of p (cnts (fun _ => false) ss)))) = power_spec p ss.
Proof.
  intros H32. rewrite queue_of_cnts.
  set (Z0 := match psl p ss with [] => [] | s1 :: _ => [zero_counter s1] end).
  set (cs := map sample_counter (psl p ss)).
  rewrite (pid_feed_nz false _ None None eq_refl).
  rewrite (filter_isort _ key_leb key_leb_total key_leb_trans).
  rewrite filter_app.
  assert (EZ : filter nz Z0 = []) by (unfold Z0; destruct (psl p ss); reflexivity).
  rewrite EZ. cbn [app].
  rewrite (pid_feed_sorted_none p).
  - unfold power_spec, valid_samples. f_equal. f_equal.
    rewrite (isort_map proj key_leb time_leb) by reflexivity.
    change (fun x : Q * Z => negb (snd x =? 0)) with nzs.
    rewrite (filter_isort _ time_leb time_leb_total time_leb_trans).
    f_equal. unfold cs, samples_of.
    rewrite (flat_map_filter_map (fun s => sampled s && (s_pid s =? p)) (fun s => (s_ts4 s, s_charge s))).
    fold (psl p ss). rewrite (filter_map_comm (fun s => (s_ts4 s, s_charge s)) nzs).
    rewrite (filter_map_comm sample_counter nz). rewrite map_map. reflexivity.
  - apply isort_Forall. rewrite Forall_forall. intros c Hc. apply filter_In in Hc. destruct Hc as [Hc Hnz].
    unfold cs in Hc. apply in_map_iff in Hc. destruct Hc as (s & <- & Hs).
    unfold psl in Hs. apply filter_In in Hs. destruct Hs as [Hin Hs]. apply andb_prop in Hs. destruct Hs as [Hsm Hp].
    unfold charges_32bit in H32. rewrite Forall_forall in H32. specialize (H32 s Hin).
    unfold nz in Hnz. cbn [sample_counter c_q] in Hnz. apply negb_true_iff in Hnz. apply Z.eqb_neq in Hnz.
    unfold good. cbn [sample_counter c_pid c_ts c_key c_cat c_q]. apply Z.eqb_eq in Hp.
    repeat split; try assumption; try lia.
    unfold sampled in Hsm. apply andb_prop in Hsm. destruct Hsm as [Hsm _]. apply andb_prop in Hsm.
    destruct Hsm as [Hsm _]. apply andb_prop in Hsm. destruct Hsm as [_ Hsm]. apply negb_true_iff in Hsm. exact Hsm.
  - apply isort_SSorted; [apply key_leb_total|apply key_leb_trans].
Qed.

Lemma firsts_pids_order ss : firsts_acc [] (map c_pid (cnts (fun _ => false) ss)) = pids_order ss.
Proof. rewrite firsts_cnts. reflexivity. Qed.

Lemma power_run_spec ss : charges_32bit ss ->
  power_run false (map ESlice ss) = map ESlice ss ++ flat_map (fun p => power_spec p ss) (pids_order ss).
Proof.
  intros H32. rewrite power_run_compose, sort_extract_stream. unfold power_stream.
  rewrite power_feed_app, power_feed_slices.
  set (G := fun p => isort key_leb (queue_of p (cnts (fun _ => false) ss))).
  pose proof (power_feed_groups false G (firsts_acc [] (map c_pid (cnts (fun _ => false) ss)))
                (fun _ => None)) as HG.
  change (fun p => map ECnt (isort key_leb (queue_of p (cnts (fun _ => false) ss))))
    with (fun p => map ECnt (G p)).
  destruct (power_feed false (fun _ => None)
              (flat_map (fun p => map ECnt (G p)) (firsts_acc [] (map c_pid (cnts (fun _ => false) ss)))))
    as [s2 o2]. cbn [snd] in *. f_equal. rewrite HG.
  - rewrite firsts_pids_order. apply flat_map_ext. intros p. unfold G. apply rank_output. exact H32.
  - apply (firsts_acc_spec _ []). constructor.
  - reflexivity.
  - intros p. unfold G. apply isort_Forall. unfold queue_of. rewrite Forall_forall. intros c Hc.
    apply filter_In in Hc. destruct Hc as [_ Hc]. apply Z.eqb_eq in Hc. exact Hc.
Qed.

(* ================================================================== 6. bounds, time order, energy *)
Lemma SSorted_filter {A} (R : A -> A -> Prop) f l : StronglySorted R l -> StronglySorted R (filter f l).
Proof.
  induction 1 as [|a l Hl IH Ha]; cbn; [constructor|]. destruct (f a); [|exact IH].
  constructor; [exact IH|]. rewrite Forall_forall in *. intros x Hx. apply filter_In in Hx. apply Ha. apply Hx.
Qed.

Lemma dedup_from_strict l : forall t0,
  StronglySorted (le_of _ time_leb) l -> Forall (fun x => (t0 <= fst x)%Q) l ->
  strict_times (dedup_from t0 l) /\ Forall (fun x => (t0 < fst x)%Q) (dedup_from t0 l).
Proof.
  induction l as [|x r IH]; intros t0 Hs Hle; cbn [dedup_from]; [split; constructor|].
  inversion Hs as [|? ? Hr Hall]; subst. inversion Hle as [|? ? Hx Hler]; subst.
  destruct (Qeq_bool t0 (fst x)) eqn:E.
  - apply IH; assumption.
  - assert (Hlt : (t0 < fst x)%Q).
    { apply Qle_lteq in Hx. destruct Hx as [Hx|Hx]; [exact Hx|]. apply Qeq_bool_iff in Hx. congruence. }
    assert (Hall' : Forall (fun y => (fst x <= fst y)%Q) r).
    { rewrite Forall_forall in *. intros y Hy. apply Qle_bool_iff. apply (Hall y Hy). }
    destruct (IH (fst x) Hr Hall') as [I1 I2]. split.
    + constructor; assumption.
    + constructor; [exact Hlt|]. rewrite Forall_forall in *. intros y Hy.
      apply Qlt_trans with (fst x); [exact Hlt|apply I2; exact Hy].
Qed.
Lemma dedup_strict l : StronglySorted (le_of _ time_leb) l -> strict_times (dedup l).
Proof.
  intros Hs. destruct l as [|x r]; [constructor|]. cbn [dedup].
  inversion Hs as [|? ? Hr Hall]; subst.
  assert (Hall' : Forall (fun y => (fst x <= fst y)%Q) r).
  { rewrite Forall_forall in *. intros y Hy. apply Qle_bool_iff. apply (Hall y Hy). }
  destruct (dedup_from_strict r (fst x) Hr Hall') as [I1 I2]. constructor; assumption.
Qed.
Lemma valid_samples_strict p ss : strict_times (valid_samples p ss).
Proof.
  unfold valid_samples. apply dedup_strict. apply SSorted_filter.
  apply isort_SSorted; [apply time_leb_total|apply time_leb_trans].
Qed.

Lemma pairs_cons2 {A B} (f : A -> A -> B) a b r : pairs f (a :: b :: r) = f a b :: pairs f (b :: r).
Proof. reflexivity. Qed.

Lemma pairs_in {A B} (f : A -> A -> B) l e : In e (pairs f l) -> exists a b, In a l /\ In b l /\ e = f a b.
Proof.
  induction l as [|a [|b r] IH]; [intros []|intros []|]. rewrite pairs_cons2.
  intros [<-|H].
  - exists a, b. cbn. auto.
  - destruct (IH H) as (a' & b' & Ha & Hb & ->). exists a', b'. split; [right; exact Ha|]. split; [right; exact Hb|reflexivity].
Qed.

Lemma pairs_times_sorted p l : strict_times l -> StronglySorted Qlt (map pow_ts (pairs (Fpow p) l)).
Proof.
  induction l as [|a [|b r] IH]; intros Hs; [constructor|constructor|]. rewrite pairs_cons2. cbn [map]. constructor.
  - apply IH. inversion Hs; assumption.
  - inversion Hs as [|? ? Hr Hall]; subst. rewrite Forall_forall. intros t Ht. apply in_map_iff in Ht.
    destruct Ht as (e & <- & He). apply pairs_in in He. destruct He as (a' & b' & Ha' & _ & ->).
    cbn [Fpow pow_ts fst]. rewrite Forall_forall in Hall. apply (Hall a' Ha').
Qed.

Lemma watts_spec_bounds a b : (fst a < fst b)%Q -> (0 <= watts_spec a b)%Q /\ (watts_spec a b <= CAP)%Q.
Proof. intros H. unfold watts_spec. apply clamp_bounds. apply raw_nonneg; [apply mod_nonneg|exact H]. Qed.

Lemma pairs_ok p l : strict_times l -> Forall ok_ev (pairs (Fpow p) l).
Proof.
  induction l as [|a [|b r] IH]; intros Hs; [constructor|constructor|]. rewrite pairs_cons2. constructor.
  - cbn [Fpow ok_ev]. apply watts_spec_bounds. inversion Hs as [|? ? _ Hall]; subst. inversion Hall; assumption.
  - apply IH. inversion Hs; assumption.
Qed.

Lemma power_run_ok ss : charges_32bit ss -> Forall ok_ev (power_run false (map ESlice ss)).
Proof.
  intros H32. rewrite power_run_spec by exact H32. apply Forall_app. split.
  - rewrite Forall_forall. intros e He. apply in_map_iff in He. destruct He as (s & <- & _). exact I.
  - rewrite Forall_forall. intros e He. apply in_flat_map in He. destruct He as (p & _ & He).
    pose proof (pairs_ok p (valid_samples p ss) (valid_samples_strict p ss)) as H.
    rewrite Forall_forall in H. apply H. exact He.
Qed.
Lemma ok_no_err o : Forall ok_ev o -> existsb is_err o = false.
Proof.
  induction 1 as [|e r He Hr IH]; cbn; [reflexivity|]. rewrite IH. destruct e; cbn in *; try reflexivity; contradiction.
Qed.

(* ---- energy *)
Lemma pair_energy a b : (fst a < fst b)%Q -> (unclamped a b <= CAP)%Q ->
  (watts_spec a b * (fst b - fst a) == VOLT * LSB * inject_Z ((snd b - snd a) mod W32))%Q.
Proof.
  intros Hlt Hc. unfold watts_spec. fold (unclamped a b). unfold clamp, Qlt_b.
  apply Qle_bool_iff in Hc. rewrite Hc. cbn [negb]. unfold unclamped, Qdiv.
  assert (Hne : ~ (fst b - fst a == 0)%Q).
  { intro E. unfold Qminus in E. apply Qlt_minus_iff in Hlt. rewrite E in Hlt. discriminate. }
  rewrite <- Qmult_assoc. rewrite (Qmult_comm (/ (fst b - fst a))). rewrite Qmult_inv_r by exact Hne. ring.
Qed.

Lemma energy_eq vs : strict_times vs -> no_clamp vs ->
  (energy vs == VOLT * LSB * inject_Z (dcharge_sum vs))%Q.
Proof.
  unfold energy, dcharge_sum, no_clamp.
  induction vs as [|a [|b r] IH]; intros Hs Hn; [cbn; ring|cbn; ring|]. rewrite !pairs_cons2 in *.
  cbn [qsum zsum fold_right].
  inversion Hs as [|? ? Hr Hall]; subst. inversion Hn as [|? ? Hc Hn']; subst.
  rewrite inject_Z_plus. rewrite pair_energy; [|inversion Hall; assumption|exact Hc].
  unfold qsum, zsum in IH. rewrite (IH Hr Hn'). ring.
Qed.

Lemma wrap_step ua ub : 0 <= ub - ua < W32 -> (ub mod W32 - ua mod W32) mod W32 = ub - ua.
Proof. intros H. rewrite <- Zminus_mod. apply Z.mod_small. exact H. Qed.

Lemma dcharge_sum_unwrapped vs : forall us,
  map snd vs = map (fun u => u mod W32) us -> mono_steps us ->
  dcharge_sum vs = last us 0 - hd 0 us.
Proof.
  unfold dcharge_sum, mono_steps.
  induction vs as [|a [|b r] IH]; intros us Hm Hst.
  - destruct us; [reflexivity|discriminate].
  - destruct us as [|ua [|ub ur]]; try discriminate. cbn. lia.
  - destruct us as [|ua [|ub ur]]; try discriminate.
    cbn [map] in Hm. injection Hm as Ha Hb Hr.
    rewrite pairs_cons2 in Hst. inversion Hst as [|? ? Hd Hst']; subst.
    rewrite pairs_cons2. cbn [zsum fold_right]. unfold zsum in IH.
    rewrite (IH (ub :: ur)); [|cbn [map]; rewrite Hb, Hr; reflexivity|exact Hst'].
    rewrite Ha, Hb, wrap_step by exact Hd. cbn [hd]. 
    change (last (ua :: ub :: ur) 0) with (last (ub :: ur) 0). lia.
Qed.

Lemma equal_readings_zero a b : snd a = snd b -> (watts_spec a b == 0)%Q.
Proof.
  intros E. unfold watts_spec. rewrite E, Z.sub_diag. cbn [Z.modulo Z.div_eucl].
  unfold clamp, Qlt_b.
  assert (H : (VOLT * inject_Z 0 * LSB / (fst b - fst a) == 0)%Q).
  { unfold Qdiv. change (inject_Z 0) with 0%Q. ring. }
  destruct (Qle_bool (VOLT * inject_Z 0 * LSB / (fst b - fst a)) CAP); cbn [negb]; [exact H|reflexivity].
Qed.

(* C10_values: the i-th emitted event of a rank *)
Lemma pairs_nth {A B} (f : A -> A -> B) l : forall i a b,
  nth_error l i = Some a -> nth_error l (S i) = Some b -> nth_error (pairs f l) i = Some (f a b).
Proof.
  induction l as [|x [|y r] IH]; intros i a b Ha Hb.
  - destruct i; discriminate.
  - destruct i as [|[|i]]; discriminate.
  - destruct i as [|i].
    + cbn in Ha, Hb. injection Ha as <-. injection Hb as <-. reflexivity.
    + rewrite pairs_cons2. cbn [nth_error]. apply IH; [exact Ha|exact Hb].
Qed.
Lemma pairs_length {A B} (f : A -> A -> B) l : List.length (pairs f l) = pred (List.length l).
Proof.
  induction l as [|x [|y r] IH]; try reflexivity. rewrite pairs_cons2. cbn [List.length] in *. rewrite IH. reflexivity.
Qed.
