(* Power_proofs.v — lemmas about the model in Power.v (see props/C10.v for the property theorems). *)
From Coq Require Import ZArith QArith List Bool String Lia.
Import ListNotations.
From AiuModel Require Import Base Pipeline Power.
Local Open Scope Z_scope.

Lemma cutoff_is_double_tenth : (1 # 10 < cutoff)%Q /\ (cutoff < (1 # 10) + (1 # 100000000000000000))%Q.
Proof. split; reflexivity. Qed.
