(* Overflow.v — layer B kernel: 32-bit cycle-counter wrap correction (property C05).

   Code modelled (src/aiu_trace_analyzer/pipeline/normalize.py, the tree AFTER fix f6a56e9):
     NormalizationContext._get_ref_ts                 -> [ref_idx]      (name suffix -> TS index)
     NormalizationContext.queue_hash                  -> [qid_of]       (hash(pid): -1 and -2 collide)
     NormalizationContext.tsx_32bit_local_correction  -> [parse], [local_fix], [first_of], [phase1_ev]
     NormalizationContext.init_reference_overflow,
                          update_reference_overflow   -> [epoch_start], [upd_epoch]
     NormalizationContext.frequency_stats             -> [fstat]  (only its two float divisions:
                                                         dur == 0 and an Exec slice at the ts of the
                                                         previous Exec slice of the queue raise
                                                         ZeroDivisionError; the statistics themselves
                                                         are only logged)
     NormalizationContext.get_overflow_count,
                          tsx_32bit_global_correction -> [phase2_ev]  (incl. the lazily created
                                                         reference of a queue phase 1 never saw and
                                                         the assert unless --ignore_crit)
     normalize_phase1 / normalize_phase2              -> [phase1] / [phase2]  (non-X events and
                                                         events without args.TS1 pass untouched)
     core/acelyzer.py::register_processing_functions  -> [run]: normalize_phase1, pipeline_barrier,
                                                         normalize_phase2 share one context with the
                                                         barrier between them = phase 1 over the whole
                                                         stream, then phase 2 over the whole stream
                                                         from the final phase-1 state ([pipe_run] in
                                                         Overflow_proofs.v instantiates Pipeline.v with
                                                         exactly this stage list and is proved equal).
   Not modelled: the event limiter / --event_filter (C17; default limiter keeps every slice with
   ts+dur >= 0), the warnings, frequency_minmax (logging only), jobname lookup.
   Exceptions escaping a callback abort the whole run: the model returns [Err tag] for the run.
   Numbers: counters [Z]; host times and the frequency [Q] (exact; the tie uses the exact grid). *)
From Coq Require Import ZArith QArith Qround List Bool String Ascii.
Import ListNotations.
From AiuModel Require Import Base.
Local Open Scope Z_scope.

Definition W : Z := 4294967296.                 (* 1 << 32 *)
Definition NEG48 : Z := -281474976710656.       (* -(1 << 48), the loops' initial [prev] *)

Inductive res (A : Type) : Type := Ok (a : A) | Err (tag : string).
Arguments Ok {A} a.
Arguments Err {A} tag.

(* the value found under args["TSk"] after _attr_to_args/_hex_to_int_str *)
Inductive tsv : Type :=
| TMissing            (* key absent                                   -> KeyError   *)
| TInt (z : Z)        (* JSON number: int(x, 0) on a non-string       -> TypeError  *)
| TStr (z : Z)        (* decimal or 0x... string with value z                        *)
| TBad.               (* a string int(x, 0) cannot parse              -> ValueError *)

Record ev : Type := mkev {
  e_x : bool;          (* ph == "X" *)
  e_pid : Z;
  e_name : string;
  e_ts : Q;
  e_dur : Q;
  e_tsx : list tsv     (* args.TS1 .. args.TS5 *)
}.

(* ---- names ---- *)
Definition ends_with (suf s : string) : bool :=
  let ls := String.length s in
  let lf := String.length suf in
  if Nat.leb lf ls then String.eqb (substring (ls - lf) lf s) suf else false.
Definition contains (sub s : string) : bool :=
  match index 0 sub s with Some _ => true | None => false end.

(* _get_ref_ts: 0-based index of the counter the host ts of the slice belongs to *)
Definition ref_idx (name : string) : nat :=
  if ends_with " DmaI" name then 0%nat
  else if ends_with " Cmpt Prep" name then 1%nat
  else if ends_with " Cmpt Exec" name then 2%nat
  else if ends_with " DmaO" name then 3%nat
  else 0%nat.

(* queue_hash = hash(pid); CPython: hash(n) = n for small ints except hash(-1) = -2 *)
Definition qid_of (pid : Z) : Z := if pid =? -1 then -2 else pid.

(* ---- tables keyed by queue id (a dict; newest binding first) ---- *)
Fixpoint lookup {A : Type} (k : Z) (t : list (Z * A)) : option A :=
  match t with
  | [] => None
  | (k', v) :: r => if k =? k' then Some v else lookup k r
  end.

(* ---- phase 1 ---- *)
Definition present (v : tsv) : bool := match v with TMissing => false | _ => true end.

(* int(args[ts], 0) for TS1..TS5 in order; the first failing key decides the exception *)
Fixpoint parse (l : list tsv) : res (list Z) :=
  match l with
  | [] => Ok []
  | TMissing :: _ => Err "KeyError"
  | TInt _ :: _ => Err "TypeError"
  | TBad :: _ => Err "ValueError"
  | TStr z :: r => match parse r with Ok zs => Ok (z :: zs) | Err t => Err t end
  end.

(* one step of the loop: a value below its (corrected) predecessor gets one 2^32 *)
Definition lstep (prev raw : Z) : Z := if raw <? prev then raw + W else raw.
Fixpoint local_fix (prev : Z) (l : list Z) : list Z :=
  match l with
  | [] => []
  | raw :: r => let c := lstep prev raw in c :: local_fix c r
  end.
(* args.TSxOF: index of the first counter that was found below its predecessor *)
Fixpoint first_of (prev : Z) (k : Z) (l : list Z) : option Z :=
  match l with
  | [] => None
  | raw :: r => if raw <? prev then Some k else first_of (lstep prev raw) (k + 1) r
  end.

Definition SPAN (f : Q) : Q := (inject_Z W / f)%Q.                 (* OVERFLOW_TIME_SPAN_US *)
Definition epoch_start (f ts : Q) (cycle : Z) : Q := (ts - inject_Z cycle / f)%Q.

(* update_reference_overflow: first value, then any strictly earlier one *)
Definition upd_epoch (q : Z) (es : Q) (t : list (Z * Q)) : list (Z * Q) :=
  match lookup q t with
  | None => (q, es) :: t
  | Some old => if Qlt_b es old then (q, es) :: t else t
  end.

(* frequency_stats, reduced to what can escape: float(dur_cycles) / dur (the second division,
   float(gap_cycles) / (ts - ts of the queue's previous Exec slice), is guarded since /repo fix C02d) *)
Definition fstat (le : list (Z * Q)) (e : ev) : res (list (Z * Q)) :=
  if contains "Cmpt Exec" (e_name e) then
    if Qeq_b (e_dur e) 0 then Err "ZeroDivisionError"
    else Ok ((qid_of (e_pid e), e_ts e) :: le)    (* gap_time = 0 no longer divides (fix C02d): dur_freq is used *)
  else Ok le.

Record st : Type := mkst {
  epochs : list (Z * Q);        (* queues[qid]["0"][0] *)
  lastexec : list (Z * Q)       (* prev_event_data[qid][interval].ts *)
}.
Definition st0 : st := mkst [] [].

(* an event between the two phases *)
Inductive mid : Type :=
| MPass                                   (* not an X slice, or no args.TS1 *)
| MRaw                                    (* TS1 present, reference counter absent: untouched *)
| MFix (q : Z) (r : nat) (ts : Q) (cs : list Z) (tof : option Z).

Definition phase1_ev (f : Q) (s : st) (e : ev) : res (st * mid) :=
  if negb (e_x e) then Ok (s, MPass)
  else if negb (present (nth 0 (e_tsx e) TMissing)) then Ok (s, MPass)
  else
    let r := ref_idx (e_name e) in
    if negb (present (nth r (e_tsx e) TMissing)) then Ok (s, MRaw)
    else match parse (e_tsx e) with
         | Err t => Err t
         | Ok raw =>
             let cs := local_fix NEG48 raw in
             let q := qid_of (e_pid e) in
             let ep := upd_epoch q (epoch_start f (e_ts e) (nth r cs 0)) (epochs s) in
             match fstat (lastexec s) e with
             | Err t => Err t
             | Ok le => Ok (mkst ep le, MFix q r (e_ts e) cs (first_of NEG48 1 raw))
             end
         end.

Fixpoint phase1 (f : Q) (s : st) (evs : list ev) : res (st * list mid) :=
  match evs with
  | [] => Ok (s, [])
  | e :: r =>
      match phase1_ev f s e with
      | Err t => Err t
      | Ok (s1, m) =>
          match phase1 f s1 r with
          | Err t => Err t
          | Ok (s2, ms) => Ok (s2, m :: ms)
          end
      end
  end.

(* ---- phase 2 ---- *)
Inductive out : Type :=
| OPass
| OFix (cs : list Z) (ovc : Z) (tof : option Z).

Fixpoint mono (prev : Z) (l : list Z) : bool :=
  match l with
  | [] => true
  | c :: r => if c <? prev then false else mono c r
  end.

Definition phase2_ev (f : Q) (ic : bool) (t : list (Z * Q)) (m : mid) : res (list (Z * Q) * out) :=
  match m with
  | MPass => Ok (t, OPass)
  | MRaw => Err "KeyError"
  | MFix q r ts cs tof =>
      let refc := nth r cs 0 in
      let le := refc / W in                         (* ref_cycle >> 32 (floor) *)
      let cyc := refc - le * W in
      let es := epoch_start f ts cyc in
      let t' := match lookup q t with None => (q, es) :: t | Some _ => t end in
      let e0 := match lookup q t with None => es | Some x => x end in
      let elapsed := Qfloor ((ts - e0) / SPAN f) in
      let ovc := elapsed - le in
      let cs' := map (fun c => c + ovc * W) cs in
      if ic || mono NEG48 cs' then Ok (t', OFix cs' ovc tof) else Err "AssertionError"
  end.

Fixpoint phase2 (f : Q) (ic : bool) (t : list (Z * Q)) (ms : list mid) : res (list out) :=
  match ms with
  | [] => Ok []
  | m :: r =>
      match phase2_ev f ic t m with
      | Err tg => Err tg
      | Ok (t1, o) =>
          match phase2 f ic t1 r with
          | Err tg => Err tg
          | Ok os => Ok (o :: os)
          end
      end
  end.

(* whole run: the barrier makes phase 2 start from the final phase-1 state *)
Definition run (f : Q) (ic : bool) (evs : list ev) : res (list out) :=
  match phase1 f st0 evs with
  | Err t => Err t
  | Ok (s, ms) => phase2 f ic (epochs s) ms
  end.

(* ---- encoders for the tie ---- *)
Definition out_val (o : out) : val :=
  match o with
  | OPass => VN
  | OFix cs ovc tof => VL [VLz cs; VZ ovc; Vopt VZ tof]
  end.
Definition res_val {A : Type} (fv : A -> val) (r : res A) : val :=
  match r with Ok a => fv a | Err t => VE t end.
(* [keep] selects the events whose outcome the tie observes (end to end, Prep slices are removed by a later
   stage unless --keep_prep; they still take part in phase 1); all [true] for the direct drive *)
Fixpoint select {A : Type} (keep : list bool) (l : list A) : list A :=
  match keep, l with
  | k :: kr, x :: r => if k then x :: select kr r else select kr r
  | _, _ => []
  end.
Definition run_val (x : Q * bool * list ev * list bool) : val :=
  let '(f, ic, evs, keep) := x in res_val (fun os => VL (map out_val (select keep os))) (run f ic evs).

(* classifier tie: [ref index; "Cmpt Exec" in name] *)
Definition name_val (s : string) : val :=
  VL [VZ (Z.of_nat (ref_idx s)); VB (contains "Cmpt Exec" s)].

(* rule used to count non-trivial cases inside Coq: some slice of the run crosses or follows a wrap,
   i.e. an exported OVC is non-zero or a local correction happened *)
Definition has_wrap (x : Q * bool * list ev * list bool) : bool :=
  let '(f, ic, evs, _) := x in
  match run f ic evs with
  | Err _ => false
  | Ok os => existsb (fun o => match o with
                               | OFix _ ovc tof => negb (ovc =? 0) || match tof with Some _ => true | None => false end
                               | OPass => false end) os
  end.
