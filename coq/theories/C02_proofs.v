(* C02_proofs.v — lemmas for C02: export-side schema facts (Schema.v) and the scratch-data suffix argument on the
   generated registration program (C02Model.v + Suffix.v). *)
From Coq Require Import ZArith QArith List Bool String Arith Lia.
Import ListNotations.
From AiuModel Require Import Base Pipeline Profile Suffix Schema C02Model.
From AiuGen Require Import Registration Profiles.
Local Open Scope string_scope.

(* ---------------- Schema ---------------- *)
Ltac req_cases :=
  repeat match goal with
         | H : context [req ?k ?d _] |- _ => unfold req at 1 in H; destruct (get k d) eqn:?; [cbv beta in H|discriminate H]
         | H : context [stripped ?n _] |- _ => unfold stripped at 1 in H; destruct n; try discriminate H; cbv beta in H
         end.

(* an exported counter never carries a dur, whatever the pipeline event looked like *)
Lemma from_dict_counter_no_dur d e :
  from_dict d = Ok e -> get "ph" e = Some (JStr "C") -> has "dur" e = false.
Proof.
  unfold from_dict. destruct (get "ph" d) as [[| | |ph| | | |]|]; try discriminate.
  destruct (String.eqb ph "X") eqn:EX.
  { intros H. req_cases. injection H as <-. cbn. discriminate. }
  destruct (String.eqb ph "C") eqn:EC.
  { intros H. req_cases. injection H as <-. intros _. reflexivity. }
  destruct (String.eqb ph "B" || String.eqb ph "E") eqn:EB.
  { intros H. req_cases. injection H as <-. cbn. intros H; injection H as ->. cbn in EC. discriminate. }
  destruct (String.eqb ph "b" || String.eqb ph "e") eqn:Eb.
  { intros H. req_cases. injection H as <-. cbn. intros H; injection H as ->. cbn in EC. discriminate. }
  destruct (String.eqb ph "s" || String.eqb ph "f") eqn:Es.
  { intros H. req_cases. injection H as <-. cbn. intros H; injection H as ->. cbn in EC. discriminate. }
  destruct (String.eqb ph "M") eqn:EM.
  { intros H. req_cases. injection H as <-. cbn. discriminate. }
  destruct (String.eqb ph "i") eqn:Ei.
  { intros H. req_cases. injection H as <-. cbn. discriminate. }
  discriminate.
Qed.

(* helper events of the flow matching (ph "F") can never be converted: from_dict raises *)
Lemma from_dict_rejects_F d : get "ph" d = Some (JStr "F") -> from_dict d = Err "Exception".
Proof. intros H. unfold from_dict. rewrite H. reflexivity. Qed.

Lemma get_set_same k v : forall d, get k (set k v d) = Some v.
Proof.
  induction d as [|[k' v'] r IH]; cbn [set get]; [now rewrite String.eqb_refl|].
  destruct (String.eqb k k') eqn:E; cbn [get]; [now rewrite String.eqb_refl|]. rewrite E. exact IH.
Qed.
Lemma get_set_other k k' v : k' <> k -> forall d, get k' (set k v d) = get k' d.
Proof.
  intros Hn. induction d as [|[k0 v0] r IH]; cbn [set get].
  - destruct (String.eqb_spec k' k); [congruence|reflexivity].
  - destruct (String.eqb_spec k k0) as [->|]; cbn [get].
    + destruct (String.eqb_spec k' k0); [congruence|reflexivity].
    + rewrite IH. reflexivity.
Qed.
Lemma get_app_r k d x : get k d = None -> get k (d ++ x)%list = get k x.
Proof. induction d as [|[k' v'] r IH]; cbn [app get]; [reflexivity|]. destruct (String.eqb k k'); [discriminate|exact IH]. Qed.
Lemma get_app_l k d x v : get k d = Some v -> get k (d ++ x)%list = Some v.
Proof. induction d as [|[k' v'] r IH]; cbn [app get]; [discriminate|]. destruct (String.eqb k k'); [auto|exact IH]. Qed.

(* convert never changes ph/ts/pid/dur/tid/name of the pipeline event *)
Lemma prep_top k d : mem k known_top = true -> k <> "args" ->
  get k (move_unknown (ensure_args d)) = get k d.
Proof.
  intros Hk Hn. unfold move_unknown, ensure_args.
  destruct (has "args" d) eqn:Ha.
  - destruct (get "args" d) as [[| | | | | | |a]|]; try reflexivity. now apply get_set_other.
  - unfold has in Ha. destruct (get "args" d) eqn:Eg; [discriminate|].
    rewrite (get_app_r _ _ _ Eg). cbn [get]. rewrite String.eqb_refl.
    rewrite get_set_other by exact Hn.
    destruct (get k d) eqn:Ek; [now apply get_app_l|]. rewrite (get_app_r _ _ _ Ek). cbn [get].
    destruct (String.eqb_spec k "args"); [congruence|reflexivity].
Qed.

(* a well-formed slice converts to a valid exported slice *)
Definition slice_in (d : dict) : bool :=
  match get "ph" d with Some (JStr ph) => String.eqb ph "X" | _ => false end &&
  chk "name" is_str d && chk "pid" is_int d && chk "ts" is_finite_num d &&
  chk "dur" (fun v => is_finite_num v && positive v) d && has "tid" d &&
  match get "args" d with None | Some (JObj _) => true | Some _ => false end.

Lemma convert_slice d : slice_in d = true ->
  exists e, convert d = Ok e /\ get "ph" e = Some (JStr "X") /\
            chk "name" is_str e = true /\ chk "pid" is_int e = true /\ chk "ts" is_finite_num e = true /\
            chk "dur" (fun v => is_finite_num v && positive v) e = true /\ has "tid" e = true /\
            get "ts" e = get "ts" d /\ get "dur" e = get "dur" d /\ get "pid" e = get "pid" d /\
            get "tid" e = get "tid" d /\ get "name" e = get "name" d.
Proof.
  unfold slice_in. intros H. repeat (apply andb_prop in H; destruct H as [H ?]).
  match goal with Ha : match get "args" d with _ => _ end = true |- _ => rename Ha into Hargs end.
  destruct (get "ph" d) as [[| | |ph| | | |]|] eqn:Eph; try discriminate. apply String.eqb_eq in H. subst ph.
  unfold chk, has in *.
  destruct (get "name" d) as [vn|] eqn:En; [|discriminate].
  destruct (get "pid" d) as [vp|] eqn:Ep; [|discriminate].
  destruct (get "ts" d) as [vt|] eqn:Et; [|discriminate].
  destruct (get "dur" d) as [vd|] eqn:Ed; [|discriminate].
  destruct (get "tid" d) as [vi|] eqn:Ei; [|discriminate].
  assert (Hc : exists d', (convert d = from_dict d') /\ get "ph" d' = Some (JStr "X") /\ get "name" d' = Some vn /\
                          get "pid" d' = Some vp /\ get "ts" d' = Some vt /\ get "dur" d' = Some vd /\ get "tid" d' = Some vi).
  { exists (move_unknown (ensure_args d)). split.
    - unfold convert. unfold ensure_args at 1. destruct (has "args" d) eqn:Hh.
      + unfold has in Hh. destruct (get "args" d) as [[| | | | | | |a]|]; try discriminate. reflexivity.
      + unfold has in Hh. destruct (get "args" d) eqn:Eg; [discriminate|].
        rewrite (get_app_r _ _ _ Eg). cbn [get]. rewrite String.eqb_refl. reflexivity.
    - rewrite !prep_top by (first [reflexivity|discriminate]). auto 10. }
  destruct Hc as (d' & Hc & Hph & Hn & Hp & Ht & Hd & Hi).
  rewrite Hc. unfold from_dict. rewrite Hph. cbn [String.eqb Ascii.eqb Bool.eqb]. unfold req. rewrite Hn, Ht, Hd, Hp, Hi.
  eexists. split; [reflexivity|]. cbn [get String.eqb Ascii.eqb Bool.eqb]. repeat split; auto.
Qed.

(* ---------------- scratch data: the suffix argument on the generated program ---------------- *)
Lemma pick_mask_all m : forall p i x, In x (pick m i p) -> In x (pick all_mask i p).
Proof.
  induction p as [|r p IH]; intros i x H; cbn [pick] in *; [exact H|]. unfold all_mask at 1.
  destruct (m i); [destruct H as [<-|H]; [now left|right; now apply IH]|right; now apply IH].
Qed.

Section ProgramScratch.
Variables E St : Type.
Variable clean : E -> Prop.
Variable Inv : St -> Prop.
Variable cl : cleaning.
Hypothesis Hsplit : the_program = (cl_pre cl ++ cl_c cl :: cl_post cl)%list.
Hypothesis Hstatic : static_ok cl = true.
Variable impl : nat * reg -> stage E St.
Hypothesis impl_cid : forall x, cid (impl x) = cell_of (fst x) (snd x).
Variable m : nat -> bool.
Let pc := List.length (cl_pre cl).
Hypothesis m_c : m pc = true.
Hypothesis c_cleaner : cleaner clean Inv (impl (pc, cl_c cl)).
Hypothesis post_keep : forall x, In x (pick m (S pc) (cl_post cl)) -> keeps_clean clean Inv (impl x).

Theorem program_suffix_cleans (st : store St) (es : list E) :
  (forall x, In x (pick m pc (cl_c cl :: cl_post cl)) -> Inv (st (cid (impl x)))) ->
  Forall clean (run (map impl (pick m 0 the_program)) st es).
Proof.
  intros Hst. rewrite Hsplit, pick_app. cbn [plus]. fold pc.
  assert (Hp : pick m pc (cl_c cl :: cl_post cl) = (pc, cl_c cl) :: pick m (S pc) (cl_post cl))
    by (cbn [pick]; rewrite m_c; reflexivity).
  rewrite Hp in *. rewrite map_app. cbn [map].
  apply (@suffix_cleans E St clean Inv (map impl ((pc, cl_c cl) :: pick m (S pc) (cl_post cl)))
           (impl (pc, cl_c cl)) (map impl (pick m (S pc) (cl_post cl)))).
  - reflexivity.
  - exact c_cleaner.
  - apply Forall_forall. intros g Hg. apply in_map_iff in Hg. destruct Hg as (x & <- & Hx). now apply post_keep.
  - (* no prefix stage shares a context with the suffix: from the static check on the generated program *)
    intros g h Hg Hh. apply in_map_iff in Hg. destruct Hg as (x & <- & Hx).
    apply in_map_iff in Hh. destruct Hh as (y & <- & Hy). rewrite !impl_cid.
    unfold static_ok in Hstatic. apply andb_prop in Hstatic. destruct Hstatic as [_ Ha].
    unfold apart_b in Ha. rewrite forallb_forall in Ha.
    specialize (Ha x (pick_mask_all m _ _ _ Hx)). rewrite forallb_forall in Ha.
    assert (Hy' : In y (pick all_mask pc (cl_c cl :: cl_post cl))).
    { apply (pick_mask_all m). rewrite Hp. exact Hy. }
    specialize (Ha y Hy'). apply negb_true_iff in Ha. now apply Nat.eqb_neq in Ha.
  - intros g Hg. apply in_map_iff in Hg. destruct Hg as (x & <- & Hx). now apply Hst.
Qed.
End ProgramScratch.

(* the three cleaners of the current program *)
Definition cl_flow : cleaning := match cleaning_of "flow_data_cleanup" with Some c => c | None => {| cl_pre := []; cl_c := {| r_guard := GAtom 0; r_name := ""; r_ctx := 0; r_ctor := ""; r_kwargs := [] |}; cl_post := [] |} end.
Definition cl_tsdev : cleaning := match cleaning_of "cleanup_copy_of_device_ts" with Some c => c | None => cl_flow end.
Definition cl_tsall : cleaning := match cleaning_of "cycle_count_conversion_cleanup" with Some c => c | None => cl_flow end.

Lemma cleaners_static :
  (the_program = (cl_pre cl_flow ++ cl_c cl_flow :: cl_post cl_flow)%list /\ static_ok cl_flow = true /\
   r_name (cl_c cl_flow) = "flow_data_cleanup") /\
  (the_program = (cl_pre cl_tsdev ++ cl_c cl_tsdev :: cl_post cl_tsdev)%list /\ static_ok cl_tsdev = true /\
   r_name (cl_c cl_tsdev) = "cleanup_copy_of_device_ts") /\
  (the_program = (cl_pre cl_tsall ++ cl_c cl_tsall :: cl_post cl_tsall)%list /\ static_ok cl_tsall = true /\
   r_name (cl_c cl_tsall) = "cycle_count_conversion_cleanup").
Proof. vm_compute. repeat split; reflexivity. Qed.

(* the stages whose "never re-introduces the scratch item" contract the tie has to test *)
Lemma cleaners_post_names :
  post_names cl_flow = ["cleanup_copy_of_device_ts"; "tb_refinement_intrusive"; "tb_refinement_lightweight";
                        "cycle_count_conversion_cleanup"; "calculate_stats_v2"; "sort_events"] /\
  post_names cl_tsdev = ["tb_refinement_intrusive"; "tb_refinement_lightweight"; "cycle_count_conversion_cleanup";
                         "calculate_stats_v2"; "sort_events"] /\
  post_names cl_tsall = ["calculate_stats_v2"; "sort_events"].
Proof. vm_compute. repeat split; reflexivity. Qed.

(* the cleaners are enabled in both shipped profiles *)
Lemma cleaners_enabled :
  forallb (fun n => forallb (fun P => match find P n with Some (true, _) => true | _ => false end)
                            [everything; match profile_torch_minimal with Some p => p | None => [] end])
          ["flow_data_cleanup"; "cleanup_copy_of_device_ts"; "cycle_count_conversion_cleanup"] = true.
Proof. vm_compute. reflexivity. Qed.
