(* C08Model.v — executable entry points of the C08 end-to-end correspondence: the sorter configurations named by the
   GENERATED registration program (gen/Registration.v, rewritten from core/acelyzer.py on every run) and the stream
   function of the program's LAST registration, which is what decides the order of the exported traceEvents.

   Code modelled (src/aiu_trace_analyzer/core/acelyzer.py::register_processing_functions):
     the keyword arguments of every   event_pipe.EventSortingContext(...)   constructor call, read from the constructor's
     source text that the translator stores in [r_ctor] ([cfg_of_ctor]: event_types=None | ['C'],
     sortkey=self._default_sort_ts_and_rev_dur | TS_CYCLE_KEY | absent (default "ts"), global_sort=True | absent (False)).
   harness/props/c08.py compares [sorters_val] with the real context objects that register_processing_functions creates,
   and [final_val] (inflow of the last registered stage, recorded inside a real Acelyzer run -> exported order) with the
   traceEvents list the real run wrote. *)
From Coq Require Import ZArith QArith List Bool String Ascii.
Import ListNotations.
From AiuModel Require Import Base Pipeline Profile Sort.
From AiuGen Require Import Registration.
Local Open Scope string_scope.

Fixpoint contains (pat s : string) : bool :=
  String.prefix pat s || match s with EmptyString => false | String _ r => contains pat r end.

(* [tscyc] = value of constants.TS_CYCLE_KEY (passed by the harness from the real module) *)
Definition cfg_of_ctor (tscyc : string) (s : string) : option cfg :=
  if negb (String.prefix "event_pipe.EventSortingContext(" s) then None else
  let types := if contains "event_types=None" s then Some None
               else if contains "event_types=['C']" s then Some (Some ["C"])
               else if contains "event_types=" s then None else Some None in
  let key := if contains "sortkey=self._default_sort_ts_and_rev_dur" s then Some default_sort_ts_and_rev_dur
             else if contains "sortkey=TS_CYCLE_KEY" s then Some tscyc
             else if contains "sortkey=" s then None else Some "ts" in
  let glob := if contains "global_sort=True" s then Some true
              else if contains "global_sort=" s then (if contains "global_sort=False" s then Some false else None)
              else Some false in
  match types, key, glob with
  | Some t, Some k, Some g => Some (mk_cfg t k g)
  | _, _, _ => None
  end.

(* the configuration C08 is about: EventSortingContext(event_types=None, sortkey="ts,dur:r", global_sort=True) *)
Definition final_cfg : cfg := mk_cfg None default_sort_ts_and_rev_dur true.

Definition dummy_reg : reg := {| r_guard := GAtom 0; r_name := ""; r_ctx := 0; r_ctor := ""; r_kwargs := [] |}.
Definition last_reg : reg := last the_program dummy_reg.
(* the sorter the program registers last and unconditionally, if that is what the program does *)
Definition last_sorter (tscyc : string) : option cfg :=
  if String.eqb (r_name last_reg) "sort_events" && is_true (r_guard last_reg)
  then cfg_of_ctor tscyc (r_ctor last_reg) else None.

Definition cfg_val (c : cfg) : val :=
  VL [match c_types c with None => VN | Some l => VL (map VS l) end;
      VL (map (fun kr => VL [VS (fst kr); VZ (snd kr)]) (c_key c));
      VB (c_global c)].

(* tie 3: for a valuation of the guard atoms, the configurations of all sort_events registrations, in program order *)
Definition sorters_val (x : list bool * string) : val :=
  let '(vl, tscyc) := x in
  let v := fun n => nth n vl false in
  VL (map (fun r => match cfg_of_ctor tscyc (r_ctor r) with Some c => cfg_val c | None => VE "unreadable_ctor" end)
          (filter (fun r => geval v (r_guard r) && String.eqb (r_name r) "sort_events") the_program)).

(* tie 4 (end to end): the events that entered the last registered stage, in arrival order -> the exported order *)
Definition final_val (x : string * list sev) : val :=
  let '(tscyc, inflow) := x in
  match last_sorter tscyc with
  | Some c => uids (sort_stream sev s_ph s_pid s_tid s_getk c inflow)
  | None => VE "last_registration_is_not_an_unconditional_sort_events"
  end.
