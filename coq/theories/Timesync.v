(* Timesync.v — layer B kernel: cycle-counter -> wall-clock conversion of device slices (property C06).

   Code modelled (src/aiu_trace_analyzer/pipeline/timesync.py, current tree):
     _conv_DTS_to_array_in_us                  -> [conv_dts]      (float(args[TSk]) / freq for k = 1..5 in order;
                                                                   KeyError / ValueError / ZeroDivisionError in the
                                                                   order the loop meets them; result = args.ts_dev)
     _get_DTS_rela_to_TSRef_in_us / ..TS1..    -> [rel_to]
     _convert_cycle_timestamps                 -> [ref_idx] (the chain of endswith tests, later ones override),
                                                  [convert_cycle]  (anchors the reference counter at host ts+dur,
                                                                   widens the slice to TS1, args.time_adjust,
                                                                   assert ts >= 0)
     cycle_count_to_wallclock                  -> [c2w]           (guard ph == "X" and "args" in event and "TS1" in args;
                                                                   the three assertions on ts_all)
     _match_opIds_from_event                   -> [match_op_ids]  (substring tests against op_keywords, np.nonzero)
     get_opIds_from_event                      -> [get_op_id]
     _align_hts_to_beg                         -> [align_beg]
     _align_hts_by_type                        -> [align_type]    (assert ts >= 0)
     tighten_hts_by_instr_type                 -> [tighten]       (PRE_TIGHTENED = True branch)
   src/aiu_trace_analyzer/pipeline/tools.py:
     FlexEventMapToTS.__init__/__getitem__     -> [flex_map], [flex_lookup]
   src/aiu_trace_analyzer/core/acelyzer.py::register_processing_functions registers
     cycle_count_to_wallclock, tighten_hts_by_instr_type one after the other with soc_frequency = args.freq[0]:
                                               -> [run_ev] (one event through both), [run_all] (a stream; the first
                                                  exception aborts the run).
   Not modelled: logging; the module constant PRE_TIGHTENED = False branch; TSk values that are not
   integers (floats / float strings: the pipeline hands over str(int) after normalize_phase2).
   Numbers: counters [Z]; host times, durations and the frequency [Q] (exact rationals; the tie uses the
   exact grid where every double operation of the code is exact). *)
From Coq Require Import ZArith QArith List Bool String Ascii.
Import ListNotations.
From AiuModel Require Import Base.
Local Open Scope Z_scope.

Inductive res (A : Type) : Type := Ok (a : A) | Err (tag : string).
Arguments Ok {A} a.
Arguments Err {A} tag.

(* ------------------------------------------------------------------ names *)
Definition chars (s : string) : list ascii := list_ascii_of_string s.

Fixpoint prefixb (p s : list ascii) : bool :=
  match p, s with
  | [], _ => true
  | a :: p', b :: s' => Ascii.eqb a b && prefixb p' s'
  | _ :: _, [] => false
  end.
(* Python  sub in s *)
Fixpoint containsb (p s : list ascii) : bool :=
  prefixb p s || match s with [] => false | _ :: r => containsb p r end.
Definition contains (sub s : string) : bool := containsb (chars sub) (chars s).
(* Python  s.endswith(suf) *)
Definition ends_with (suf s : string) : bool := prefixb (rev (chars suf)) (rev (chars s)).

(* op_keywords of _match_opIds_from_event *)
Definition op_keywords : list string := [" DmaI"; " Cmpt Prep"; " Cmpt Exec"; " DmaO"]%string.

Fixpoint match_from (k : nat) (kws : list string) (name : string) : list nat :=
  match kws with
  | [] => []
  | kw :: r => if contains kw name then k :: match_from (S k) r name else match_from (S k) r name
  end.
(* _match_opIds_from_event: np.nonzero of the containment vector *)
Definition match_op_ids (name : string) : list nat := match_from 0 op_keywords name.
Definition op_of (name : string) : option nat := hd_error (match_op_ids name).
(* get_opIds_from_event *)
Definition get_op_id (name : string) : nat := match op_of name with Some k => k | None => 0%nat end.

(* _convert_cycle_timestamps: ref_idx = 4, then three independent `if name.endswith(..)` in this order *)
Definition ref_rules : list (string * nat) :=
  [("Cmpt Prep", 2%nat); (" DmaI", 1%nat); ("Cmpt Exec", 3%nat)]%string.
Definition ref_idx (name : string) : nat :=
  fold_left (fun acc r => if ends_with (fst r) name then snd r else acc) ref_rules 4%nat.

(* FlexEventMapToTS: insertion-ordered dict, first key that is a substring of the name; TSk as k *)
Definition flex_map : list (string * (nat * nat)) :=
  [("DmaI", (1, 2)); ("Cmpt Prep", (2, 3)); ("Cmpt Exec", (3, 4)); ("DmaO", (4, 5))]%string%nat.
Fixpoint flex_find (m : list (string * (nat * nat))) (name : string) : option (nat * nat) :=
  match m with
  | [] => None
  | (k, v) :: r => if contains k name then Some v else flex_find r name
  end.
Definition flex_lookup (name : string) : option (nat * nat) := flex_find flex_map name.

(* ------------------------------------------------------------------ events *)
(* the value under args["TSk"] as float() sees it *)
Inductive tsv : Type :=
| TMissing            (* key absent                          -> KeyError   *)
| TNum (z : Z)        (* int, or a decimal string of an int                *)
| TBad.               (* a string float() cannot parse       -> ValueError *)

Record ev : Type := mkev {
  e_x : bool;                    (* ph == "X" *)
  e_args : bool;                 (* "args" in event *)
  e_name : string;
  e_ts : Q;
  e_dur : Q;
  e_tsx : list tsv;              (* args.TS1 .. args.TS5 *)
  e_all : option (list Q);       (* args.ts_all *)
  e_dev : option (list Q);       (* args.ts_dev *)
  e_adj : option (Q * Q)         (* args.time_adjust = {ts, dur} *)
}.

Definition tsx_at (e : ev) (k : nat) : tsv := nth k (e_tsx e) TMissing.
Definition present (v : tsv) : bool := match v with TMissing => false | _ => true end.
(* event["ph"] == "X" and "args" in event and "TS1" in event["args"] *)
Definition guard (e : ev) : bool := e_x e && e_args e && present (tsx_at e 0).

(* _conv_DTS_to_array_in_us: for TS1..TS5 in order  float(args[ts]) / freq *)
Fixpoint conv_list (f : Q) (l : list tsv) : res (list Q) :=
  match l with
  | [] => Ok []
  | TMissing :: _ => Err "KeyError"
  | TBad :: _ => Err "ValueError"
  | TNum z :: r =>
      if Qeq_bool f 0 then Err "ZeroDivisionError"
      else match conv_list f r with
           | Ok xs => Ok ((inject_Z z / f)%Q :: xs)
           | Err t => Err t
           end
  end.
Definition conv_dts (f : Q) (e : ev) : res (list Q) :=
  conv_list f [tsx_at e 0; tsx_at e 1; tsx_at e 2; tsx_at e 3; tsx_at e 4]%nat.

Definition qn (l : list Q) (k : nat) : Q := nth k l 0%Q.
(* [converted[i] - converted[ref] for i in range(5)] *)
Definition rel_to (r : nat) (xs : list Q) : list Q := map (fun x => (x - qn xs r)%Q) xs.

Fixpoint mono (l : list Q) : bool :=
  match l with
  | a :: ((b :: _) as r) => Qle_bool a b && mono r
  | _ => true
  end.

(* _convert_cycle_timestamps (+ the ts_dev side effect of _conv_DTS_to_array_in_us) *)
Definition convert_cycle (f : Q) (e : ev) : res (ev * list Q) :=
  let r := ref_idx (e_name e) in
  let tref := (e_ts e + e_dur e)%Q in
  match conv_dts f e with
  | Err t => Err t
  | Ok xs =>
      let conv := map (fun d => (tref + d)%Q) (rel_to r xs) in
      let dur' := (qn conv r - qn conv 0)%Q in
      let ts' := (tref - dur')%Q in
      let adj := if negb (Qeq_bool ts' (e_ts e)) || negb (Qeq_bool dur' (e_dur e))
                 then Some ((ts' - e_ts e)%Q, (dur' - e_dur e)%Q) else e_adj e in
      if Qle_bool 0 ts'
      then Ok (mkev (e_x e) (e_args e) (e_name e) ts' dur' (e_tsx e) (e_all e) (Some xs) adj, conv)
      else Err "AssertionError"
  end.

(* cycle_count_to_wallclock *)
Definition c2w (f : Q) (e : ev) : res ev :=
  if guard e then
    match convert_cycle f e with
    | Err t => Err t
    | Ok (e1, conv) =>
        if Qle_bool (qn conv 0) (e_ts e1)
           && Qle_bool (e_ts e1 + e_dur e1)%Q (qn conv 4)
           && mono conv
        then Ok (mkev (e_x e1) (e_args e1) (e_name e1) (e_ts e1) (e_dur e1) (e_tsx e1)
                      (Some conv) (e_dev e1) (e_adj e1))
        else Err "AssertionError"
    end
  else Ok e.

(* _align_hts_to_beg *)
Definition align_beg (f : Q) (e : ev) : res ev :=
  match conv_dts f e with
  | Err t => Err t
  | Ok xs =>
      let conv := map (fun d => (e_ts e + d)%Q) (rel_to 0 xs) in
      Ok (mkev (e_x e) (e_args e) (e_name e) (e_ts e) (qn conv 4 - qn conv 0)%Q (e_tsx e)
               (Some conv) (Some xs) (e_adj e))
  end.

(* _align_hts_by_type *)
Definition align_type (op : nat) (f : Q) (e : ev) : res ev :=
  match conv_dts f e with
  | Err t => Err t
  | Ok xs =>
      let rel := rel_to 0 xs in
      let hts_end := (e_ts e + e_dur e)%Q in
      let dur' := (qn rel (S op) - qn rel op)%Q in          (* dts_intervals[op_id] *)
      let ts' := (hts_end - dur')%Q in
      if Qle_bool 0 ts'
      then Ok (mkev (e_x e) (e_args e) (e_name e) ts' dur' (e_tsx e)
                    (Some (map (fun d => (d - qn rel (S op) + hts_end)%Q) rel)) (Some xs) (e_adj e))
      else Err "AssertionError"
  end.

(* tighten_hts_by_instr_type *)
Definition tighten (f : Q) (e : ev) : res ev :=
  if guard e then
    match op_of (e_name e) with
    | None => align_beg f e
    | Some op => align_type op f e
    end
  else Ok e.

(* the two registered stages, one event *)
Definition run_ev (f : Q) (e : ev) : res ev :=
  match c2w f e with
  | Ok e1 => tighten f e1
  | Err t => Err t
  end.

(* a stream through both stages: events are pushed one by one; the first exception aborts the run *)
Fixpoint run_all (f : Q) (es : list ev) : res (list ev) :=
  match es with
  | [] => Ok []
  | e :: r =>
      match run_ev f e with
      | Err t => Err t
      | Ok e' => match run_all f r with Ok os => Ok (e' :: os) | Err t => Err t end
      end
  end.

(* ------------------------------------------------------------------ encoders for the tie *)
Definition ev_val (e : ev) : val :=
  VL [VQ (e_ts e); VQ (e_dur e); Vopt VLq (e_all e); Vopt VLq (e_dev e);
      Vopt (fun p => VL [VQ (fst p); VQ (snd p)]) (e_adj e)].

Definition res_val (r : res ev) : val := match r with Ok e => ev_val e | Err t => VE t end.

(* direct drive.  mode 0: both stages (observation after each), 1: stage 1 alone, 2: stage 2 alone *)
Definition stage_val (c : nat * Q * ev) : val :=
  let '(mode, f, e) := c in
  match mode with
  | 1%nat => res_val (c2w f e)
  | 2%nat => res_val (tighten f e)
  | _ => match c2w f e with
         | Err t => VL [VE t; VN]
         | Ok e1 => VL [ev_val e1; res_val (tighten f e1)]
         end
  end.

(* names: [_match_opIds_from_event; get_opIds_from_event; FlexEventMapToTS[name]; ref index of stage 1] *)
Definition names_val (name : string) : val :=
  VL [VL (map (fun k => VZ (Z.of_nat k)) (match_op_ids name));
      VZ (Z.of_nat (get_op_id name));
      Vopt (fun p => VL [VZ (Z.of_nat (fst p)); VZ (Z.of_nat (snd p))]) (flex_lookup name);
      VZ (Z.of_nat (ref_idx name))].

(* end to end: per input slice the exported (ts, dur); [drop] marks slices another stage removes *)
Definition e2e_val (c : Q * list (ev * bool)) : val :=
  let '(f, l) := c in
  match run_all f (map fst l) with
  | Err t => VE t
  | Ok os =>
      VL (map (fun p : ev * bool * ev => if snd (fst p) then VS "missing"
                        else VL [VQ (e_ts (snd p)); VQ (e_dur (snd p))])
              (combine l os))
  end.

(* rule used for distinct_nontrivial, evaluated inside Coq as well: device slice with a positive phase gap *)
Definition zc (e : ev) (k : nat) : Z := match tsx_at e k with TNum z => z | _ => 0 end.
Definition pair_of (name : string) : nat * nat :=
  match op_of name with Some k => (k, S k) | None => (0%nat, 4%nat) end.
Definition positive_gap (e : ev) : bool :=
  guard e && (zc e (fst (pair_of (e_name e))) <? zc e (snd (pair_of (e_name e)))).
Definition nontrivial (c : nat * Q * ev) : bool := positive_gap (snd c).
