(* Overlap_proofs.v — lemmas about the model in Overlap.v (property C04).

   Part A  lane invariant: detection keeps every (pid,tid) lane laminar, for ANY incoming stream
           (absorbs design-spikes/overlap_laminar.v, extended by DROP mode, ph<>X pass-through,
           zero-length slices and the stream fold [feed]).
   Part B  shape of the output: TID changes only tid fields, DROP returns a sub-list.
   Part C  tid-space allocation: candidate lists avoid every tid seen in the pid and each other.
   Part D  no lane merge: the final tid of a slice stays in {tid0} + chain(pid, tid0).
   Part E  the sort stage is a permutation.
   Part F  no AssertionError / FuelExhausted on per-lane ordered input (partial C04_no_err). *)
From Coq Require Import ZArith List Bool String Lia Permutation Sorted.
Import ListNotations.
From AiuModel Require Import Base Overlap.
Local Open Scope Z_scope.

(* ------------------------------------------------------------------ basics *)
Lemma keyb_spec x y : reflect (x = y) (keyb x y).
Proof.
  unfold keyb. destruct x as [a b], y as [c d]; cbn [fst snd].
  destruct (Z.eqb_spec a c), (Z.eqb_spec b d); cbn; constructor; congruence.
Qed.
Lemma upd_same L k v : upd L k v k = v.
Proof. unfold upd. destruct (keyb_spec k k); congruence. Qed.
Lemma upd_other L k v j : k <> j -> upd L k v j = L j.
Proof. unfold upd. destruct (keyb_spec k j); congruence. Qed.
Lemma memz_spec x l : memz x l = true <-> In x l.
Proof.
  unfold memz. rewrite existsb_exists. split.
  - intros (y & Hy & E). apply Z.eqb_eq in E. now subst.
  - intros H. exists x. split; [assumption|apply Z.eqb_refl].
Qed.
Lemma memk_spec x l : memk x l = true <-> In x l.
Proof.
  unfold memk. rewrite existsb_exists. split.
  - intros (y & Hy & E). destruct (keyb_spec x y); [now subst|discriminate].
  - intros H. exists x. split; [assumption|]. destruct (keyb_spec x x); congruence.
Qed.
Lemma retid_retid a t t' : retid (retid a t) t' = retid a t'.
Proof. reflexivity. Qed.
Lemma retid_self a : retid a (tid a) = a.
Proof. destruct a; reflexivity. Qed.

(* ------------------------------------------------------------------ Part A: laminar lanes *)
Definition laminar2 (a b : ev) : Prop :=
  lane a = lane b ->
  en a <= ts b \/ en b <= ts a \/ (ts a <= ts b /\ en b <= en a) \/ (ts b <= ts a /\ en a <= en b).
(* every accepted slice starts at or before its lane's cursor, and if it is still open at the cursor
   its end is recorded (completeness of the end list is all laminarity needs) *)
Definition Inv (L : lanes) (acc : list ev) : Prop :=
  forall a, In a acc ->
    ts a <= fst (L (lane a)) /\ (fst (L (lane a)) <= en a -> In (en a) (snd (L (lane a)))).
Definition Lam (acc : list ev) : Prop := forall a b, In a acc -> In b acc -> laminar2 a b.

Lemma Inv_incl L acc acc' : (forall x, In x acc' -> In x acc) -> Inv L acc -> Inv L acc'.
Proof. intros H I a Ha. apply I. now apply H. Qed.
Lemma Lam_incl acc acc' : (forall x, In x acc' -> In x acc) -> Lam acc -> Lam acc'.
Proof. intros H I a b Ha Hb. apply I; now apply H. Qed.

Lemma overlaps_false s e ends x : overlaps s e ends = false -> In x ends -> x <= s \/ e <= x.
Proof.
  unfold overlaps. intros H Hin.
  destruct (Z.leb_spec x s); [now left|]. destruct (Z.leb_spec e x); [now right|].
  exfalso. assert (existsb (fun x => (s <? x) && (x <? e)) ends = true).
  { apply existsb_exists. exists x. split; [assumption|]. apply andb_true_iff. split; apply Z.ltb_lt; lia. }
  congruence.
Qed.
Lemma refresh_In c ends x : In x (refresh c ends) <-> In x ends /\ c <= x.
Proof. unfold refresh. rewrite filter_In. rewrite Z.leb_le. tauto. Qed.
Lemma lam_sym a b : laminar2 a b -> laminar2 b a.
Proof. unfold laminar2. intros H E. symmetry in E. specialize (H E). tauto. Qed.
Lemma lam_refl a : laminar2 a a.
Proof. unfold laminar2. intros _. right. right. left. lia. Qed.

(* "disjoint or nested" is exactly "no partial overlap" *)
Lemma laminar2_iff a b :
  lane a = lane b ->
  (laminar2 a b <-> ~ (ts a < ts b < en a /\ en a < en b) /\ ~ (ts b < ts a < en b /\ en b < en a)).
Proof. unfold laminar2. intros E. split; [intros H; specialize (H E); lia | intros H _; lia]. Qed.

Lemma accept_ok L a acc cur ends :
  Inv L acc -> Lam acc ->
  L (lane a) = (cur, ends) -> cur <= ts a -> overlaps (ts a) (en a) ends = false ->
  let L' := upd L (lane a) (ts a, refresh (ts a) (ends ++ [en a])) in
  Inv L' (a :: acc) /\ Lam (a :: acc).
Proof.
  intros HI HL EL Hcur Ov L'. split.
  - intros b [<-|Hb].
    + unfold L'. rewrite upd_same. cbn [fst snd]. split; [lia|]. intros Hge.
      apply refresh_In. split; [apply in_or_app; right; now left | lia].
    + destruct (HI b Hb) as [H1 H2]. unfold L'.
      destruct (keyb_spec (lane a) (lane b)) as [E|E].
      * rewrite E, upd_same. cbn [fst snd]. rewrite <- E, EL in H1, H2. cbn [fst snd] in *.
        split; [lia|]. intros Hge. apply refresh_In. split; [|lia]. apply in_or_app. left. apply H2. lia.
      * rewrite upd_other by assumption. now split.
  - assert (P : forall b, In b acc -> laminar2 a b).
    { intros b Hb E. destruct (HI b Hb) as [H1 H2]. rewrite <- E, EL in H1, H2. cbn [fst snd] in *.
      destruct (Z.le_gt_cases cur (en b)) as [Hc|Hc].
      - destruct (overlaps_false _ _ _ (en b) Ov (H2 Hc)) as [G|G].
        + right. left. exact G.
        + right. right. right. lia.
      - right. left. lia. }
    intros x y [<-|Hx] [<-|Hy].
    + apply lam_refl.
    + now apply P.
    + apply lam_sym. now apply P.
    + now apply HL.
Qed.

Lemma drop_ok L a acc cur ends :
  Inv L acc -> L (lane a) = (cur, ends) -> cur <= ts a ->
  Inv (upd L (lane a) (ts a, refresh (ts a) ends)) acc.
Proof.
  intros HI EL Hcur b Hb. destruct (HI b Hb) as [H1 H2].
  destruct (keyb_spec (lane a) (lane b)) as [E|E].
  - rewrite E, upd_same. cbn [fst snd]. rewrite <- E, EL in H1, H2. cbn [fst snd] in *.
    split; [lia|]. intros Hge. apply refresh_In. split; [apply H2; lia|lia].
  - rewrite upd_other by assumption. now split.
Qed.

(* one detection step (with re-entry) keeps the invariant and laminarity for any incoming slice *)
Theorem detect_ok m nxt fuel : forall L a acc L' out,
  Inv L acc -> Lam acc -> detect m fuel nxt L a = Ok L' out ->
  Inv L' (out ++ acc) /\ Lam (out ++ acc) /\
  (forall j, fst (L' j) = fst (L j) \/ fst (L' j) = ts a).
Proof.
  induction fuel as [|f IH]; intros L a acc L' out HI HL H; cbn [detect] in H;
  destruct (L (lane a)) as [cur ends] eqn:EL;
  destruct (Z.ltb_spec (ts a) cur) as [|Hcur]; try discriminate;
  destruct (overlaps (ts a) (en a) ends) eqn:Ov; cbn [negb] in H.
  - (* fuel 0, overlap *)
    destruct m.
    + destruct (nxt (lane a)); discriminate.
    + injection H as <- <-. cbn [app]. split; [eapply drop_ok; eassumption|]. split; [assumption|].
      intros j. destruct (keyb_spec (lane a) j) as [<-|E]; [right; now rewrite upd_same|left; now rewrite upd_other].
  - injection H as <- <-. destruct (accept_ok L a acc cur ends HI HL EL Hcur Ov) as [A B].
    split; [exact A|]. split; [exact B|].
    intros j. destruct (keyb_spec (lane a) j) as [<-|E]; [right; now rewrite upd_same|left; now rewrite upd_other].
  - destruct m.
    + destruct (nxt (lane a)) as [t'|] eqn:En; [|discriminate].
      destruct (detect TID f nxt L (retid a t')) as [|L1 out1] eqn:Ed; [discriminate|].
      injection H as <- <-.
      destruct (IH L (retid a t') acc L1 out1 HI HL Ed) as (A & B & C).
      cbn [retid ts en pid uid] in *.
      assert (Hk : fst (L1 (lane a)) <= ts a).
      { destruct (C (lane a)) as [E|E]; rewrite E; [rewrite EL; cbn; lia|cbn; lia]. }
      split; [|split; [exact B|]].
      * intros b Hb. destruct (A b Hb) as [H1 H2].
        destruct (keyb_spec (lane a) (lane b)) as [E|E].
        -- rewrite <- E in *. rewrite upd_same. cbn [fst snd]. split.
           ++ lia.
           ++ intros Hge. apply refresh_In. split; [apply H2; lia | lia].
        -- rewrite upd_other by assumption. now split.
      * intros j. destruct (keyb_spec (lane a) j) as [<-|E]; [right; now rewrite upd_same|].
        rewrite upd_other by assumption. apply C.
    + injection H as <- <-. cbn [app]. split; [eapply drop_ok; eassumption|]. split; [assumption|].
      intros j. destruct (keyb_spec (lane a) j) as [<-|E]; [right; now rewrite upd_same|left; now rewrite upd_other].
  - injection H as <- <-. destruct (accept_ok L a acc cur ends HI HL EL Hcur Ov) as [A B].
    split; [exact A|]. split; [exact B|].
    intros j. destruct (keyb_spec (lane a) j) as [<-|E]; [right; now rewrite upd_same|left; now rewrite upd_other].
Qed.

(* ------------------------------------------------------------------ Part B: shape of the output *)
Lemma detect_shape_tid nxt fuel : forall L a L' out,
  detect TID fuel nxt L a = Ok L' out -> exists t, out = [retid a t].
Proof.
  induction fuel as [|f IH]; intros L a L' out H; cbn [detect] in H;
  destruct (L (lane a)) as [cur ends];
  destruct (ts a <? cur); try discriminate;
  destruct (overlaps (ts a) (en a) ends); cbn [negb] in H;
  try (injection H as <- <-; exists (tid a); now rewrite retid_self);
  destruct (nxt (lane a)) as [t'|]; try discriminate.
  destruct (detect TID f nxt L (retid a t')) as [|L1 out1] eqn:Ed; [discriminate|].
  injection H as <- <-. destruct (IH _ _ _ _ Ed) as [t ->]. exists t. reflexivity.
Qed.
Lemma detect_shape_drop nxt fuel L a L' out :
  detect DROP fuel nxt L a = Ok L' out -> out = [a] \/ out = [].
Proof.
  destruct fuel; cbn [detect]; destruct (L (lane a)) as [cur ends];
  destruct (ts a <? cur); try discriminate;
  destruct (overlaps (ts a) (en a) ends); cbn [negb]; intros H; injection H as <- <-; auto.
Qed.

(* the stream fold *)
Lemma feed_cons m fuel nxt L a r L' out :
  feed m fuel nxt L (a :: r) = Ok L' out ->
  exists L1 o1 o2, (if isx a then detect m fuel nxt L a else Ok L [a]) = Ok L1 o1 /\
                   feed m fuel nxt L1 r = Ok L' o2 /\ out = o1 ++ o2.
Proof.
  cbn [feed]. destruct (if isx a then detect m fuel nxt L a else Ok L [a]) as [|L1 o1]; [discriminate|].
  destruct (feed m fuel nxt L1 r) as [|L2 o2] eqn:Ef; [discriminate|].
  intros H. injection H as <- <-. exists L1, o1, o2. now rewrite Ef.
Qed.

Lemma isx_retid a t : isx (retid a t) = isx a.
Proof. reflexivity. Qed.

Theorem feed_ok m nxt fuel : forall evs L acc L' out,
  Inv L acc -> Lam acc -> feed m fuel nxt L evs = Ok L' out ->
  Inv L' (filter isx out ++ acc) /\ Lam (filter isx out ++ acc).
Proof.
  induction evs as [|a r IH]; intros L acc L' out HI HL H.
  - cbn in H. injection H as <- <-. now split.
  - destruct (feed_cons _ _ _ _ _ _ _ _ H) as (L1 & o1 & o2 & Hs & Hr & ->).
    assert (S1 : Inv L1 (filter isx o1 ++ acc) /\ Lam (filter isx o1 ++ acc)).
    { destruct (isx a) eqn:Ex.
      - destruct (detect_ok _ _ _ _ _ _ _ _ HI HL Hs) as (A & B & _).
        split; [eapply Inv_incl; [|exact A] | eapply Lam_incl; [|exact B]];
          intros x Hx; apply in_app_or in Hx; apply in_or_app;
          (destruct Hx as [Hx|Hx]; [left; apply filter_In in Hx; tauto|now right]).
      - injection Hs as <- <-. cbn [filter]. rewrite Ex. now split. }
    destruct S1 as [A B].
    destruct (IH _ _ _ _ A B Hr) as [A2 B2].
    split; [eapply Inv_incl; [|exact A2] | eapply Lam_incl; [|exact B2]];
      intros x Hx; rewrite filter_app in Hx; rewrite !in_app_iff in *; tauto.
Qed.

(* only the tid changes: [b] is [a] with (possibly) another tid *)
Definition same_but_tid (a b : ev) : Prop := b = retid a (tid b).

Theorem feed_tid_only nxt fuel : forall evs L L' out,
  feed TID fuel nxt L evs = Ok L' out -> Forall2 same_but_tid evs out.
Proof.
  induction evs as [|a r IH]; intros L L' out H.
  - cbn in H. injection H as <- <-. constructor.
  - destruct (feed_cons _ _ _ _ _ _ _ _ H) as (L1 & o1 & o2 & Hs & Hr & ->).
    assert (exists t, o1 = [retid a t]) as [t ->].
    { destruct (isx a); [eapply detect_shape_tid; eassumption|].
      injection Hs as <- <-. exists (tid a). now rewrite retid_self. }
    cbn [app]. constructor; [reflexivity|]. eapply IH; eassumption.
Qed.

Inductive sublist {A} : list A -> list A -> Prop :=
| sub_nil : sublist [] []
| sub_keep x l1 l2 : sublist l1 l2 -> sublist (x :: l1) (x :: l2)
| sub_skip x l1 l2 : sublist l1 l2 -> sublist l1 (x :: l2).

Theorem feed_drop_sublist nxt fuel : forall evs L L' out,
  feed DROP fuel nxt L evs = Ok L' out -> sublist out evs.
Proof.
  induction evs as [|a r IH]; intros L L' out H.
  - cbn in H. injection H as <- <-. constructor.
  - destruct (feed_cons _ _ _ _ _ _ _ _ H) as (L1 & o1 & o2 & Hs & Hr & ->).
    assert (o1 = [a] \/ o1 = []) as [-> | ->].
    { destruct (isx a); [eapply detect_shape_drop; eassumption|]. injection Hs as <- <-. now left. }
    + cbn [app]. constructor. eapply IH; eassumption.
    + cbn [app]. constructor. eapply IH; eassumption.
Qed.
Lemma sublist_In {A} (l1 l2 : list A) : sublist l1 l2 -> forall x, In x l1 -> In x l2.
Proof. induction 1; intros y Hy; cbn in *; intuition. Qed.
(* non-slices are never dropped *)
Theorem feed_drop_keeps_nonx nxt fuel : forall evs L L' out,
  feed DROP fuel nxt L evs = Ok L' out ->
  filter (fun a => negb (isx a)) out = filter (fun a => negb (isx a)) evs.
Proof.
  induction evs as [|a r IH]; intros L L' out H.
  - cbn in H. injection H as <- <-. reflexivity.
  - destruct (feed_cons _ _ _ _ _ _ _ _ H) as (L1 & o1 & o2 & Hs & Hr & ->).
    rewrite filter_app. cbn [filter]. rewrite (IH _ _ _ Hr).
    destruct (isx a) eqn:Ex; cbn [negb].
    + destruct (detect_shape_drop _ _ _ _ _ _ Hs) as [-> | ->]; cbn [filter]; rewrite ?Ex; reflexivity.
    + injection Hs as <- <-. cbn [filter]. rewrite Ex. reflexivity.
Qed.

(* ------------------------------------------------------------------ Part C: tid-space allocation *)
Lemma zrange_In x from n : In x (zrange from n) -> from <= x.
Proof.
  revert from. induction n as [|n IH]; intros from H; cbn in H; [contradiction|].
  destruct H as [<-|H]; [lia|]. apply IH in H. lia.
Qed.
Lemma zrange_NoDup from n : NoDup (zrange from n).
Proof.
  revert from. induction n as [|n IH]; intros from; cbn; constructor; [|apply IH].
  intros H. apply zrange_In in H. lia.
Qed.
Lemma firstn_In_ {A} (l : list A) n x : In x (firstn n l) -> In x l.
Proof. revert l. induction n; intros [|y l] H; cbn in *; try contradiction. destruct H; [now left|right; auto]. Qed.
Lemma firstn_NoDup {A} (l : list A) n : NoDup l -> NoDup (firstn n l).
Proof.
  revert l. induction n; intros [|y l] H; cbn; try constructor.
  - inversion H; subst. intros Hin. apply firstn_In_ in Hin. contradiction.
  - inversion H; subst. auto.
Qed.
Lemma cands_In ms t excl x : In x (cands ms t excl) -> ~ In x excl /\ t < x.
Proof.
  unfold cands. intros H. apply firstn_In_ in H. apply filter_In in H. destruct H as [Hr Hm].
  apply zrange_In in Hr. split; [|lia].
  intros Hin. apply memz_spec in Hin. rewrite Hin in Hm. discriminate.
Qed.
Lemma cands_NoDup ms t excl : NoDup (cands ms t excl).
Proof. unfold cands. apply firstn_NoDup. apply NoDup_filter. apply zrange_NoDup. Qed.

Definition allc (sp : space) : list Z := flat_map snd sp.

Lemma NoDup_app_intro {A} (l1 l2 : list A) :
  NoDup l1 -> NoDup l2 -> (forall x, In x l1 -> ~ In x l2) -> NoDup (l1 ++ l2).
Proof.
  induction l1 as [|a l1 IH]; intros H1 H2 D; cbn; [assumption|].
  inversion H1; subst. constructor.
  - rewrite in_app_iff. intros [?|?]; [contradiction|]. eapply D; [now left|eassumption].
  - apply IH; try assumption. intros x Hx. apply D. now right.
Qed.

(* candidate lists are pairwise disjoint, duplicate-free, and avoid the initial exclude set *)
Lemma build_tids_inv ms : forall tids excl,
  let sp := build_tids ms tids excl in
  NoDup (allc sp) /\ (forall x, In x (allc sp) -> ~ In x excl) /\
  (forall t c, In (t, c) sp -> In t tids).
Proof.
  induction tids as [|t r IH]; intros excl; cbn.
  - split; [constructor|]. split; intros; contradiction.
  - destruct (IH (excl ++ cands ms t excl)) as (N & X & T).
    split; [|split].
    + apply NoDup_app_intro; [apply cands_NoDup|exact N|].
      intros x Hx Hin. apply (X x Hin). apply in_or_app. now right.
    + intros x Hx. apply in_app_or in Hx. destruct Hx as [Hx|Hx].
      * now apply cands_In in Hx.
      * intros Hin. apply (X x Hx). apply in_or_app. now left.
    + intros t' c [E|Hin]; [injection E as <- <-; now left|right; eapply T; eassumption].
Qed.

Lemma dedupz_In seen l x : In x (dedupz seen l) -> In x l.
Proof.
  revert seen. induction l as [|y l IH]; intros seen H; cbn in *; [assumption|].
  destruct (memz y seen); [right; eauto|]. destruct H as [<-|H]; [now left|right; eauto].
Qed.
Lemma src_tids_seen p evs t : In t (src_tids p evs) -> In t (seen_tids p evs).
Proof. unfold src_tids, seen_tids. intros H. apply filter_In in H. destruct H as [H _]. now apply dedupz_In in H. Qed.

(* the allocation of one pid: private, duplicate-free, outside every tid seen in the pid *)
Theorem build_pid_private ms p evs :
  let sp := build_pid ms p evs in
  NoDup (allc sp) /\ (forall x, In x (allc sp) -> ~ In x (seen_tids p evs)) /\
  (forall t c, In (t, c) sp -> In t (seen_tids p evs)).
Proof.
  unfold build_pid. destruct (build_tids_inv ms (src_tids p evs) (seen_tids p evs)) as (N & X & T).
  split; [exact N|]. split; [exact X|]. intros t c H. apply src_tids_seen. eapply T; eassumption.
Qed.

Lemma allc_In sp t c x : In (t, c) sp -> In x c -> In x (allc sp).
Proof. intros H Hx. unfold allc. apply in_flat_map. exists (t, c). now split. Qed.

(* a candidate belongs to exactly one source tid *)
Lemma owner_unique : forall sp t c t' c' x,
  NoDup (allc sp) -> In (t, c) sp -> In (t', c') sp -> In x c -> In x c' -> t = t' /\ c = c'.
Proof.
  induction sp as [|[t0 c0] sp IH]; intros t c t' c' x N H H' Hx Hx'; [contradiction|].
  cbn in N. fold (allc sp) in N.
  assert (D : forall y, In y c0 -> ~ In y (allc sp)).
  { intros y Hy Hin. clear -N Hy Hin. induction c0 as [|z c0 IHc]; [contradiction|].
    cbn in N. inversion N; subst. destruct Hy as [<-|Hy]; [apply H1; apply in_or_app; now right|now apply IHc]. }
  assert (N' : NoDup (allc sp)).
  { clear -N. induction c0; [assumption|]. cbn in N. inversion N; subst. auto. }
  destruct H as [E|H], H' as [E'|H'].
  - injection E as <- <-. injection E' as <- <-. now split.
  - injection E as <- <-. exfalso. apply (D x Hx). eapply allc_In; eassumption.
  - injection E' as <- <-. exfalso. apply (D x Hx'). eapply allc_In; eassumption.
  - eapply IH; eassumption.
Qed.

(* table entries stay inside one group *)
Lemma chain_pairs_In c a b : In (a, b) (chain_pairs c) -> In a c /\ In b c.
Proof.
  induction c as [|x [|y r] IH]; cbn; try contradiction.
  intros [E|H]; [injection E as <- <-; split; [now left|right; now left]|].
  destruct (IH H). split; now right.
Qed.
Lemma entries_In t c k v : In (k, v) (entries (t, c)) -> (k = t \/ In k c) /\ In v c.
Proof.
  unfold entries. cbn [fst snd]. destruct c as [|c0 r]; [contradiction|].
  intros [E|H]; [injection E as <- <-; split; [now left|now left]|].
  apply chain_pairs_In in H. tauto.
Qed.
Lemma lookup_In k tbl v : lookup k tbl = Some v -> In (k, v) tbl.
Proof.
  induction tbl as [|[a b] r IH]; cbn; [discriminate|].
  destruct (Z.eqb_spec a k); [intros E; injection E as <-; subst; now left|right; auto].
Qed.
Lemma table_In sp k v : lookup k (table_of sp) = Some v ->
  exists t c, In (t, c) sp /\ (k = t \/ In k c) /\ In v c.
Proof.
  intros H. apply lookup_In in H. unfold table_of in H. apply in_rev in H.
  apply in_flat_map in H. destruct H as ([t c] & Hin & He). exists t, c. split; [assumption|now apply entries_In].
Qed.
Lemma find_pid_build ms evs p : forall l sp,
  find_pid p (map (fun q => (q, build_pid ms q evs)) l) = Some sp -> sp = build_pid ms p evs.
Proof.
  induction l as [|q l IH]; intros sp; cbn; [discriminate|].
  destruct (Z.eqb_spec q p); [intros E; injection E as <-; now subst|apply IH].
Qed.

(* ------------------------------------------------------------------ Part D: no lane merge *)
(* [t] is the source tid [t0] itself or one of its private candidates *)
Definition in_group (ms : nat) (evs : list ev) (p t0 t : Z) : Prop :=
  t = t0 \/ exists c, In (t0, c) (build_pid ms p evs) /\ In t c.

Lemma nxt_group ms evs p t0 t v :
  In t0 (seen_tids p evs) -> in_group ms evs p t0 t ->
  nxt_of (build_all ms evs) (p, t) = Some v -> in_group ms evs p t0 v.
Proof.
  intros Hs Hg Hn. unfold nxt_of in Hn. cbn [fst snd] in Hn.
  destruct (find_pid p (build_all ms evs)) as [sp|] eqn:Ef; [|discriminate].
  apply find_pid_build in Ef. subst sp.
  destruct (build_pid_private ms p evs) as (N & X & T).
  destruct (table_In _ _ _ Hn) as (t1 & c1 & Hin & Hk & Hv).
  right. destruct Hg as [->|(c & Hc & Htc)].
  - destruct Hk as [->|Hk]; [now exists c1|].
    exfalso. apply (X t0); [eapply allc_In; eassumption|assumption].
  - destruct Hk as [->|Hk].
    + exfalso. apply (X t1); [apply (allc_In _ t0 c); assumption|eapply T; eassumption].
    + destruct (owner_unique _ _ _ _ _ _ N Hc Hin Htc Hk) as [-> ->]. now exists c1.
Qed.

Lemma detect_group ms evs fuel : forall L a t0 L' out,
  In t0 (seen_tids (pid a) evs) -> in_group ms evs (pid a) t0 (tid a) ->
  detect TID fuel (nxt_of (build_all ms evs)) L a = Ok L' out ->
  exists t, out = [retid a t] /\ in_group ms evs (pid a) t0 t.
Proof.
  induction fuel as [|f IH]; intros L a t0 L' out Hs Hg H; cbn [detect] in H;
  destruct (L (lane a)) as [cur ends];
  destruct (ts a <? cur); try discriminate;
  destruct (overlaps (ts a) (en a) ends); cbn [negb] in H;
  try (injection H as <- <-; exists (tid a); rewrite retid_self; now split);
  destruct (nxt_of (build_all ms evs) (lane a)) as [t'|] eqn:En; try discriminate.
  destruct (detect TID f _ L (retid a t')) as [|L1 out1] eqn:Ed; [discriminate|].
  injection H as <- <-.
  assert (Hg' : in_group ms evs (pid (retid a t')) t0 (tid (retid a t'))).
  { cbn [retid pid tid]. eapply nxt_group; eassumption. }
  destruct (IH L (retid a t') t0 L1 out1 Hs Hg' Ed) as (t & -> & G). exists t. split; [reflexivity|exact G].
Qed.

Lemma seen_tids_In p evs a : In a evs -> isx a = true -> pid a = p -> In (tid a) (seen_tids p evs).
Proof.
  intros Hin Hx Hp. unfold seen_tids, xtids. apply in_map. apply filter_In. split; [assumption|].
  rewrite Hx. cbn. apply Z.eqb_eq. assumption.
Qed.

(* per event: only the tid changes, and a slice's final tid is in the group of its source tid *)
Definition tid_rel (ms : nat) (pre : list ev) (a b : ev) : Prop :=
  same_but_tid a b /\ (isx a = true -> in_group ms pre (pid a) (tid a) (tid b)) /\
  (isx a = false -> b = a).

Theorem feed_group ms pre fuel : forall evs L L' out,
  (forall a, In a evs -> In a pre) ->
  feed TID fuel (nxt_of (build_all ms pre)) L evs = Ok L' out -> Forall2 (tid_rel ms pre) evs out.
Proof.
  induction evs as [|a r IH]; intros L L' out Hsub H.
  - cbn in H. injection H as <- <-. constructor.
  - destruct (feed_cons _ _ _ _ _ _ _ _ H) as (L1 & o1 & o2 & Hs & Hr & ->).
    assert (exists b, o1 = [b] /\ tid_rel ms pre a b) as (b & -> & Hb).
    { destruct (isx a) eqn:Ex.
      - assert (Hseen : In (tid a) (seen_tids (pid a) pre)).
        { apply seen_tids_In; [apply Hsub; now left|assumption|reflexivity]. }
        destruct (detect_group ms pre fuel L a (tid a) L1 o1 Hseen (or_introl eq_refl) Hs) as (t & -> & G).
        exists (retid a t). split; [reflexivity|]. split; [reflexivity|]. split; [intros _; exact G|].
        rewrite Ex. discriminate.
      - injection Hs as <- <-. exists a. split; [reflexivity|]. split; [unfold same_but_tid; now rewrite retid_self|].
        split; [rewrite Ex; discriminate|reflexivity]. }
    cbn [app]. constructor; [exact Hb|]. eapply IH; [|eassumption]. intros x Hx. apply Hsub. now right.
Qed.

Lemma Forall2_combine_In {A B} (R : A -> B -> Prop) l1 l2 :
  Forall2 R l1 l2 -> forall a b, In (a, b) (combine l1 l2) -> R a b.
Proof.
  induction 1; intros a b Hin; cbn in Hin; [contradiction|].
  destruct Hin as [E|Hin]; [injection E as <- <-; assumption|auto].
Qed.

(* groups of different source tids of one pid are disjoint *)
Lemma groups_disjoint ms evs p t0 t0' t :
  In t0 (seen_tids p evs) -> In t0' (seen_tids p evs) ->
  in_group ms evs p t0 t -> in_group ms evs p t0' t -> t0 = t0'.
Proof.
  intros Hs Hs' G G'. destruct (build_pid_private ms p evs) as (N & X & T).
  destruct G as [->|(c & Hc & Htc)], G' as [->|(c' & Hc' & Htc')].
  - reflexivity.
  - exfalso. apply (X t0); [eapply allc_In; eassumption|assumption].
  - exfalso. apply (X t0'); [eapply allc_In; eassumption|assumption].
  - now destruct (owner_unique _ _ _ _ _ _ N Hc Hc' Htc Htc').
Qed.

Theorem no_merge ms pre a a' b b' :
  In a pre -> In a' pre -> isx a = true -> isx a' = true ->
  tid_rel ms pre a b -> tid_rel ms pre a' b' ->
  lane a <> lane a' -> lane b <> lane b'.
Proof.
  intros Hin Hin' Hx Hx' (S & G & _) (S' & G' & _) Hne Heq.
  specialize (G Hx). specialize (G' Hx').
  unfold same_but_tid in S, S'. unfold lane in *.
  assert (Ep : pid b = pid a) by (rewrite S; reflexivity).
  assert (Ep' : pid b' = pid a') by (rewrite S'; reflexivity).
  injection Heq as E1 E2. rewrite Ep, Ep' in E1. rewrite E2 in G. rewrite E1 in G.
  apply Hne. f_equal; [assumption|].
  eapply groups_disjoint; [| |exact G|exact G'].
  - rewrite <- E1. apply seen_tids_In; auto.
  - apply seen_tids_In; auto.
Qed.

(* ------------------------------------------------------------------ Part E: the sort stage is a permutation *)
Lemma insert_sorted_perm {A} (leb : A -> A -> bool) x l : Permutation (insert_sorted leb x l) (x :: l).
Proof.
  induction l as [|y r IH]; cbn; [reflexivity|]. destruct (leb x y); [reflexivity|].
  rewrite IH. apply perm_swap.
Qed.
Lemma isort_perm {A} (leb : A -> A -> bool) l : Permutation (isort leb l) l.
Proof.
  induction l as [|x r IH]; cbn; [reflexivity|]. unfold isort in *. cbn.
  rewrite insert_sorted_perm. now constructor.
Qed.
Lemma filter_split_perm {A} (f : A -> bool) l :
  Permutation l (filter f l ++ filter (fun x => negb (f x)) l).
Proof.
  induction l as [|x r IH]; cbn; [reflexivity|]. destruct (f x); cbn.
  - now constructor.
  - rewrite IH at 1. apply Permutation_middle.
Qed.
Lemma flat_map_filter_ext (ks : list key) (l1 l2 : list ev) :
  (forall k, In k ks -> filter (on_lane k) l1 = filter (on_lane k) l2) ->
  flat_map (fun k => filter (on_lane k) l1) ks = flat_map (fun k => filter (on_lane k) l2) ks.
Proof.
  induction ks as [|k r IH]; intros H; cbn; [reflexivity|].
  rewrite (H k (or_introl eq_refl)). f_equal. apply IH. intros k' Hk. apply H. now right.
Qed.
Lemma partition_perm : forall (ks : list key) (evs : list ev),
  NoDup ks -> (forall a, In a evs -> In (lane a) ks) ->
  Permutation (flat_map (fun k => filter (on_lane k) evs) ks) evs.
Proof.
  induction ks as [|k r IH]; intros evs N C.
  - destruct evs as [|a ?]; [reflexivity|]. exfalso. apply (C a). now left.
  - inversion N as [|? ? Hk Nr]; subst. cbn [flat_map].
    eapply Permutation_trans; [|symmetry; apply (filter_split_perm (on_lane k) evs)].
    apply Permutation_app_head.
    set (rest := filter (fun x => negb (on_lane k x)) evs).
    rewrite (flat_map_filter_ext r evs rest).
    + apply IH; [assumption|]. intros a Ha. unfold rest in Ha. apply filter_In in Ha. destruct Ha as [Ha Hn].
      destruct (C a Ha) as [E|?]; [|assumption]. exfalso. unfold on_lane in Hn.
      destruct (keyb_spec (lane a) k); [discriminate|congruence].
    + intros k' Hk'. unfold rest. clear -Hk Hk'. induction evs as [|a l IHl]; cbn; [reflexivity|].
      destruct (on_lane k a) eqn:Ea; cbn.
      * assert (on_lane k' a = false) as ->.
        { unfold on_lane in *. destruct (keyb_spec (lane a) k); [|discriminate].
          destruct (keyb_spec (lane a) k'); [|reflexivity]. exfalso. congruence. }
        exact IHl.
      * destruct (on_lane k' a); [f_equal|]; exact IHl.
Qed.
Lemma dedupk_spec : forall l seen,
  NoDup (dedupk seen l) /\ (forall x, In x (dedupk seen l) -> In x l /\ ~ In x seen) /\
  (forall x, In x l -> In x seen \/ In x (dedupk seen l)).
Proof.
  induction l as [|y l IH]; intros seen; cbn.
  - split; [constructor|]. split; intros; contradiction.
  - destruct (memk y seen) eqn:Em.
    + destruct (IH seen) as (N & A & B). split; [exact N|]. split.
      * intros x Hx. destruct (A x Hx). split; [now right|assumption].
      * intros x [<-|Hx]; [left; now apply memk_spec|now apply B].
    + destruct (IH (y :: seen)) as (N & A & B).
      assert (Hy : ~ In y seen) by (intros H; apply memk_spec in H; congruence).
      split; [|split].
      * constructor; [|exact N]. intros H. destruct (A y H) as [_ C]. apply C. now left.
      * intros x [<-|Hx]; [split; [now left|assumption]|]. destruct (A x Hx) as [P Q].
        split; [now right|]. intros H. apply Q. now right.
      * intros x [<-|Hx]; [right; now left|]. destruct (B x Hx) as [[<-|?]|?]; [right; now left|now left|right; now right].
Qed.
Lemma flat_map_perm {A B} (f g : A -> list B) l :
  (forall x, Permutation (f x) (g x)) -> Permutation (flat_map f l) (flat_map g l).
Proof. intros H. induction l; cbn; [reflexivity|]. now apply Permutation_app. Qed.

Theorem sort_stage_perm evs : Permutation (sort_stage evs) evs.
Proof.
  unfold sort_stage.
  rewrite (flat_map_perm _ (fun k => filter (on_lane k) evs)) by (intros; apply isort_perm).
  destruct (dedupk_spec (map lane evs) []) as (N & _ & B).
  apply partition_perm; [exact N|]. intros a Ha.
  destruct (B (lane a) (in_map lane _ _ Ha)) as [[]|H]; exact H.
Qed.

(* ------------------------------------------------------------------ whole-run corollaries *)
Theorem run_laminar m ms presort evs L out :
  run m ms presort evs = Ok L out -> Lam (filter isx out).
Proof.
  unfold run. intros H.
  assert (I0 : Inv L0 []) by (intros a []).
  assert (M0 : Lam []) by (intros a b []).
  destruct (feed_ok _ _ _ _ _ _ _ _ I0 M0 H) as [_ B]. now rewrite app_nil_r in B.
Qed.
Theorem run_tid_only ms presort evs L out :
  run TID ms presort evs = Ok L out -> Forall2 (tid_rel ms (pre_stream presort evs)) (pre_stream presort evs) out.
Proof. unfold run. cbn [spaces]. intros H. eapply feed_group; [|eassumption]. auto. Qed.
Theorem run_drop ms presort evs L out :
  run DROP ms presort evs = Ok L out ->
  sublist out (pre_stream presort evs) /\
  filter (fun a => negb (isx a)) out = filter (fun a => negb (isx a)) (pre_stream presort evs).
Proof. unfold run. intros H. split; [eapply feed_drop_sublist|eapply feed_drop_keeps_nonx]; eassumption. Qed.

Theorem run_pairs ms presort evs L out a b :
  run TID ms presort evs = Ok L out ->
  In (a, b) (combine (pre_stream presort evs) out) ->
  In a (pre_stream presort evs) /\ tid_rel ms (pre_stream presort evs) a b.
Proof.
  intros H Hin. split; [eapply in_combine_l; eassumption|].
  eapply Forall2_combine_In; [eapply run_tid_only; eassumption|eassumption].
Qed.
Theorem run_no_merge ms presort evs L out a a' b b' :
  run TID ms presort evs = Ok L out ->
  In (a, b) (combine (pre_stream presort evs) out) ->
  In (a', b') (combine (pre_stream presort evs) out) ->
  isx a = true -> isx a' = true -> lane a <> lane a' -> lane b <> lane b'.
Proof.
  intros H Hi Hi' Hx Hx'.
  destruct (run_pairs _ _ _ _ _ _ _ H Hi) as [Ha Ra]. destruct (run_pairs _ _ _ _ _ _ _ H Hi') as [Ha' Ra'].
  eapply no_merge; eassumption.
Qed.
Theorem run_final_tid ms presort evs L out a b :
  run TID ms presort evs = Ok L out ->
  In (a, b) (combine (pre_stream presort evs) out) -> isx a = true ->
  b = retid a (tid b) /\
  (tid b = tid a \/
   exists c, In (tid a, c) (build_pid ms (pid a) (pre_stream presort evs)) /\ In (tid b) c).
Proof.
  intros H Hi Hx. destruct (run_pairs _ _ _ _ _ _ _ H Hi) as [_ (S & G & _)]. split; [exact S|exact (G Hx)].
Qed.
Theorem run_tid_stream ms presort evs L out :
  run TID ms presort evs = Ok L out ->
  Forall2 (fun a b => b = retid a (tid b) /\ (isx a = false -> b = a)) (pre_stream presort evs) out.
Proof.
  intros H. apply run_tid_only in H. induction H; constructor; [|assumption].
  destruct H as (S & _ & Nx). now split.
Qed.

(* ------------------------------------------------------------------ Part F: no AssertionError on ordered lanes *)
Fixpoint lane_sorted (l : list ev) : Prop :=
  match l with
  | [] => True
  | a :: r => (isx a = true -> forall b, In b r -> isx b = true -> lane b = lane a -> ts a <= ts b) /\ lane_sorted r
  end.

Definition detect_fine (ms : nat) (pre : list ev) (L : lanes) (a : ev) (t0 : Z) (r : res) : Prop :=
  match r with
  | Err t => t <> "AssertionError"%string
  | Ok L' _ =>
      fst (L' (lane a)) = ts a /\
      forall j, fst (L' j) = fst (L j) \/
                (fst (L' j) = ts a /\ exists t, j = (pid a, t) /\ in_group ms pre (pid a) t0 t)
  end.

Lemma detect_no_assert ms pre fuel : forall L a t0,
  In t0 (seen_tids (pid a) pre) -> in_group ms pre (pid a) t0 (tid a) ->
  (forall t, in_group ms pre (pid a) t0 t -> fst (L (pid a, t)) <= ts a) ->
  detect_fine ms pre L a t0 (detect TID fuel (nxt_of (build_all ms pre)) L a).
Proof.
  induction fuel as [|f IH]; intros L a t0 Hs Hg Hb; cbn [detect];
  pose proof (Hb (tid a) Hg) as Hc; change (pid a, tid a) with (lane a) in Hc;
  destruct (L (lane a)) as [cur ends] eqn:EL; cbn [fst] in Hc;
  (destruct (Z.ltb_spec (ts a) cur) as [Hlt|_]; [lia|]);
  destruct (overlaps (ts a) (en a) ends); cbn [negb].
  - destruct (nxt_of (build_all ms pre) (lane a)); cbn; discriminate.
  - cbn. rewrite upd_same. split; [reflexivity|]. intros j.
    destruct (keyb_spec (lane a) j) as [<-|E].
    + right. rewrite upd_same. split; [reflexivity|]. exists (tid a). now split.
    + left. now rewrite upd_other.
  - destruct (nxt_of (build_all ms pre) (lane a)) as [t'|] eqn:En; [|cbn; discriminate].
    assert (Hg' : in_group ms pre (pid a) t0 t') by (eapply nxt_group; eassumption).
    specialize (IH L (retid a t') t0 Hs Hg' Hb).
    destruct (detect TID f (nxt_of (build_all ms pre)) L (retid a t')) as [t|L1 out1]; cbn in IH |- *; [exact IH|].
    destruct IH as [_ IH2]. rewrite upd_same. split; [reflexivity|]. intros j.
    destruct (keyb_spec (lane a) j) as [<-|E].
    + right. rewrite upd_same. split; [reflexivity|]. exists (tid a). now split.
    + rewrite upd_other by assumption. exact (IH2 j).
  - cbn. rewrite upd_same. split; [reflexivity|]. intros j.
    destruct (keyb_spec (lane a) j) as [<-|E].
    + right. rewrite upd_same. split; [reflexivity|]. exists (tid a). now split.
    + left. now rewrite upd_other.
Qed.

Lemma in_group_self ms pre p t : in_group ms pre p t t.
Proof. now left. Qed.

Lemma feed_no_assert ms pre fuel : forall evs L,
  (forall a, In a evs -> In a pre) -> lane_sorted evs ->
  (forall b, In b evs -> isx b = true -> fst (L (lane b)) <= ts b) ->
  (forall p t0 t, In t0 (seen_tids p pre) -> in_group ms pre p t0 t -> fst (L (p, t)) <= fst (L (p, t0))) ->
  forall t, feed TID fuel (nxt_of (build_all ms pre)) L evs = Err t -> t <> "AssertionError"%string.
Proof.
  induction evs as [|a r IH]; intros L Hsub Hso K J t H; cbn [feed] in H; [discriminate|].
  destruct Hso as [Hsa Hsr].
  assert (Hsub' : forall x, In x r -> In x pre) by (intros x Hx; apply Hsub; now right).
  destruct (isx a) eqn:Ex.
  - assert (Hseen : In (tid a) (seen_tids (pid a) pre)).
    { apply seen_tids_In; [apply Hsub; now left|assumption|reflexivity]. }
    assert (Hb : forall t1, in_group ms pre (pid a) (tid a) t1 -> fst (L (pid a, t1)) <= ts a).
    { intros t1 G. pose proof (J _ _ _ Hseen G) as H1. pose proof (K a (or_introl eq_refl) Ex) as H2.
      unfold lane in H2. lia. }
    pose proof (detect_no_assert ms pre fuel L a (tid a) Hseen (in_group_self _ _ _ _) Hb) as D.
    destruct (detect TID fuel (nxt_of (build_all ms pre)) L a) as [t1|L1 o1]; cbn in D.
    + injection H as <-. exact D.
    + destruct D as [D1 D2].
      destruct (feed TID fuel (nxt_of (build_all ms pre)) L1 r) as [t2|L2 o2] eqn:Ef; [|discriminate].
      injection H as <-. eapply (IH L1); try eassumption.
      * (* K *)
        intros b Hb' Xb. destruct (D2 (lane b)) as [E|[E (t1 & El & G)]].
        -- rewrite E. apply K; [now right|assumption].
        -- rewrite E. unfold lane in El. injection El as Ep Et.
           assert (Hsb : In (tid b) (seen_tids (pid a) pre)).
           { apply seen_tids_In; [apply Hsub; now right|assumption|assumption]. }
           rewrite <- Et in G.
           pose proof (groups_disjoint ms pre (pid a) (tid a) (tid b) (tid b) Hseen Hsb G (in_group_self _ _ _ _)) as Eq.
           apply Hsa; [reflexivity|assumption|assumption|]. unfold lane. now rewrite Ep, Eq.
      * (* J *)
        intros p t0 t1 Hs0 G.
        destruct (D2 (p, t1)) as [E|[E (t2' & El & G2)]].
        -- rewrite E. destruct (D2 (p, t0)) as [E0|[E0 (t3 & El0 & G3)]].
           ++ rewrite E0. now apply J.
           ++ rewrite E0. injection El0 as Ep Et. subst p t3.
              pose proof (groups_disjoint ms pre (pid a) (tid a) t0 t0 Hseen Hs0 G3 (in_group_self _ _ _ _)) as Eq.
              subst t0. now apply Hb.
        -- injection El as Ep Et. subst p t2'.
           pose proof (groups_disjoint ms pre (pid a) (tid a) t0 t1 Hseen Hs0 G2 G) as Eq. subst t0.
           change (pid a, tid a) with (lane a). rewrite E, D1. lia.
  - destruct (feed TID fuel (nxt_of (build_all ms pre)) L r) as [t2|L2 o2] eqn:Ef; [|discriminate].
    injection H as <-. eapply (IH L); try eassumption.
    intros b Hb Xb. apply K; [now right|assumption].
Qed.

Theorem run_no_assert ms presort evs :
  lane_sorted (pre_stream presort evs) ->
  (forall b, In b (pre_stream presort evs) -> isx b = true -> 0 <= ts b) ->
  run TID ms presort evs <> Err "AssertionError".
Proof.
  intros Hs Hn H. unfold run in H. cbn [spaces] in H.
  refine (feed_no_assert ms (pre_stream presort evs) _ (pre_stream presort evs) L0 _ Hs _ _ _ H eq_refl).
  - auto.
  - intros b Hb Xb. cbn. now apply Hn.
  - intros. cbn. lia.
Qed.

(* the sort stage delivers ordered lanes *)
Definition tsle (a b : ev) : Prop := ts a <= ts b.
Lemma insert_sorted_In x l z : In z (insert_sorted ev_leb x l) -> z = x \/ In z l.
Proof.
  intros H. apply (Permutation_in _ (insert_sorted_perm ev_leb x l)) in H. destruct H; [left; congruence|now right].
Qed.
Lemma insert_sorted_tsle x l : StronglySorted tsle l -> StronglySorted tsle (insert_sorted ev_leb x l).
Proof.
  induction l as [|y r IH]; intros S; cbn.
  - constructor; constructor.
  - inversion S as [|? ? Sr Fy]; subst. destruct (ev_leb x y) eqn:E.
    + constructor; [assumption|]. unfold ev_leb in E.
      assert (Hxy : ts x <= ts y).
      { destruct (Z.ltb_spec (ts x) (ts y)); [lia|]. cbn in E. apply andb_true_iff in E. destruct E as [E _].
        apply Z.eqb_eq in E. lia. }
      constructor; [exact Hxy|]. rewrite Forall_forall in *. intros z Hz. specialize (Fy z Hz). unfold tsle in *. lia.
    + constructor; [now apply IH|]. rewrite Forall_forall in *. intros z Hz.
      apply insert_sorted_In in Hz. destruct Hz as [->|Hz]; [|now apply Fy].
      unfold ev_leb in E. apply orb_false_iff in E. destruct E as [E _]. apply Z.ltb_ge in E. exact E.
Qed.
Lemma isort_tsle l : StronglySorted tsle (isort ev_leb l).
Proof. induction l as [|x r IH]; cbn; [constructor|]. unfold isort in *. cbn. now apply insert_sorted_tsle. Qed.
Lemma tsle_lane_sorted l : StronglySorted tsle l -> lane_sorted l.
Proof.
  induction 1 as [|a r S IH F]; cbn; [exact I|]. split; [|exact IH].
  intros _ b Hb _ _. rewrite Forall_forall in F. exact (F b Hb).
Qed.
Lemma lane_sorted_app l1 l2 :
  lane_sorted l1 -> lane_sorted l2 -> (forall a b, In a l1 -> In b l2 -> lane b <> lane a) ->
  lane_sorted (l1 ++ l2).
Proof.
  induction l1 as [|a r IH]; intros S1 S2 D; cbn; [assumption|]. destruct S1 as [Sa Sr]. split.
  - intros Xa b Hb Xb El. apply in_app_or in Hb. destruct Hb as [Hb|Hb]; [now apply Sa|].
    exfalso. apply (D a b); [now left|assumption|assumption].
  - apply IH; [assumption|assumption|]. intros x y Hx Hy. apply D; [now right|assumption].
Qed.
Lemma block_lane k evs a : In a (isort ev_leb (filter (on_lane k) evs)) -> lane a = k.
Proof.
  intros H. apply (Permutation_in _ (isort_perm ev_leb _)) in H. apply filter_In in H. destruct H as [_ H].
  unfold on_lane in H. destruct (keyb_spec (lane a) k); [assumption|discriminate].
Qed.
Lemma blocks_lane_sorted evs : forall ks, NoDup ks ->
  lane_sorted (flat_map (fun k => isort ev_leb (filter (on_lane k) evs)) ks) /\
  (forall a, In a (flat_map (fun k => isort ev_leb (filter (on_lane k) evs)) ks) -> In (lane a) ks).
Proof.
  induction ks as [|k r IH]; intros N; cbn [flat_map].
  - split; [exact I|intros a []].
  - inversion N as [|? ? Hk Nr]; subst. destruct (IH Nr) as [S C]. split.
    + apply lane_sorted_app; [apply tsle_lane_sorted, isort_tsle|exact S|].
      intros a b Ha Hb E. apply block_lane in Ha. apply C in Hb. rewrite E, Ha in Hb. contradiction.
    + intros a Ha. apply in_app_or in Ha. destruct Ha as [Ha|Ha]; [left; symmetry; eapply block_lane; eassumption|right; now apply C].
Qed.
Theorem sort_stage_lane_sorted evs : lane_sorted (sort_stage evs).
Proof.
  unfold sort_stage. destruct (dedupk_spec (map lane evs) []) as (N & _ & _).
  now destruct (blocks_lane_sorted evs _ N).
Qed.
(* with the sort stage in front (the registered pipeline) the assertion can never fire on non-negative times *)
Theorem run_sorted_no_assert ms evs :
  (forall b, In b evs -> isx b = true -> 0 <= ts b) ->
  run TID ms true evs <> Err "AssertionError".
Proof.
  intros Hn. apply run_no_assert; [apply sort_stage_lane_sorted|].
  intros b Hb. apply Hn. cbn [pre_stream] in Hb. exact (Permutation_in _ (sort_stage_perm evs) Hb).
Qed.

(* -O drop on ordered lanes never raises *)
Lemma detect_drop_total fuel nxt L a :
  fst (L (lane a)) <= ts a ->
  exists st out, detect DROP fuel nxt L a = Ok (upd L (lane a) (ts a, st)) out.
Proof.
  intros H. destruct fuel; cbn [detect]; destruct (L (lane a)) as [cur ends]; cbn [fst] in H;
  (destruct (Z.ltb_spec (ts a) cur); [lia|]); destruct (overlaps (ts a) (en a) ends); cbn [negb]; eauto.
Qed.
Lemma feed_drop_total fuel nxt : forall evs L,
  lane_sorted evs -> (forall b, In b evs -> isx b = true -> fst (L (lane b)) <= ts b) ->
  exists L' out, feed DROP fuel nxt L evs = Ok L' out.
Proof.
  induction evs as [|a r IH]; intros L S K; cbn [feed]; [eauto|]. destruct S as [Sa Sr].
  destruct (isx a) eqn:Ex.
  - destruct (detect_drop_total fuel nxt L a (K a (or_introl eq_refl) Ex)) as (st & o1 & ->).
    destruct (IH (upd L (lane a) (ts a, st)) Sr) as (L2 & o2 & ->); [|eauto].
    intros b Hb Xb. destruct (keyb_spec (lane a) (lane b)) as [E|E].
    + rewrite <- E, upd_same. cbn. apply Sa; auto.
    + rewrite upd_other by assumption. apply K; [now right|assumption].
  - destruct (IH L Sr) as (L2 & o2 & ->); [|eauto]. intros b Hb Xb. apply K; [now right|assumption].
Qed.
Theorem run_drop_total ms presort evs :
  lane_sorted (pre_stream presort evs) ->
  (forall b, In b (pre_stream presort evs) -> isx b = true -> 0 <= ts b) ->
  exists L out, run DROP ms presort evs = Ok L out.
Proof. intros S N. unfold run. apply feed_drop_total; [exact S|]. intros b Hb Xb. cbn. now apply N. Qed.
Theorem run_sorted_drop_total ms evs :
  (forall b, In b evs -> isx b = true -> 0 <= ts b) -> exists L out, run DROP ms true evs = Ok L out.
Proof.
  intros Hn. apply run_drop_total; [apply sort_stage_lane_sorted|].
  intros b Hb. apply Hn. cbn [pre_stream] in Hb. exact (Permutation_in _ (sort_stage_perm evs) Hb).
Qed.
