(* MpSync_proofs.v — lemmas about the model in MpSync.v (property C07). *)
From Coq Require Import ZArith QArith List Bool String Lia Permutation Sorted.
Import ListNotations.
From AiuModel Require Import Base MpSync.
Local Open Scope Z_scope.

Lemma noop : forall es, active (gather_all es) = false -> mp_run es = Ok (emit (all_events (gather_all es))).
Proof. intros es H. unfold mp_run, drain. rewrite H. reflexivity. Qed.
