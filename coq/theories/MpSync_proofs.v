(* MpSync_proofs.v — lemmas about the model in MpSync.v (property C07).

   Contents: monad/list helpers; gathering facts; the no-op cases; stable-sort lemmas (permutation, sortedness,
   sorting related lists alike); [rigid] (shape of every drained event), [perm_sorted]; np.argmin specification,
   inversion/introduction of a successful calibration, [aligned]; the epoch theorem: [bump] commutes with queues,
   group ends, argmin, the reference event, the calibration ([calibrate_bump]) and the per-event alteration
   ([alter1_bump]), hence [epoch_blind]; a computed counterexample for the reversed (chain) branch. *)
From Coq Require Import ZArith QArith List Bool String Lia Lqa Permutation Sorted Setoid Morphisms.
Import ListNotations.
From AiuModel Require Import Base MpSync.
Local Open Scope Z_scope.

(* ================================================================ *)

(* ---------------------------------------------------------------- monad *)
Lemma bind_ok : forall {A B} (r : res A) (f : A -> res B) b,
  bind r f = Ok b -> exists a, r = Ok a /\ f a = Ok b.
Proof. intros A B [a|t] f b H; simpl in H; [eauto|discriminate]. Qed.

Lemma mapM_ok : forall {A B} (f : A -> res B) l ys,
  mapM f l = Ok ys -> Forall2 (fun x y => f x = Ok y) l ys.
Proof.
  induction l as [|x r IH]; simpl; intros ys H.
  - inversion H. constructor.
  - apply bind_ok in H. destruct H as [y [Hy H]]. apply bind_ok in H. destruct H as [ys' [Hys H]].
    inversion H. subst. constructor; auto.
Qed.

Lemma mapM_of_Forall2 : forall {A B} (f : A -> res B) l ys,
  Forall2 (fun x y => f x = Ok y) l ys -> mapM f l = Ok ys.
Proof. induction 1; simpl; auto. rewrite H, IHForall2. reflexivity. Qed.

Lemma Forall2_length' : forall {A B} (R : A -> B -> Prop) l1 l2, Forall2 R l1 l2 -> List.length l1 = List.length l2.
Proof. induction 1; simpl; auto. Qed.

(* ---------------------------------------------------------------- gathering *)
Lemma gather_events : forall es s, all_events (fold_left gather es s) = all_events s ++ es.
Proof.
  induction es as [|e r IH]; intros s; simpl.
  - now rewrite app_nil_r.
  - rewrite IH. unfold gather. destruct (cg_of e); simpl; now rewrite <- app_assoc.
Qed.

Lemma all_events_gather_all : forall es, all_events (gather_all es) = es.
Proof. intros. unfold gather_all. now rewrite gather_events. Qed.

(* ---------------------------------------------------------------- noop *)
Lemma noop : forall es, active (gather_all es) = false -> mp_run es = Ok (emit es).
Proof. intros es H. unfold mp_run, drain. rewrite H, all_events_gather_all. reflexivity. Qed.

Lemma mem_z_In : forall x l, mem_z x l = true <-> In x l.
Proof.
  intros. unfold mem_z. rewrite existsb_exists. split.
  - intros [y [Hy He]]. apply Z.eqb_eq in He. now subst.
  - intros H. exists x. split; auto. apply Z.eqb_refl.
Qed.

Lemma proc_ids_inv : forall (P : Z -> Prop) es s,
  (forall e, In e es -> P (e_pid e)) -> Forall P (proc_ids s) -> NoDup (proc_ids s) ->
  Forall P (proc_ids (fold_left gather es s)) /\ NoDup (proc_ids (fold_left gather es s)).
Proof.
  induction es as [|e r IH]; intros s HP HF HN; simpl; auto.
  apply IH.
  - intros; apply HP; now right.
  - unfold gather. destruct (cg_of e); simpl; auto. unfold add_pid.
    destruct (mem_z (e_pid e) (proc_ids s)); auto. apply Forall_app; split; auto.
    constructor; auto. apply HP; now left.
  - unfold gather. destruct (cg_of e); simpl; auto. unfold add_pid.
    destruct (mem_z (e_pid e) (proc_ids s)) eqn:Hm; auto.
    apply (Permutation_NoDup (Permutation_cons_append (proc_ids s) (e_pid e))).
    constructor; auto. intros Hin. apply mem_z_In in Hin. congruence.
Qed.

Lemma single_rank_len : forall es p, (forall e, In e es -> e_pid e = p) ->
  (List.length (proc_ids (gather_all es)) <= 1)%nat.
Proof.
  intros es p H.
  assert (HH : Forall (fun x => x = p) (proc_ids (fold_left gather es st0)) /\ NoDup (proc_ids (fold_left gather es st0))).
  { apply proc_ids_inv; simpl; auto; constructor. }
  destruct HH as [HF HN].
  unfold gather_all. destruct (proc_ids (fold_left gather es st0)) as [|a [|b l]]; simpl; try lia.
  inversion HF as [|? ? Ha HF']; subst. inversion HF' as [|? ? Hb _]; subst.
  inversion HN as [|? ? Hn _]; subst. exfalso; apply Hn; now left.
Qed.

Lemma noop_single_rank : forall es p, (forall e, In e es -> e_pid e = p) -> mp_run es = Ok (emit es).
Proof.
  intros es p H. apply noop. unfold active. pose proof (single_rank_len es p H) as L.
  rewrite (proj2 (Nat.ltb_ge _ _)) by lia. apply andb_false_r.
Qed.

Lemma coll_groups_free : forall es s, (forall e, In e es -> cg_of e = None) ->
  coll_groups (fold_left gather es s) = coll_groups s.
Proof.
  induction es as [|e r IH]; intros s H; simpl; auto.
  rewrite IH by (intros; apply H; now right). unfold gather. rewrite (H e) by now left. reflexivity.
Qed.

Lemma noop_collective_free : forall es, (forall e, In e es -> cg_of e = None) -> mp_run es = Ok (emit es).
Proof.
  intros es H. apply noop. unfold active, gather_all. rewrite coll_groups_free by assumption. reflexivity.
Qed.


(* ---------------------------------------------------------------- stable sort *)
Section Isort.
  Context {A : Type} (leb : A -> A -> bool).

  Lemma insert_perm : forall x l, Permutation (insert_sorted leb x l) (x :: l).
  Proof.
    induction l as [|y r IH]; simpl; auto.
    destruct (leb x y); auto. rewrite IH. apply perm_swap.
  Qed.

  Lemma isort_perm : forall l, Permutation (isort leb l) l.
  Proof.
    induction l as [|x r IH]; simpl; auto. unfold isort in *. simpl. rewrite insert_perm. now constructor.
  Qed.

  Variable R : A -> A -> Prop.
  Hypothesis leb_R : forall a b, leb a b = true -> R a b.
  Hypothesis leb_total : forall a b, leb a b = false -> R b a.

  Lemma insert_sorted_Sorted : forall x l, Sorted R l -> Sorted R (insert_sorted leb x l).
  Proof.
    induction l as [|y r IH]; simpl; intros HS.
    - repeat constructor.
    - destruct (leb x y) eqn:E.
      + constructor; [assumption | constructor; now apply leb_R].
      + inversion HS as [|? ? HS' HR]; subst. constructor; [now apply IH|].
        destruct r as [|z r']; simpl.
        * constructor. now apply leb_total.
        * destruct (leb x z); constructor; [now apply leb_total | now inversion HR].
  Qed.

  Lemma isort_Sorted : forall l, Sorted R (isort leb l).
  Proof. induction l; simpl; [constructor|]. unfold isort in *. simpl. now apply insert_sorted_Sorted. Qed.
End Isort.

(* two lists related pointwise by a relation under which the order test agrees are sorted alike *)
Section IsortRel.
  Context {A B : Type} (la : A -> A -> bool) (lb : B -> B -> bool) (R : A -> B -> Prop).
  Hypothesis compat : forall a a' b b', R a b -> R a' b' -> la a a' = lb b b'.

  Lemma insert_rel : forall x y l m, R x y -> Forall2 R l m ->
    Forall2 R (insert_sorted la x l) (insert_sorted lb y m).
  Proof.
    intros x y l m Hxy H. induction H as [|a b l m Hab H IH]; simpl.
    - repeat constructor; auto.
    - rewrite (compat x a y b Hxy Hab). destruct (lb y b); constructor; auto.
  Qed.

  Lemma isort_rel : forall l m, Forall2 R l m -> Forall2 R (isort la l) (isort lb m).
  Proof. induction 1; simpl; [constructor|]. unfold isort in *. simpl. now apply insert_rel. Qed.
End IsortRel.

Lemma Forall2_rev : forall {A B} (R : A -> B -> Prop) l m, Forall2 R l m -> Forall2 R (rev l) (rev m).
Proof.
  induction 1; simpl; [constructor|]. apply Forall2_app; auto.
Qed.

Lemma ts_leb_le : forall a b, ts_leb a b = true -> (e_ts a <= e_ts b)%Q.
Proof. intros a b H. now apply Qle_bool_iff. Qed.

Lemma ts_leb_total : forall a b, ts_leb a b = false -> (e_ts b <= e_ts a)%Q.
Proof.
  intros a b H. unfold ts_leb in H. destruct (Qlt_le_dec (e_ts b) (e_ts a)) as [L|L].
  - now apply Qlt_le_weak.
  - apply Qle_bool_iff in L. congruence.
Qed.

Definition ts_le (a b : ev) : Prop := (e_ts a <= e_ts b)%Q.

Lemma emit_sorted : forall es, StronglySorted ts_le (emit es).
Proof.
  intros es. apply Sorted_StronglySorted.
  - intros a b c H1 H2. unfold ts_le in *. eapply Qle_trans; eauto.
  - unfold emit. apply isort_Sorted; [apply ts_leb_le | apply ts_leb_total].
Qed.

Lemma emit_perm : forall es, Permutation (emit es) es.
Proof. intros. unfold emit. rewrite isort_perm. symmetry. apply Permutation_rev. Qed.

Lemma Forall2_imp : forall {A B} (R S : A -> B -> Prop) l m,
  (forall a b, R a b -> S a b) -> Forall2 R l m -> Forall2 S l m.
Proof. induction 2; constructor; auto. Qed.

(* ---------------------------------------------------------------- rigid *)
Lemma nth_error_map' : forall {A B} (f : A -> B) l n, nth_error (map f l) n = option_map f (nth_error l n).
Proof. induction l; destruct n; simpl; auto. Qed.

Lemma alter1_placed : forall c e e', alter1 c e = Ok e' -> placed c e e'.
Proof.
  intros c e e' H. unfold alter1 in H. unfold placed, has_ts5.
  destruct (e_args e) as [a|] eqn:Ea; [|discriminate].
  destruct (a_ts5 a) eqn:E5; [|now inversion H].
  destruct (a_dev a) as [dev|] eqn:Ed; [|discriminate].
  apply bind_ok in H. destruct H as [s [Hs H]].
  rewrite !nth_error_map' in H.
  destruct (nth_error dev (op_id (e_name e))) as [t|] eqn:En; simpl in H; [|discriminate].
  inversion H; subst e'; clear H.
  assert (Hsh : shift_of c (e_pid e) = s).
  { destruct dev as [|d0 dr]; [destruct (op_id (e_name e)); discriminate|].
    unfold shift_of. now rewrite Hs. }
  exists dev, t. unfold dev_of, all_of, off, cg_of, has_ts5, set_times. rewrite Ea; simpl. rewrite Hsh.
  repeat split; auto; try ring.
  now rewrite map_map.
Qed.

Lemma rigid : forall es out, mp_run es = Ok out -> active (gather_all es) = true ->
  exists c es', calib_of (gather_all es) = Ok c /\ Forall2 (placed c) es es' /\ out = emit es'.
Proof.
  intros es out H Ha. unfold mp_run, drain in H. rewrite Ha in H.
  apply bind_ok in H. destruct H as [c [Hc H]]. apply bind_ok in H. destruct H as [es' [He H]].
  inversion H; subst. exists c, es'. rewrite all_events_gather_all in He. repeat split; auto.
  apply mapM_ok in He. eapply Forall2_imp; [|exact He]. apply alter1_placed.
Qed.

Lemma placed_uid : forall c e e', placed c e e' -> e_uid e' = e_uid e.
Proof.
  intros c e e' H. unfold placed in H. destruct (has_ts5 e).
  - destruct H as [dev [t H]]. tauto.
  - now subst.
Qed.

Lemma placed_counters : forall c e e' (f : Q) (cs : list Z),
  placed c e e' -> has_ts5 e = true ->
  dev_of e = Some (map (fun z => (inject_Z z / f)%Q) cs) -> (op_id (e_name e) < List.length cs)%nat ->
  (e_ts e' == inject_Z (nth (op_id (e_name e)) cs 0%Z) / f + off c (e_pid e))%Q /\ e_dur e' = e_dur e.
Proof.
  intros c e e' f cs H H5 Hd Hl. unfold placed in H. rewrite H5 in H.
  destruct H as [dev [t [Hd' [Ht [Hts [Hdur _]]]]]]. rewrite Hd in Hd'. inversion Hd'; subst dev.
  rewrite nth_error_map' in Ht. rewrite (nth_error_nth' cs 0%Z Hl) in Ht. simpl in Ht. inversion Ht; subst t.
  split; auto.
Qed.

Lemma perm_sorted : forall es out, mp_run es = Ok out ->
  Permutation (map e_uid out) (map e_uid es) /\ StronglySorted ts_le out /\ List.length out = List.length es.
Proof.
  intros es out H. destruct (active (gather_all es)) eqn:Ha.
  - destruct (rigid es out H Ha) as [c [es' [_ [HF Ho]]]]. subst out.
    assert (Hm : map e_uid es' = map e_uid es).
    { clear -HF. induction HF; simpl; auto. f_equal; auto. eapply placed_uid; eauto. }
    split; [|split].
    + rewrite <- Hm. apply Permutation_map, emit_perm.
    + apply emit_sorted.
    + rewrite (Permutation_length (emit_perm es')). symmetry. eapply Forall2_length'; eauto.
  - rewrite (noop es Ha) in H. inversion H; subst. split; [|split].
    + apply Permutation_map, emit_perm.
    + apply emit_sorted.
    + apply Permutation_length, emit_perm.
Qed.

(* ================================================================ *)

(* ---------------------------------------------------------------- argmin *)
Lemma Qlt_b_true : forall x y, Qlt_b x y = true -> (x < y)%Q.
Proof.
  intros x y H. unfold Qlt_b in H. apply negb_true_iff in H.
  destruct (Qlt_le_dec x y) as [L|L]; auto. apply Qle_bool_iff in L. congruence.
Qed.

Lemma Qlt_b_false : forall x y, Qlt_b x y = false -> (y <= x)%Q.
Proof. intros x y H. unfold Qlt_b in H. apply negb_false_iff in H. now apply Qle_bool_iff. Qed.

Lemma argmin_from_spec : forall l best bi i j d,
  argmin_from best bi i l = (j, d) ->
  (d <= best)%Q /\ (forall x, In x l -> (d <= x)%Q) /\
  ((j = bi /\ d = best) \/ (exists k, j = (i + k)%nat /\ nth_error l k = Some d)).
Proof.
  induction l as [|x r IH]; simpl; intros best bi i j d H.
  - inversion H; subst. split; [apply Qle_refl|]. split; [intros ? []|]. now left.
  - destruct (Qlt_b x best) eqn:E.
    + apply IH in H. destruct H as [H1 [H2 H3]]. apply Qlt_b_true in E. split; [|split].
      * eapply Qle_trans; [exact H1|]. now apply Qlt_le_weak.
      * intros y [Hy|Hy]; [subst; auto|auto].
      * right. destruct H3 as [[Hj Hd]|[k [Hj Hk]]].
        -- exists 0%nat. subst. split; [lia|reflexivity].
        -- exists (S k). split; [lia|exact Hk].
    + apply IH in H. destruct H as [H1 [H2 H3]]. apply Qlt_b_false in E. split; [auto|split].
      * intros y [Hy|Hy]; [subst; eapply Qle_trans; eauto|auto].
      * destruct H3 as [[Hj Hd]|[k [Hj Hk]]]; [now left|]. right. exists (S k). split; [lia|exact Hk].
Qed.

Lemma argmin_spec : forall l j d, l <> [] -> argmin l = (j, d) ->
  nth_error l j = Some d /\ (forall x, In x l -> (d <= x)%Q).
Proof.
  intros [|x r] j d Hn H; [congruence|]. simpl in H. apply argmin_from_spec in H.
  destruct H as [H1 [H2 H3]]. split.
  - destruct H3 as [[Hj Hd]|[k [Hj Hk]]]; subst; simpl; auto.
  - intros y [Hy|Hy]; subst; auto.
Qed.

(* ---------------------------------------------------------------- shape of a successful calibration *)
Definition rows_of (es : list ev) (gs : list string) (tree : bool) (np : nat) : res (list (list Q)) :=
  if (2 <? np)%nat then mapM (fun i => ends es gs (pm tree np i) 1) (seq 1 (np - 1)) else Ok [].

Lemma calibrate_inv : forall es np cgs c,
  calibrate es np cgs = Ok c ->
  let gs := groups_used cgs in
  let tree := tree_of es gs in
  exists rows0 send recv idx d r y,
    rows_of es gs tree np = Ok rows0 /\
    ends es gs (pm tree np 0) 4 = Ok send /\
    ends es gs (pm tree np 1) 1 = Ok recv /\
    argmin (map2 Qminus recv send) = (idx, d) /\
    ref_event es (nth idx gs ""%string) (if tree then 4%nat else 1%nat) = Ok (r, y) /\
    c = mkcal tree idx
          (map (fun p => shift_pos tree d (if (2 <? np)%nat then rows0 else [recv]) (pos_of tree np p)) (seq 0 np))
          (e_ts r + e_dur r - y -
           nth 0 (map (fun p => shift_pos tree d (if (2 <? np)%nat then rows0 else [recv]) (pos_of tree np p))
                      (seq 0 np)) 0)%Q.
Proof.
  intros es np cgs c H. unfold calibrate in H. fold (rows_of es (groups_used cgs) (tree_of es (groups_used cgs)) np) in H.
  apply bind_ok in H. destruct H as [rows0 [Hr H]].
  apply bind_ok in H. destruct H as [send [Hs H]].
  apply bind_ok in H. destruct H as [recv [Hv H]].
  destruct (argmin (map2 Qminus recv send)) as [idx d] eqn:Ea.
  apply bind_ok in H. destruct H as [[r y] [Hre H]].
  inversion H; subst c; clear H.
  exists rows0, send, recv, idx, d, r, y. repeat split; try assumption.
Qed.

Lemma mapM_length : forall {A B} (f : A -> res B) l ys, mapM f l = Ok ys -> List.length ys = List.length l.
Proof. intros. apply mapM_ok in H. symmetry. eapply Forall2_length'; eauto. Qed.

Lemma map2_length : forall {A B C} (f : A -> B -> C) l m, List.length l = List.length m ->
  List.length (map2 f l m) = List.length l.
Proof. induction l; destruct m; simpl; intros; auto; try discriminate. Qed.

Lemma map2_nth_error : forall {A B C} (f : A -> B -> C) l m j a b,
  nth_error l j = Some a -> nth_error m j = Some b -> nth_error (map2 f l m) j = Some (f a b).
Proof.
  induction l; destruct m, j; simpl; intros; try discriminate.
  - inversion H; inversion H0; subst; auto.
  - eauto.
Qed.

Lemma groups_used_nonempty : forall cgs, cgs <> [] -> groups_used cgs <> [].
Proof.
  intros cgs H. unfold groups_used. destruct (existsb is_allreduce cgs) eqn:E; auto.
  apply existsb_exists in E. destruct E as [g [Hg Ha]]. intros Hf.
  assert (In g (filter is_allreduce cgs)) by (apply filter_In; auto). rewrite Hf in H0. destruct H0.
Qed.

Lemma shift_at_nat : forall sh r, (r < List.length sh)%nat -> shift_at sh (Z.of_nat r) = Ok (nth r sh 0%Q).
Proof.
  intros sh r H. unfold shift_at.
  replace (0 <=? Z.of_nat r) with true by (symmetry; apply Z.leb_le; lia).
  replace (Z.of_nat r <? Z.of_nat (List.length sh)) with true by (symmetry; apply Z.ltb_lt; lia).
  simpl. now rewrite Nat2Z.id.
Qed.

Lemma nth_map_seq : forall (f : nat -> Q) n r, (r < n)%nat -> nth r (map f (seq 0 n)) 0%Q = f r.
Proof.
  intros f n r H. rewrite (nth_indep _ 0%Q (f 0%nat)) by (rewrite map_length, seq_length; lia).
  rewrite map_nth. now rewrite seq_nth.
Qed.

Lemma Forall2_nth_rel : forall {A B} (R : A -> B -> Prop) l m, Forall2 R l m ->
  forall i d1 d2, (i < List.length l)%nat -> R (nth i l d1) (nth i m d2).
Proof.
  induction 1; intros i d1 d2 Hi; simpl in *; [lia|]. destruct i; auto. apply IHForall2. lia.
Qed.

Definition last_end (es : list ev) (gs : list string) (pid : Z) (k j : nat) : Q :=
  match ends es gs pid k with Ok l => nth j l 0%Q | Err _ => 0%Q end.

Lemma is_nil_false : forall {A} (l : list A), is_nil l = false -> l <> [].
Proof. intros A [|] H; [discriminate|congruence]. Qed.

Lemma aligned : forall es c,
  active (gather_all es) = true -> calib_of (gather_all es) = Ok c -> c_tree c = true ->
  let gs := groups_used (coll_groups (gather_all es)) in
  let np := List.length (proc_ids (gather_all es)) in
  (shift_of c 0 == 0)%Q /\
  (forall j, (j < List.length gs)%nat ->
     (last_end es gs 0 4 j + shift_of c 0 <= last_end es gs 1 1 j + shift_of c 1)%Q) /\
  (c_idx c < List.length gs)%nat /\
  (last_end es gs 1 1 (c_idx c) + shift_of c 1 == last_end es gs 0 4 (c_idx c) + shift_of c 0)%Q /\
  (forall r, (2 <= r < np)%nat ->
     (last_end es gs (Z.of_nat r) 1 0 + shift_of c (Z.of_nat r) == last_end es gs 1 1 0 + shift_of c 1)%Q).
Proof.
  intros es c Ha Hc Ht gs np. unfold calib_of in Hc. rewrite all_events_gather_all in Hc.
  apply calibrate_inv in Hc. fold gs np in Hc.
  destruct Hc as [rows0 [send [recv [idx [d [r [y [Hr [Hs [Hv [Hm [Hre Hc]]]]]]]]]]]].
  assert (Htree : tree_of es gs = true) by (subst c; exact Ht).
  rewrite Htree in *. unfold pm in Hs, Hv. simpl in Hs, Hv.
  unfold active in Ha. apply andb_true_iff in Ha. destruct Ha as [Hg Hnp].
  apply negb_true_iff, is_nil_false, groups_used_nonempty in Hg. fold gs in Hg.
  apply Nat.ltb_lt in Hnp. fold np in Hnp.
  pose proof (mapM_length _ _ _ Hs) as Ls. pose proof (mapM_length _ _ _ Hv) as Lv.
  assert (Hdiff : map2 Qminus recv send <> []).
  { intros E. apply (f_equal (@List.length Q)) in E. rewrite map2_length in E by congruence.
    simpl in E. destruct gs; [congruence|]. simpl in *. lia. }
  destruct (argmin_spec _ _ _ Hdiff Hm) as [Hnth Hmin].
  assert (Lsh : List.length (c_shifts c) = np) by (subst c; simpl; now rewrite map_length, seq_length).
  assert (S0 : shift_of c 0 = 0%Q).
  { unfold shift_of. change 0 with (Z.of_nat 0). rewrite shift_at_nat by lia. subst c; simpl.
    rewrite nth_map_seq by lia. reflexivity. }
  assert (S1 : shift_of c 1 = (- d)%Q).
  { unfold shift_of. change 1 with (Z.of_nat 1). rewrite shift_at_nat by lia. subst c; simpl.
    rewrite nth_map_seq by lia. reflexivity. }
  assert (Hidx : (idx < List.length gs)%nat).
  { assert (Hlt : (idx < List.length (map2 Qminus recv send))%nat) by (apply nth_error_Some; rewrite Hnth; discriminate).
    rewrite map2_length in Hlt by congruence. lia. }
  unfold last_end. rewrite Hs, Hv.
  split; [rewrite S0; reflexivity|]. split; [|split; [subst c; exact Hidx|split]].
  - intros j Hj. rewrite S0, S1.
    destruct (nth_error recv j) as [a|] eqn:Ea; [|apply nth_error_None in Ea; lia].
    destruct (nth_error send j) as [b|] eqn:Eb; [|apply nth_error_None in Eb; lia].
    rewrite (nth_error_nth _ _ _ Ea), (nth_error_nth _ _ _ Eb).
    pose proof (map2_nth_error Qminus _ _ _ _ _ Ea Eb) as E. apply nth_error_In in E. apply Hmin in E.
    unfold Qminus in *. lra.
  - replace (c_idx c) with idx by (subst c; reflexivity). rewrite S0, S1.
    destruct (nth_error recv idx) as [a|] eqn:Ea; [|apply nth_error_None in Ea; lia].
    destruct (nth_error send idx) as [b|] eqn:Eb; [|apply nth_error_None in Eb; lia].
    rewrite (nth_error_nth _ _ _ Ea), (nth_error_nth _ _ _ Eb).
    rewrite (map2_nth_error Qminus _ _ _ _ _ Ea Eb) in Hnth. inversion Hnth. unfold Qminus. ring.
  - intros q Hq. rewrite S1.
    assert (Hnp2 : (2 <? np)%nat = true) by (apply Nat.ltb_lt; lia).
    unfold rows_of in Hr. rewrite Hnp2 in Hr. apply mapM_ok in Hr.
    assert (Hrow : ends es gs (Z.of_nat q) 1 = Ok (nth (q - 1) rows0 [])).
    { clear -Hr Hq. assert (Hq' : (q - 1 < np - 1)%nat) by lia.
      pose proof (Forall2_length' _ _ _ Hr) as L. rewrite seq_length in L.
      assert (H := Forall2_nth_rel _ _ _ Hr (q - 1)%nat 0%nat []).
      rewrite seq_length in H. specialize (H Hq'). rewrite seq_nth in H by lia. cbv beta in H.
      unfold pm in H. replace (1 + (q - 1))%nat with q in H by lia. exact H. }
    assert (Hrow1 : nth 0 rows0 [] = recv).
    { pose proof (Forall2_length' _ _ _ Hr) as L. rewrite seq_length in L.
      assert (H := Forall2_nth_rel _ _ _ Hr 0%nat 0%nat []).
      rewrite seq_length in H. specialize (H ltac:(lia)). rewrite seq_nth in H by lia. simpl in H.
      unfold pm in H. simpl in H. rewrite Hv in H. now inversion H. }
    rewrite Hrow.
    unfold shift_of. rewrite shift_at_nat by lia. subst c; simpl. rewrite nth_map_seq by lia.
    rewrite Hnp2. unfold pos_of. destruct q as [|[|q']]; try lia. simpl shift_pos.
    replace (S (S q') - 1)%nat with (S q') by lia.
    replace (hd [] rows0) with recv.
    2:{ rewrite <- Hrow1. destruct rows0; reflexivity. }
    assert (Hhd : forall l : list Q, nth 0 l 0%Q = hd 0%Q l) by (intros [|]; reflexivity).
    rewrite !Hhd. ring.
Qed.

(* ================================================================ *)

(* ---------------------------------------------------------------- Q helpers *)
Lemma Qle_bool_shift : forall a b a' b' k, (a' == a + k)%Q -> (b' == b + k)%Q -> Qle_bool a' b' = Qle_bool a b.
Proof.
  intros a b a' b' k Ha Hb. apply eq_true_iff_eq. rewrite !Qle_bool_iff. rewrite Ha, Hb. split; intros; lra.
Qed.

Lemma Qlt_b_shift : forall a b a' b' k, (a' == a + k)%Q -> (b' == b + k)%Q -> Qlt_b a' b' = Qlt_b a b.
Proof. intros. unfold Qlt_b. f_equal. eapply Qle_bool_shift; eauto. Qed.

Lemma Qmax_shift : forall x y x' k, (x' == x + k)%Q -> (Qmax x' (y + k) == Qmax x y + k)%Q.
Proof.
  intros x y x' k H. unfold Qmax.
  rewrite (Qle_bool_shift x y x' (y + k)%Q k H (Qeq_refl _)).
  destruct (Qle_bool x y); [reflexivity|exact H].
Qed.

Lemma maxl_shift : forall k l x x', (x' == x + k)%Q ->
  (maxl x' (map (fun v => v + k) l) == maxl x l + k)%Q.
Proof.
  induction l as [|y r IH]; intros x x' H; simpl; auto.
  apply IH. now apply Qmax_shift.
Qed.

Lemma qlist_eq_refl : forall l, qlist_eq l l.
Proof. induction l; constructor; auto. reflexivity. Qed.

Lemma oq_eq_refl : forall o, oq_eq o o.
Proof. intros [l|]; simpl; auto. apply qlist_eq_refl. Qed.

(* ---------------------------------------------------------------- bump keeps everything but ts_dev *)
Section Bump.
  Variable c : Z -> Q.

  Lemma bump_cg : forall e, cg_of (bump c e) = cg_of e.
  Proof. intros e. unfold cg_of, bump; simpl. destruct (e_ph e), (e_args e); reflexivity. Qed.

  Lemma bump_ts5 : forall e, has_ts5 (bump c e) = has_ts5 e.
  Proof. intros e. unfold has_ts5, bump; simpl. destruct (e_args e); reflexivity. Qed.

  Lemma bump_same_view : forall e, same_view e (bump c e).
  Proof.
    intros e. unfold same_view. rewrite bump_cg, bump_ts5. simpl. repeat split; try reflexivity.
    unfold all_of, bump; simpl. destruct (e_args e); simpl; [apply oq_eq_refl | exact I].
  Qed.

  Lemma gather_bump : forall es s1 s2,
    proc_ids s2 = proc_ids s1 -> coll_groups s2 = coll_groups s1 ->
    proc_ids (fold_left gather (map (bump c) es) s2) = proc_ids (fold_left gather es s1) /\
    coll_groups (fold_left gather (map (bump c) es) s2) = coll_groups (fold_left gather es s1).
  Proof.
    induction es as [|e r IH]; intros s1 s2 Hp Hg; simpl; auto.
    apply IH; unfold gather; rewrite bump_cg; destruct (cg_of e); simpl; congruence.
  Qed.

  Lemma gather_all_bump : forall es,
    proc_ids (gather_all (map (bump c) es)) = proc_ids (gather_all es) /\
    coll_groups (gather_all (map (bump c) es)) = coll_groups (gather_all es).
  Proof. intros. apply gather_bump; reflexivity. Qed.

  Lemma in_queue_bump : forall pid g e, in_queue pid g (bump c e) = in_queue pid g e.
  Proof. intros. unfold in_queue. rewrite bump_cg. reflexivity. Qed.

  Lemma queue_bump : forall es pid g, queue (map (bump c) es) pid g = map (bump c) (queue es pid g).
  Proof.
    intros. unfold queue. induction es as [|e r IH]; simpl; auto.
    rewrite in_queue_bump. destruct (in_queue pid g e); simpl; congruence.
  Qed.

  Lemma queue_pid : forall es pid g e, In e (queue es pid g) -> e_pid e = pid.
  Proof.
    intros es pid g e H. unfold queue in H. apply filter_In in H. destruct H as [_ H].
    unfold in_queue in H. destruct (cg_of e); [|discriminate]. apply andb_true_iff in H.
    now apply Z.eqb_eq.
  Qed.

  Lemma dev_at_bump : forall k e x, dev_at k e = Ok x -> dev_at k (bump c e) = Ok (x + c (e_pid e))%Q.
  Proof.
    intros k e x H. unfold dev_at, bump in *; simpl. destruct (e_args e) as [a|]; [|discriminate]. simpl.
    destruct (a_dev a) as [l|]; [|discriminate]. rewrite nth_error_map'.
    destruct (nth_error l k); [|discriminate]. inversion H; subst. reflexivity.
  Qed.

  Lemma mapM_dev_bump : forall k pid q l, (forall e, In e q -> e_pid e = pid) ->
    mapM (dev_at k) q = Ok l -> mapM (dev_at k) (map (bump c) q) = Ok (map (fun v => v + c pid)%Q l).
  Proof.
    induction q as [|e r IH]; intros l Hp H; simpl in *.
    - inversion H; reflexivity.
    - apply bind_ok in H. destruct H as [x [Hx H]]. apply bind_ok in H. destruct H as [xs [Hxs H]].
      inversion H; subst. rewrite (dev_at_bump _ _ _ Hx). simpl.
      rewrite (IH xs) by auto. simpl. rewrite (Hp e) by auto. reflexivity.
  Qed.

  Lemma group_end_bump : forall es pid k g v, group_end es pid k g = Ok v ->
    exists v', group_end (map (bump c) es) pid k g = Ok v' /\ (v' == v + c pid)%Q.
  Proof.
    intros es pid k g v H. unfold group_end in *. rewrite queue_bump.
    pose proof (queue_pid es pid g) as Hp.
    destruct (queue es pid g) as [|e q]; [discriminate|]. simpl.
    apply bind_ok in H. destruct H as [x [Hx H]]. apply bind_ok in H. destruct H as [l [Hl H]].
    inversion H; subst. rewrite (dev_at_bump _ _ _ Hx). simpl.
    rewrite (mapM_dev_bump k pid q l) by (auto; intros; apply Hp; now right). simpl.
    rewrite (Hp e) by now left. eexists. split; [reflexivity|]. apply maxl_shift. reflexivity.
  Qed.

  Lemma ends_bump : forall es gs pid k l, ends es gs pid k = Ok l ->
    exists l', ends (map (bump c) es) gs pid k = Ok l' /\ Forall2 (fun v v' => v' == v + c pid)%Q l l'.
  Proof.
    intros es gs pid k. unfold ends. induction gs as [|g r IH]; intros l H; simpl in *.
    - inversion H. exists []. split; auto.
    - apply bind_ok in H. destruct H as [v [Hv H]]. apply bind_ok in H. destruct H as [vs [Hvs H]].
      inversion H; subst. destruct (group_end_bump _ _ _ _ _ Hv) as [v' [Hv' Hr]].
      destruct (IH _ Hvs) as [vs' [Hvs' Hrs]]. exists (v' :: vs'). rewrite Hv'. simpl. rewrite Hvs'. simpl.
      split; auto.
  Qed.

  Lemma tree_of_bump : forall es gs, tree_of (map (bump c) es) gs = tree_of es gs.
  Proof.
    intros. unfold tree_of. rewrite queue_bump. induction (queue es 0 (hd ""%string gs)); simpl; auto.
    rewrite IHl. reflexivity.
  Qed.
End Bump.

(* ---------------------------------------------------------------- argmin under a constant shift *)
Lemma argmin_from_shift : forall k l l', Forall2 (fun x y => y == x + k)%Q l l' ->
  forall best best' bi i j d, (best' == best + k)%Q -> argmin_from best bi i l = (j, d) ->
  exists d', argmin_from best' bi i l' = (j, d') /\ (d' == d + k)%Q.
Proof.
  induction 1 as [|x y l l' Hxy HF IH]; intros best best' bi i j d Hb H; simpl in *.
  - inversion H; subst. eauto.
  - rewrite (Qlt_b_shift x best y best' k Hxy Hb). destruct (Qlt_b x best); eapply IH; eauto.
Qed.

Lemma argmin_shift : forall k l l' j d, Forall2 (fun x y => y == x + k)%Q l l' -> l <> [] ->
  argmin l = (j, d) -> exists d', argmin l' = (j, d') /\ (d' == d + k)%Q.
Proof.
  intros k l l' j d HF Hn H. destruct HF as [|x y l l' Hxy HF]; [congruence|]. simpl in *.
  eapply argmin_from_shift; eauto.
Qed.

Lemma map2_minus_shift : forall k1 k0 recv recv' send send',
  Forall2 (fun v v' => v' == v + k1)%Q recv recv' -> Forall2 (fun v v' => v' == v + k0)%Q send send' ->
  Forall2 (fun x y => y == x + (k1 - k0))%Q (map2 Qminus recv send) (map2 Qminus recv' send').
Proof.
  intros k1 k0 recv recv' send send' H. revert send send'.
  induction H as [|a a' r r' Ha H IH]; intros send send' Hs; simpl; [constructor|].
  destruct Hs as [|b b' s s' Hb Hs]; [constructor|]. constructor; auto.
  unfold Qminus. rewrite Ha, Hb. ring.
Qed.

(* ================================================================ *)

Section Epoch.
  Variable c : Z -> Q.

  (* ---------------------------------------------------------------- the reference event *)
  Definition bkey (k0c : Q) (p : Q * ev) : Q * ev := ((fst p + k0c)%Q, bump c (snd p)).

  Lemma lastmax_bump : forall k l best bk,
    lastmax (bump c best) (bk + k)%Q (map (bkey k) l) = bump c (lastmax best bk l).
  Proof.
    induction l as [|[x e] r IH]; intros best bk; simpl; auto.
    rewrite (Qle_bool_shift bk x (bk + k)%Q (x + k)%Q k (Qeq_refl _) (Qeq_refl _)).
    destruct (Qle_bool bk x); apply IH.
  Qed.

  Lemma lastmax_In : forall l best bk, lastmax best bk l = best \/ In (lastmax best bk l) (map snd l).
  Proof.
    induction l as [|[x e] r IH]; intros best bk; simpl; auto.
    destruct (Qle_bool bk x).
    - destruct (IH e x) as [H|H]; [left; now left | right; now right] || idtac.
      all: destruct (IH e x) as [H|H]; [right; left; now rewrite H | right; now right].
    - destruct (IH best bk) as [H|H]; [now left | right; now right].
  Qed.

  Definition keyed (k0 : nat) (e' : ev) : res (Q * ev) := bind (dev_at k0 e') (fun y => Ok (y, e')).

  Lemma mapM_keyed_bump : forall k0 pid q l, (forall e, In e q -> e_pid e = pid) ->
    mapM (keyed k0) q = Ok l ->
    mapM (keyed k0) (map (bump c) q) = Ok (map (bkey (c pid)) l) /\ map snd l = q.
  Proof.
    induction q as [|e r IH]; intros l Hp H; simpl in *.
    - inversion H; auto.
    - apply bind_ok in H. destruct H as [[x e'] [Hx H]]. apply bind_ok in H. destruct H as [xs [Hxs H]].
      inversion H; subst. unfold keyed in Hx at 1. apply bind_ok in Hx. destruct Hx as [y [Hy Hx]].
      inversion Hx; subst. destruct (IH xs) as [E1 E2]; auto.
      unfold keyed at 1. rewrite (dev_at_bump c _ _ _ Hy). simpl. rewrite E1. simpl.
      rewrite (Hp e') by auto. split; [reflexivity | now rewrite E2].
  Qed.

  Lemma ref_event_bump : forall es g k0 r y, ref_event es g k0 = Ok (r, y) ->
    ref_event (map (bump c) es) g k0 = Ok (bump c r, (y + c 0)%Q).
  Proof.
    intros es g k0 r y H. unfold ref_event in *. rewrite queue_bump.
    pose proof (queue_pid es 0 g) as Hp.
    destruct (queue es 0 g) as [|e q]; [discriminate|]. simpl.
    apply bind_ok in H. destruct H as [x [Hx H]]. apply bind_ok in H. destruct H as [l [Hl H]].
    apply bind_ok in H. destruct H as [y' [Hy H]]. inversion H; subst r y'. clear H.
    fold (keyed k0) in Hl |- *.
    destruct (mapM_keyed_bump k0 0 q l) as [E1 E2]; auto; [intros; apply Hp; now right|].
    rewrite (dev_at_bump c _ _ _ Hx). simpl. rewrite (Hp e) by now left. rewrite E1. simpl.
    rewrite lastmax_bump.
    assert (Hr : e_pid (lastmax e x l) = 0).
    { destruct (lastmax_In l e x) as [H|H]; [rewrite H; apply Hp; now left|].
      rewrite E2 in H. apply Hp. now right. }
    rewrite (dev_at_bump c _ _ _ Hy). simpl. rewrite Hr. reflexivity.
  Qed.

  (* ---------------------------------------------------------------- calibration *)
  Lemma mapM_exists : forall {A B} (f : A -> res B) l, (forall x, In x l -> exists y, f x = Ok y) ->
    exists ys, mapM f l = Ok ys.
  Proof.
    induction l as [|x r IH]; intros H; simpl; [eauto|].
    destruct (H x) as [y Hy]; [now left|]. destruct IH as [ys Hys]; [intros; apply H; now right|].
    rewrite Hy, Hys. simpl. eauto.
  Qed.

  Lemma calibrate_intro : forall es np cgs rows0 send recv idx d r y,
    let gs := groups_used cgs in
    let tree := tree_of es gs in
    rows_of es gs tree np = Ok rows0 ->
    ends es gs (pm tree np 0) 4 = Ok send ->
    ends es gs (pm tree np 1) 1 = Ok recv ->
    argmin (map2 Qminus recv send) = (idx, d) ->
    ref_event es (nth idx gs ""%string) (if tree then 4%nat else 1%nat) = Ok (r, y) ->
    calibrate es np cgs = Ok (mkcal tree idx
          (map (fun p => shift_pos tree d (if (2 <? np)%nat then rows0 else [recv]) (pos_of tree np p)) (seq 0 np))
          (e_ts r + e_dur r - y -
           nth 0 (map (fun p => shift_pos tree d (if (2 <? np)%nat then rows0 else [recv]) (pos_of tree np p))
                      (seq 0 np)) 0)%Q).
  Proof.
    intros es np cgs rows0 send recv idx d r y gs tree Hr Hs Hv Ha Hre.
    unfold calibrate. fold gs. fold tree. fold (rows_of es gs tree np).
    rewrite Hr. simpl. rewrite Hs. simpl. rewrite Hv. simpl. rewrite Ha. rewrite Hre. reflexivity.
  Qed.

  (* K: the offset of the rank that stays unshifted (P_map[0] = 0 in the tree branch, P_map[1] in the chain branch) *)
  Definition calib_rel (np : nat) (K : Q) (c1 c2 : calib) : Prop :=
    List.length (c_shifts c1) = np /\ List.length (c_shifts c2) = np /\
    (forall p, (p < np)%nat -> (nth p (c_shifts c2) 0 == nth p (c_shifts c1) 0 - c (Z.of_nat p) + K)%Q) /\
    (c_off c2 == c_off c1 - K)%Q.

  Lemma hd_nth0 : forall (l : list Q), hd 0%Q l = nth 0 l 0%Q.
  Proof. intros [|]; reflexivity. Qed.

  Lemma pm_pos : forall tree np p, (p < np)%nat -> pm tree np (pos_of tree np p) = Z.of_nat p.
  Proof. intros [|] np p H; unfold pm, pos_of; [reflexivity|f_equal; lia]. Qed.

  Lemma pos_lt : forall tree np p, (p < np)%nat -> (pos_of tree np p < np)%nat.
  Proof. intros [|] np p H; unfold pos_of; lia. Qed.

  (* the counter offset of the rank that the calibration leaves unshifted *)
  Definition Kof (tree : bool) (np : nat) : Q := if tree then c (pm tree np 0) else c (pm tree np 1).

  Lemma calibrate_bump : forall es np cgs c1,
    cgs <> [] -> (2 <= np)%nat ->
    calibrate es np cgs = Ok c1 ->
    exists c2, calibrate (map (bump c) es) np cgs = Ok c2 /\ calib_rel np (Kof (c_tree c1) np) c1 c2.
  Proof.
    intros es np cgs c1 Hcg Hnp H.
    apply calibrate_inv in H.
    destruct H as [rows0 [send [recv [idx [d [r [y [Hr [Hs [Hv [Hm [Hre Hc]]]]]]]]]]]].
    set (gs := groups_used cgs) in *.
    set (tree := tree_of es gs) in *.
    assert (Hgs : gs <> []) by (apply groups_used_nonempty; exact Hcg).
    set (es2 := map (bump c) es).
    (* the pieces on the bumped stream *)
    destruct (ends_bump c _ _ _ _ _ Hs) as [send' [Hs' Rs]].
    destruct (ends_bump c _ _ _ _ _ Hv) as [recv' [Hv' Rv]].
    pose proof (mapM_length _ _ _ Hs) as Ls. pose proof (mapM_length _ _ _ Hv) as Lv.
    assert (Hdiff : map2 Qminus recv send <> []).
    { intros E. apply (f_equal (@List.length Q)) in E. rewrite map2_length in E by congruence.
      simpl in E. destruct gs; [congruence|]. simpl in *. lia. }
    destruct (argmin_shift (c (pm tree np 1) - c (pm tree np 0))%Q _ _ _ _
                (map2_minus_shift _ _ _ _ _ _ Rv Rs) Hdiff Hm) as [d' [Hm' Rd]].
    pose proof (ref_event_bump _ _ _ _ _ Hre) as Hre'. fold es2 in Hre'.
    assert (Hrows : exists rows0', rows_of es2 gs tree np = Ok rows0' /\
              ((2 <? np)%nat = true -> forall j, (j < np - 1)%nat ->
                 (hd 0 (nth j rows0' []) == hd 0 (nth j rows0 []) + c (pm tree np (S j)))%Q)).
    { unfold rows_of in *. destruct (2 <? np)%nat eqn:E2; [|exists []; split; [reflexivity|discriminate]].
      pose proof (mapM_ok _ _ _ Hr) as F1.
      destruct (mapM_exists (fun i => ends es2 gs (pm tree np i) 1) (seq 1 (np - 1))) as [rows0' Hr'].
      { intros i Hi. apply in_seq in Hi.
        pose proof (Forall2_nth_rel _ _ _ F1 (i - 1)%nat 0%nat []) as H. rewrite seq_length in H.
        specialize (H ltac:(lia)). rewrite seq_nth in H by lia. cbv beta in H.
        replace (1 + (i - 1))%nat with i in H by lia.
        destruct (ends_bump c _ _ _ _ _ H) as [l' [Hl' _]]. eauto. }
      exists rows0'. split; [exact Hr'|]. intros _ j Hj.
      pose proof (mapM_ok _ _ _ Hr') as F2.
      pose proof (Forall2_nth_rel _ _ _ F1 j 0%nat []) as H1. rewrite seq_length in H1. specialize (H1 Hj).
      pose proof (Forall2_nth_rel _ _ _ F2 j 0%nat []) as H2. rewrite seq_length in H2. specialize (H2 Hj).
      rewrite seq_nth in H1, H2 by lia. cbv beta in H1, H2.
      destruct (ends_bump c _ _ _ _ _ H1) as [l' [Hl' Rl]]. fold es2 in Hl'. rewrite H2 in Hl'. inversion Hl'; subst l'.
      pose proof (mapM_length _ _ _ H1) as L1.
      replace (1 + j)%nat with (S j) in * by lia.
      rewrite !hd_nth0. apply (Forall2_nth_rel _ _ _ Rl 0%nat 0%Q 0%Q).
      rewrite L1. destruct gs; [congruence|simpl; lia]. }
    destruct Hrows as [rows0' [Hr' Rrows]].
    pose proof (tree_of_bump c es gs) as Tb. fold es2 in Tb. fold tree in Tb.
    assert (Hsh : forall p, (p < np)%nat ->
              (shift_pos tree d' (if (2 <? np)%nat then rows0' else [recv']) (pos_of tree np p) ==
               shift_pos tree d (if (2 <? np)%nat then rows0 else [recv]) (pos_of tree np p)
               - c (Z.of_nat p) + Kof tree np)%Q).
    { intros p Hp. rewrite <- (pm_pos tree np p Hp). pose proof (pos_lt tree np p Hp) as Hq.
      remember (pos_of tree np p) as q eqn:Eq. clear Eq.
      destruct q as [|[|q']]; cbn [shift_pos]; cbv zeta; unfold Kof.
      - destruct tree; [ring|]. rewrite Rd. ring.
      - destruct tree; [|ring]. rewrite Rd. ring.
      - assert (E2 : (2 <? np)%nat = true) by (apply Nat.ltb_lt; lia). rewrite E2.
        rewrite !hd_nth0 with (l := (hd [] _)).
        assert (Hh : forall (rows : list (list Q)), nth 0 (hd [] rows) 0%Q = hd 0%Q (nth 0 rows [])).
        { intros [|a0 ?]; simpl; [reflexivity|apply eq_sym, hd_nth0]. }
        rewrite !Hh.
        pose proof (Rrows E2 (S q') ltac:(lia)) as R1. pose proof (Rrows E2 0%nat ltac:(lia)) as R0.
        clearbody tree. destruct tree; rewrite R1, R0; [rewrite Rd|]; ring. }
    eexists. split.
    - pose proof (calibrate_intro es2 np cgs rows0' send' recv' idx d' (bump c r) (y + c 0)%Q) as CI.
      cbv zeta in CI. fold gs in CI. rewrite Tb in CI. apply CI; auto.
    - subst c1. unfold calib_rel. cbn [c_tree c_shifts c_off].
      rewrite !map_length, !seq_length. split; [reflexivity|]. split; [reflexivity|]. split.
      + intros p Hp. rewrite !nth_map_seq by lia. apply Hsh. exact Hp.
      + rewrite !nth_map_seq by lia. rewrite (Hsh 0%nat) by lia.
        replace (Z.of_nat 0) with 0 by reflexivity. simpl. ring.
  Qed.
End Epoch.

(* ================================================================ *)

Section Epoch2.
  Variable c : Z -> Q.

  Lemma shift_at_nonneg : forall sh pid s, 0 <= pid -> shift_at sh pid = Ok s ->
    (Z.to_nat pid < List.length sh)%nat /\ s = nth (Z.to_nat pid) sh 0%Q.
  Proof.
    intros sh pid s Hp H. unfold shift_at in H.
    destruct ((0 <=? pid) && (pid <? Z.of_nat (List.length sh))) eqn:E.
    - apply andb_true_iff in E. destruct E as [_ E]. apply Z.ltb_lt in E. inversion H. split; [lia|reflexivity].
    - destruct ((- Z.of_nat (List.length sh) <=? pid) && (pid <? 0)) eqn:E'; [|discriminate].
      apply andb_true_iff in E'. destruct E' as [_ E']. apply Z.ltb_lt in E'. lia.
  Qed.

  Lemma match_map_cons : forall (f : Q -> Q) d0 dr (X : res Q),
    match map f (d0 :: dr) with [] => Ok 0%Q | _ :: _ => X end = X.
  Proof. reflexivity. Qed.

  Lemma alter1_not5 : forall c0 e, has_ts5 e = false -> e_args e <> None -> alter1 c0 e = Ok e.
  Proof.
    intros c0 e H5 Ha. unfold alter1, has_ts5 in *. destruct (e_args e) as [a|]; [|congruence]. now rewrite H5.
  Qed.

  Lemma alter1_bump : forall np K c1 c2 e e1,
    calib_rel c np K c1 c2 -> (has_ts5 e = true -> 0 <= e_pid e) ->
    alter1 c1 e = Ok e1 -> exists e2, alter1 c2 (bump c e) = Ok e2 /\ same_view e1 e2.
  Proof.
    intros np K c1 c2 e e1 [L1 [L2 [Rs Ro]]] Hpid H.
    destruct (has_ts5 e) eqn:H5.
    2:{ assert (Ha : e_args e <> None) by (unfold alter1 in H; destruct (e_args e); congruence).
        rewrite (alter1_not5 c1 e H5 Ha) in H. inversion H; subst e1.
        exists (bump c e). split; [|apply bump_same_view]. apply alter1_not5; [now rewrite bump_ts5|].
        unfold bump; simpl. destruct (e_args e); congruence. }
    unfold alter1 in *. unfold has_ts5 in H5. simpl.
    destruct (e_args e) as [a|] eqn:Ea; [|discriminate]. simpl.
    rewrite H5 in *.
    destruct (a_dev a) as [dev|] eqn:Ed; [|discriminate].
    apply bind_ok in H. destruct H as [s1 [Hs1 H]]. rewrite !nth_error_map' in H.
    destruct (nth_error dev (op_id (e_name e))) as [t|] eqn:En; [|discriminate]. simpl in H.
    inversion H; subst e1; clear H.
    destruct dev as [|d0 dr]; [destruct (op_id (e_name e)); discriminate|].
    specialize (Hpid eq_refl).
    destruct (shift_at_nonneg _ _ _ Hpid Hs1) as [Hlt Hs1'].
    assert (Hs2 : shift_at (c_shifts c2) (e_pid e) = Ok (nth (Z.to_nat (e_pid e)) (c_shifts c2) 0%Q)).
    { rewrite <- (Z2Nat.id (e_pid e)) at 1 by exact Hpid. apply shift_at_nat. lia. }
    set (s2 := nth (Z.to_nat (e_pid e)) (c_shifts c2) 0%Q) in *.
    assert (Rs2 : (s2 == s1 - c (e_pid e) + K)%Q).
    { unfold s2. rewrite Hs1'. rewrite (Rs (Z.to_nat (e_pid e))) by lia. rewrite Z2Nat.id by exact Hpid. reflexivity. }
    rewrite match_map_cons, Hs2. unfold bind. rewrite !nth_error_map', En. cbn [option_map].
    eexists. split; [reflexivity|].
    unfold same_view, set_times, cg_of, has_ts5, all_of. simpl. rewrite Ea. simpl.
    repeat split; try reflexivity.
    - rewrite Rs2, Ro. ring.
    - rewrite !map_map. simpl.
      constructor; [rewrite Rs2, Ro; ring|].
      clear -Rs2 Ro. induction dr; simpl; constructor; auto. rewrite Rs2, Ro. ring.
  Qed.

  Lemma mapM_alter_bump : forall np K c1 c2 es es1,
    calib_rel c np K c1 c2 -> (forall e, In e es -> has_ts5 e = true -> 0 <= e_pid e) ->
    mapM (alter1 c1) es = Ok es1 ->
    exists es2, mapM (alter1 c2) (map (bump c) es) = Ok es2 /\ Forall2 same_view es1 es2.
  Proof.
    intros np K c1 c2 es. induction es as [|e r IH]; intros es1 HR Hp H; simpl in *.
    - inversion H. exists []. auto.
    - apply bind_ok in H. destruct H as [e1 [He1 H]]. apply bind_ok in H. destruct H as [r1 [Hr1 H]].
      inversion H; subst.
      destruct (alter1_bump np K c1 c2 e e1 HR (Hp e (or_introl eq_refl)) He1) as [e2 [He2 V]].
      destruct (IH r1 HR (fun x Hx => Hp x (or_intror Hx)) Hr1) as [r2 [Hr2 Vs]].
      exists (e2 :: r2). rewrite He2. simpl. rewrite Hr2. simpl. auto.
  Qed.

  Lemma emit_same_view : forall l m, Forall2 same_view l m -> Forall2 same_view (emit l) (emit m).
  Proof.
    intros l m H. unfold emit. apply isort_rel.
    - intros a a' b b' V V'. unfold ts_leb. unfold same_view in V, V'.
      destruct V as [_ [_ [_ [_ [V _]]]]]. destruct V' as [_ [_ [_ [_ [V' _]]]]]. now rewrite V, V'.
    - now apply Forall2_rev.
  Qed.

  Lemma active_bump : forall es, active (gather_all (map (bump c) es)) = active (gather_all es).
  Proof. intros. unfold active. destruct (gather_all_bump c es) as [H1 H2]. now rewrite H1, H2. Qed.

  Theorem epoch_blind : forall es out,
    mp_run es = Ok out ->
    (forall e, In e es -> has_ts5 e = true -> 0 <= e_pid e) ->
    exists out2, mp_run (map (bump c) es) = Ok out2 /\ Forall2 same_view out out2.
  Proof.
    intros es out H Hp. unfold mp_run, drain in *. rewrite active_bump.
    destruct (active (gather_all es)) eqn:Ha.
    - apply bind_ok in H. destruct H as [c1 [Hc H]]. apply bind_ok in H. destruct H as [es1 [He H]].
      inversion H; subst out; clear H.
      unfold calib_of in *. rewrite !all_events_gather_all in *.
      destruct (gather_all_bump c es) as [G1 G2]. rewrite G1, G2.
      unfold active in Ha. apply andb_true_iff in Ha. destruct Ha as [Hg Hnp].
      apply negb_true_iff, is_nil_false in Hg. apply Nat.ltb_lt in Hnp.
      assert (Hnp2 : (2 <= List.length (proc_ids (gather_all es)))%nat) by lia.
      destruct (calibrate_bump c _ _ _ _ Hg Hnp2 Hc) as [c2 [Hc2 HR]].
      rewrite Hc2. simpl.
      destruct (mapM_alter_bump _ _ _ _ _ _ HR Hp He) as [es2 [He2 V]].
      rewrite He2. simpl. eexists. split; [reflexivity|]. now apply emit_same_view.
    - inversion H; subst out. rewrite !all_events_gather_all. eexists. split; [reflexivity|].
      apply emit_same_view. clear. induction es; simpl; constructor; auto. apply bump_same_view.
  Qed.
End Epoch2.

(* ================================================================ concrete instances of both branches *)
Fixpoint ts_eqb_list (l m : list ev) : bool :=
  match l, m with
  | [], [] => true
  | a :: l', b :: m' => Qeq_bool (e_ts a) (e_ts b) && ts_eqb_list l' m'
  | _, _ => false
  end.

Lemma same_view_ts_eqb : forall l m, Forall2 same_view l m -> ts_eqb_list l m = true.
Proof.
  induction 1 as [|a b l m V H IH]; simpl; auto.
  destruct V as [_ [_ [_ [_ [V _]]]]]. apply Qeq_bool_iff in V. now rewrite V, IH.
Qed.

Definition wit_ev (uid pid : Z) (name : string) (t : Q) : ev :=
  mkev uid true pid name t 1%Q
       (Some (mkargs (Some "AllReduce_all_reduce_4"%string) true
                     (Some [t; (t + 1)%Q; (t + 2)%Q; (t + 3)%Q; (t + 4)%Q]) None)).

(* three ranks; rank 0's names do not carry the group name -> P_map reversed *)
Definition wit_chain : list ev :=
  [wit_ev 1 0 "SenRdmaSend_1 DmaO" 10%Q; wit_ev 2 1 "SenRdmaReceive_2 DmaI" 20%Q; wit_ev 3 2 "SenRdmaSend_3 DmaO" 30%Q].
(* the same with the tag -> tree branch (used for non-vacuity in props/C07.v) *)
Definition wit_tree : list ev :=
  [wit_ev 1 0 "SenRdmaSend_1 [sync=AllReduce_all_reduce_4_s0] DmaO" 10%Q;
   wit_ev 2 1 "SenRdmaReceive_2 [sync=AllReduce_all_reduce_4_s0] DmaI" 20%Q;
   wit_ev 3 2 "SenRdmaReceive_3 [sync=AllReduce_all_reduce_4_s2] DmaI" 30%Q;
   mkev 4 true 2 "HostFn" 5%Q 2%Q (Some (mkargs None false None None))].
Definition wit_c (p : Z) : Q := if p =? 1 then 1%Q else 0%Q.

(* the chain (reversed) branch, three ranks, rank 1's counters offset by 1: the same export (was refuted before the
   reference offset took rank 0's own shift into account, /repo fix "C07") *)
Lemma chain_witness_blind :
  tree_es wit_chain = false /\
  exists out out2, mp_run wit_chain = Ok out /\ mp_run (map (bump wit_c) wit_chain) = Ok out2 /\
                   ts_eqb_list out out2 = true /\ List.length out = 3%nat.
Proof.
  split; [vm_compute; reflexivity|].
  destruct (mp_run wit_chain) as [out|] eqn:E1; [|vm_compute in E1; discriminate].
  destruct (mp_run (map (bump wit_c) wit_chain)) as [out2|] eqn:E2; [|vm_compute in E2; discriminate].
  exists out, out2. split; [reflexivity|]. split; [reflexivity|].
  vm_compute in E1. vm_compute in E2. inversion E1; subst out. inversion E2; subst out2.
  split; vm_compute; reflexivity.
Qed.
