(* C16Model.v — executable entry point of the C16 correspondence: given a valuation of the guard atoms (as
   evaluated by Python on the real parsed arguments) and a profile choice, the sequence of register_stage calls
   and the resulting stage list.  harness/props/c16.py compares it with the real
   Acelyzer.register_processing_functions driving a recording EventProcessor. *)
From Coq Require Import List String Bool Arith ZArith.
Import ListNotations.
From AiuModel Require Import Base Profile.
From AiuGen Require Import Registration Profiles.
Local Open Scope string_scope.

(* profile choice: 0 = shipped default.json, 1 = shipped torch_minimal.json, otherwise the given stage list *)
Definition pick_profile (sel : nat) (custom : prof) : option prof :=
  match sel with
  | O => from_json profile_default everything
  | S O => from_json profile_torch_minimal everything
  | _ => from_json (Some custom) everything
  end.

Definition c16_run (x : (list bool * nat) * prof) : val :=
  let '((vl, s), custom) := x in
  let v := fun n => nth n vl false in
  match pick_profile s custom with
  | None => VE "IndexError"
  | Some P =>
      let cs := calls v the_program in
      VL [VL (map VS cs); VL (map VS (registered P cs)); VL (map (fun nf => VL [VS (fst nf); VB (snd nf)]) P)]
  end.

Definition n_atoms : nat := List.length atoms.
