(* History.v — layer A lemmas behind C14 (same inputs and options => identical results):
   (a) a run that starts by resetting the shared barrier cell (what Acelyzer.run does since fix 1950fab:
       `event_pipe._main_barrier_context.drain()` before the processor is built; every other context is
       constructed afresh per run) does not depend on what any earlier run of the same process - completed or
       aborted at any point - left behind in that cell;
   (b) inserting "inert" stages (duplicate_and_hold of -I: returns the event itself, its context's drain returns
       []) with private contexts anywhere in the pipeline does not change what Engine.run exports.
   Both are about the operational model of Pipeline.v; arbitrary stages, arbitrary sharing among the others. *)
From Coq Require Import List Arith Lia Bool.
Import ListNotations.
From AiuModel Require Import Pipeline.
Set Implicit Arguments.

Section History.
Variables E St : Type.
Notation stage := (stage E St).
Notation store := (store St).

(* ---------- stores that agree everywhere except on one cell ---------- *)
Definition eqx (c : nat) (a b : store) : Prop := forall i, i <> c -> a i = b i.

Lemma eqx_upd_l c a b s : eqx c a b -> eqx c (upd a c s) b.
Proof. intros H i Hi. unfold upd. destruct (Nat.eqb_spec c i); [congruence|auto]. Qed.
Lemma eqx_upd_both c a b k s : eqx c a b -> eqx c (upd a k s) (upd b k s).
Proof. intros H i Hi. unfold upd. destruct (Nat.eqb_spec k i); [reflexivity|auto]. Qed.

Lemma feed_eqx (g : stage) c a b es : cid g <> c -> eqx c a b ->
  snd (feed g a es) = snd (feed g b es) /\ eqx c (fst (feed g a es)) (fst (feed g b es)).
Proof.
  intros Hc H. unfold feed. rewrite (H (cid g) Hc). destruct (feedc g (b (cid g)) es) as [s o]. cbn [fst snd].
  split; [reflexivity|now apply eqx_upd_both].
Qed.

Lemma through_eqx (gs : list stage) c : ~ In c (map (@cid E St) gs) -> forall a b es, eqx c a b ->
  snd (through gs a es) = snd (through gs b es) /\ eqx c (fst (through gs a es)) (fst (through gs b es)).
Proof.
  induction gs as [|g r IH]; intros Hn a b es H; cbn [through]; [split; [reflexivity|exact H]|].
  assert (Hg : cid g <> c) by (intro; apply Hn; left; assumption).
  destruct (@feed_eqx g c a b es Hg H) as [Ho Hs].
  destruct (feed g a es) as [a1 o1]. destruct (feed g b es) as [b1 o2]. cbn [fst snd] in *. subst o2.
  apply IH; [intro; apply Hn; now right|exact Hs].
Qed.

Lemma inputs_eqx (gs : list stage) c : ~ In c (map (@cid E St) gs) -> forall es a b, eqx c a b ->
  snd (inputs gs a es) = snd (inputs gs b es) /\ eqx c (fst (inputs gs a es)) (fst (inputs gs b es)).
Proof.
  intros Hn. induction es as [|e r IH]; intros a b H; cbn [inputs]; [split; [reflexivity|exact H]|].
  destruct (@through_eqx gs c Hn a b [e] H) as [Ho Hs].
  destruct (through gs a [e]) as [a1 o1]. destruct (through gs b [e]) as [b1 o2]. cbn [fst snd] in *. subst o2.
  destruct (IH a1 b1 Hs) as [Ho2 Hs2].
  destruct (inputs gs a1 r) as [a2 o3]. destruct (inputs gs b1 r) as [b2 o4]. cbn [fst snd] in *. subst o4.
  split; [reflexivity|exact Hs2].
Qed.

Lemma drain_eqx (gs : list stage) c : ~ In c (map (@cid E St) gs) -> forall a b, eqx c a b ->
  snd (drain gs a) = snd (drain gs b) /\ eqx c (fst (drain gs a)) (fst (drain gs b)).
Proof.
  induction gs as [|g r IH]; intros Hn a b H; cbn [drain]; [split; [reflexivity|exact H]|].
  assert (Hg : cid g <> c) by (intro; apply Hn; left; assumption).
  assert (Hr : ~ In c (map (@cid E St) r)) by (intro; apply Hn; now right).
  rewrite (H (cid g) Hg). destruct (dr g (b (cid g))) as [s' pend].
  destruct (@inputs_eqx r c Hr pend (upd a (cid g) s') (upd b (cid g) s') (eqx_upd_both _ _ H)) as [Ho Hs].
  destruct (inputs r (upd a (cid g) s') pend) as [a1 o1]. destruct (inputs r (upd b (cid g) s') pend) as [b1 o2].
  cbn [fst snd] in *. subst o2.
  destruct (IH Hr a1 b1 Hs) as [Ho2 Hs2].
  destruct (drain r a1) as [a2 o3]. destruct (drain r b1) as [b2 o4]. cbn [fst snd] in *. subst o4.
  split; [reflexivity|exact Hs2].
Qed.

(* ---------- (a) history independence ---------- *)
(* the run as Acelyzer.run performs it: reset the barrier cell BC, then Engine.run *)
Definition fresh_run (BC : nat) (hempty : St) (gs : list stage) (st : store) (es : list E) : list E :=
  run gs (upd st BC hempty) es.

Lemma peq_through (gs : list stage) : forall a b es, (forall i, a i = b i) ->
  snd (through gs a es) = snd (through gs b es) /\ (forall i, fst (through gs a es) i = fst (through gs b es) i).
Proof.
  induction gs as [|g r IH]; intros a b es H; cbn [through]; [split; [reflexivity|exact H]|].
  unfold feed. rewrite (H (cid g)). destruct (feedc g (b (cid g)) es) as [s o].
  apply IH. intros i. unfold upd. destruct (Nat.eqb (cid g) i); [reflexivity|apply H].
Qed.
Lemma peq_inputs (gs : list stage) : forall es a b, (forall i, a i = b i) ->
  snd (inputs gs a es) = snd (inputs gs b es) /\ (forall i, fst (inputs gs a es) i = fst (inputs gs b es) i).
Proof.
  induction es as [|e r IH]; intros a b H; cbn [inputs]; [split; [reflexivity|exact H]|].
  destruct (@peq_through gs a b [e] H) as [Ho Hs].
  destruct (through gs a [e]) as [a1 o1]. destruct (through gs b [e]) as [b1 o2]. cbn [fst snd] in *. subst o2.
  destruct (IH a1 b1 Hs) as [Ho2 Hs2].
  destruct (inputs gs a1 r) as [a2 o3]. destruct (inputs gs b1 r) as [b2 o4]. cbn [fst snd] in *. subst o4.
  split; [reflexivity|exact Hs2].
Qed.
Lemma peq_drain (gs : list stage) : forall a b, (forall i, a i = b i) ->
  snd (drain gs a) = snd (drain gs b).
Proof.
  induction gs as [|g r IH]; intros a b H; cbn [drain]; [reflexivity|].
  rewrite (H (cid g)). destruct (dr g (b (cid g))) as [s' pend].
  assert (Hu : forall i, upd a (cid g) s' i = upd b (cid g) s' i)
    by (intros i; unfold upd; destruct (Nat.eqb (cid g) i); [reflexivity|apply H]).
  destruct (@peq_inputs r pend _ _ Hu) as [Ho Hs].
  destruct (inputs r (upd a (cid g) s') pend) as [a1 o1]. destruct (inputs r (upd b (cid g) s') pend) as [b1 o2].
  cbn [fst snd] in *. subst o2. specialize (IH a1 b1 Hs).
  destruct (drain r a1) as [a2 o3]. destruct (drain r b1) as [b2 o4]. cbn [snd] in IH. now subst o4.
Qed.
Lemma peq_run (gs : list stage) a b es : (forall i, a i = b i) -> run gs a es = run gs b es.
Proof.
  intros H. unfold run. destruct (@peq_inputs gs es a b H) as [Ho Hs].
  destruct (inputs gs a es) as [a1 o1]. destruct (inputs gs b es) as [b1 o2]. cbn [fst snd] in *. subst o2.
  pose proof (@peq_drain gs a1 b1 Hs) as Hd.
  destruct (drain gs a1) as [a2 o3]. destruct (drain gs b1) as [b2 o4]. cbn [snd] in Hd. now subst o4.
Qed.

(* whatever two process histories left in the barrier cell, the next run is the same *)
Theorem history_independent BC hempty (gs : list stage) (st st' : store) (es : list E) :
  eqx BC st st' -> fresh_run BC hempty gs st es = fresh_run BC hempty gs st' es.
Proof.
  intros H. unfold fresh_run. apply peq_run. intros i. unfold upd.
  destruct (Nat.eqb_spec BC i); [reflexivity|]. apply H. congruence.
Qed.

(* ---------- (b) inert stages ---------- *)
Definition inert (d : stage) : Prop := (forall s e, snd (cb d s e) = [e]) /\ (forall s, snd (dr d s) = []).

Lemma feedc_inert d : inert d -> forall es s, snd (feedc d s es) = es.
Proof.
  intros [Hc _]. induction es as [|e r IH]; intros s; cbn [feedc]; [reflexivity|].
  specialize (Hc s e). destruct (cb d s e) as [s1 o]. cbn [snd] in Hc. subst o.
  specialize (IH s1). destruct (feedc d s1 r) as [s2 o2]. cbn [snd] in *. now subst o2.
Qed.

Lemma through_insert d (post : list stage) : inert d -> forall pre,
  ~ In (cid d) (map (@cid E St) (pre ++ post)) -> forall a b es, eqx (cid d) a b ->
  snd (through (pre ++ d :: post) a es) = snd (through (pre ++ post) b es) /\
  eqx (cid d) (fst (through (pre ++ d :: post) a es)) (fst (through (pre ++ post) b es)).
Proof.
  intros Hi. induction pre as [|g pre IH]; intros Hn a b es H.
  - cbn [app through]. unfold feed. pose proof (feedc_inert Hi es (a (cid d))) as Hf.
    destruct (feedc d (a (cid d)) es) as [s o]. cbn [snd] in Hf. subst o.
    apply through_eqx; [exact Hn|now apply eqx_upd_l].
  - cbn [app through]. cbn [app map] in Hn.
    assert (Hg : cid g <> cid d) by (intro; apply Hn; left; assumption).
    destruct (@feed_eqx g (cid d) a b es Hg H) as [Ho Hs].
    destruct (feed g a es) as [a1 o1]. destruct (feed g b es) as [b1 o2]. cbn [fst snd] in *. subst o2.
    apply IH; [intro; apply Hn; now right|exact Hs].
Qed.

Lemma inputs_insert d (post pre : list stage) : inert d ->
  ~ In (cid d) (map (@cid E St) (pre ++ post)) -> forall es a b, eqx (cid d) a b ->
  snd (inputs (pre ++ d :: post) a es) = snd (inputs (pre ++ post) b es) /\
  eqx (cid d) (fst (inputs (pre ++ d :: post) a es)) (fst (inputs (pre ++ post) b es)).
Proof.
  intros Hi Hn. induction es as [|e r IH]; intros a b H; cbn [inputs]; [split; [reflexivity|exact H]|].
  destruct (@through_insert d post Hi pre Hn a b [e] H) as [Ho Hs].
  destruct (through (pre ++ d :: post) a [e]) as [a1 o1]. destruct (through (pre ++ post) b [e]) as [b1 o2].
  cbn [fst snd] in *. subst o2. destruct (IH a1 b1 Hs) as [Ho2 Hs2].
  destruct (inputs (pre ++ d :: post) a1 r) as [a2 o3]. destruct (inputs (pre ++ post) b1 r) as [b2 o4].
  cbn [fst snd] in *. subst o4. split; [reflexivity|exact Hs2].
Qed.

Lemma drain_insert d (post : list stage) : inert d -> forall pre,
  ~ In (cid d) (map (@cid E St) (pre ++ post)) -> forall a b, eqx (cid d) a b ->
  snd (drain (pre ++ d :: post) a) = snd (drain (pre ++ post) b).
Proof.
  intros Hi. induction pre as [|g pre IH]; intros Hn a b H.
  - cbn [app drain]. destruct Hi as [_ Hd]. specialize (Hd (a (cid d))).
    destruct (dr d (a (cid d))) as [s' pend]. cbn [snd] in Hd. subst pend. cbn [inputs app].
    destruct (@drain_eqx post (cid d) Hn (upd a (cid d) s') b (eqx_upd_l _ H)) as [Ho _].
    destruct (drain post (upd a (cid d) s')) as [a2 o3]. destruct (drain post b) as [b2 o4]. cbn [snd] in *. exact Ho.
  - cbn [app drain]. cbn [app map] in Hn.
    assert (Hg : cid g <> cid d) by (intro; apply Hn; left; assumption).
    assert (Hr : ~ In (cid d) (map (@cid E St) (pre ++ post))) by (intro; apply Hn; now right).
    rewrite (H (cid g) Hg). destruct (dr g (b (cid g))) as [s' pend].
    destruct (@inputs_insert d post pre Hi Hr pend (upd a (cid g) s') (upd b (cid g) s') (eqx_upd_both _ _ H)) as [Ho Hs].
    destruct (inputs (pre ++ d :: post) (upd a (cid g) s') pend) as [a1 o1].
    destruct (inputs (pre ++ post) (upd b (cid g) s') pend) as [b1 o2]. cbn [fst snd] in *. subst o2.
    specialize (IH Hr a1 b1 Hs).
    destruct (drain (pre ++ d :: post) a1) as [a2 o3]. destruct (drain (pre ++ post) b1) as [b2 o4].
    cbn [snd] in IH. now subst o4.
Qed.

(* one inert stage with a private context, inserted anywhere: same export *)
Theorem inert_insert d (pre post : list stage) st es :
  inert d -> ~ In (cid d) (map (@cid E St) (pre ++ post)) ->
  run (pre ++ d :: post) st es = run (pre ++ post) st es.
Proof.
  intros Hi Hn. unfold run.
  destruct (@inputs_insert d post pre Hi Hn es st st (fun i _ => eq_refl)) as [Ho Hs].
  destruct (inputs (pre ++ d :: post) st es) as [a1 o1]. destruct (inputs (pre ++ post) st es) as [b1 o2].
  cbn [fst snd] in *. subst o2.
  pose proof (@drain_insert d post Hi pre Hn a1 b1 Hs) as Hd.
  destruct (drain (pre ++ d :: post) a1) as [a2 o3]. destruct (drain (pre ++ post) b1) as [b2 o4].
  cbn [snd] in Hd. now subst o4.
Qed.

(* -I: after EVERY stage an inert stage with its own fresh context *)
Fixpoint intersperse (ds : list stage) (gs : list stage) : list stage :=
  match gs, ds with
  | g :: r, d :: dr => g :: d :: intersperse dr r
  | _, _ => gs
  end.

Theorem intermediate_transparent : forall (gs ds : list stage) st es,
  Forall inert ds -> NoDup (map (@cid E St) ds) ->
  (forall d, In d ds -> ~ In (cid d) (map (@cid E St) gs)) ->
  run (intersperse ds gs) st es = run gs st es.
Proof.
  (* peel the inserted stages off one at a time, from the left *)
  assert (G : forall (gs ds pre : list stage) st es,
             Forall inert ds -> NoDup (map (@cid E St) ds) ->
             (forall d, In d ds -> ~ In (cid d) (map (@cid E St) (pre ++ gs))) ->
             run (pre ++ intersperse ds gs) st es = run (pre ++ gs) st es).
  { induction gs as [|g r IH]; intros ds pre st es Hi Hnd Hfree; [destruct ds; reflexivity|].
    destruct ds as [|d dr]; [reflexivity|]. cbn [intersperse].
    inversion Hi as [|? ? Hd Hi']; subst. cbn [map] in Hnd. inversion Hnd as [|? ? Hnotin Hnd']; subst.
    (* first remove the later insertions (IH with prefix pre ++ [g; d]), then d itself *)
    replace (pre ++ g :: d :: intersperse dr r) with ((pre ++ [g; d]) ++ intersperse dr r)
      by (rewrite <- app_assoc; reflexivity).
    rewrite IH; [| exact Hi' | exact Hnd' |].
    - rewrite <- app_assoc. cbn [app].
      replace (pre ++ g :: d :: r) with ((pre ++ [g]) ++ d :: r) by (rewrite <- app_assoc; reflexivity).
      rewrite inert_insert; [rewrite <- app_assoc; reflexivity|exact Hd|].
      rewrite <- app_assoc. cbn [app]. apply Hfree. now left.
    - intros d' Hd' Hin. rewrite <- app_assoc in Hin. cbn [app] in Hin.
      rewrite map_app in Hin. cbn [map] in Hin. apply in_app_or in Hin.
      assert (Hf := Hfree d' (or_intror Hd')). rewrite map_app in Hf. cbn [map] in Hf.
      destruct Hin as [Hin|[Hin|[Hin|Hin]]].
      + apply Hf. apply in_or_app. now left.
      + apply Hf. apply in_or_app. right. now left.
      + apply Hnotin. rewrite Hin. now apply in_map.
      + apply Hf. apply in_or_app. right. now right. }
  intros gs ds st es Hi Hnd Hfree. exact (G gs ds [] st es Hi Hnd Hfree).
Qed.
End History.
