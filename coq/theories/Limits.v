(* Limits.v — executable model of the event limiter and the event filter (property C17).

   Modelled code (src/aiu_trace_analyzer/pipeline/normalize.py):
     EventLimiter.__init__ (the .get defaults), EventLimiter.is_ignored_type (Python substring test
     [ph in no_count_types]), EventLimiter.is_within_limits (window intersection, counter that
     counts only in-window events, skip / skip+count bounds),
     NormalizationContext.event_within_limits (left-to-right [or]: ignored types never reach the
     counting call), NormalizationContext.extract_eventfilters (split on ",", every entry split at
     its FIRST ":" only - [fstr.split(":", 1)] - so the regex may contain colons; an entry without
     a colon is skipped; one list entry per pair - repeated attributes all count),
     NormalizationContext.event_filtered (walk over the "." separated attribute path:
     [if not isinstance(e, dict) or a not in e: found = False; break]; the regex is applied only
     when the whole path was found and the leaf is not a dict:
     [found and not isinstance(e, dict) and regex.search(str(e))] - a total function, no exception),
     _attr_to_args, _hex_to_int_str, _name_unification, _capitalized_args and the order of
     normalize_phase1 (limits; non-X pass; normalisations; filter; jobname).
   Not modelled here: tsx_32bit_local_correction (C05) — for events carrying TS1 the model only
   states the guard under which that call cannot raise and the tie projects TS1..TS5/TSxOF away.

   An event is the Python dict itself: an association list in insertion order over a JSON-like
   tree.  Regular expressions are a Section variable [re_search : pattern -> subject -> bool]
   (Python's re.search, trusted); the tie instantiates it with a small derivative matcher over
   patterns that the harness generates together with their syntax tree.  Python's str() of the
   non-dict value an attribute path ends at is a Section variable [py_str : json -> string] as
   well; the tie instantiates it with [tie_str] (str / int / bool / None leaves) and refuses, with
   an explicit outcome, inputs in which a filter path ends at a float or list value. *)
From Coq Require Import ZArith QArith List Bool String Ascii DecimalString.
Import ListNotations.
From AiuModel Require Import Base.
Local Open Scope string_scope.
Local Open Scope Z_scope.

(* ------------------------------------------------------------------ JSON-like values *)
Inductive json : Type :=
| JS (s : string)
| JZ (z : Z)
| JQ (q : Q)                         (* Python float, exact *)
| JB (b : bool)
| JNull
| JL (l : list json)
| JD (kv : list (string * json)).    (* dict, insertion order *)

Definition dict := list (string * json).
Definition event := dict.

Inductive res (A : Type) : Type := Ok (a : A) | Err (tag : string).
Arguments Ok {A} a.
Arguments Err {A} tag.

Definition is_ok {A} (r : res A) : bool := match r with Ok _ => true | Err _ => false end.

Fixpoint dget (k : string) (d : dict) : option json :=
  match d with
  | [] => None
  | (k', v) :: r => if String.eqb k k' then Some v else dget k r
  end.
Definition dhas (k : string) (d : dict) : bool := match dget k d with Some _ => true | None => false end.
(* d[k] = v : in place when the key exists, appended otherwise *)
Fixpoint dset (k : string) (v : json) (d : dict) : dict :=
  match d with
  | [] => [(k, v)]
  | (k', v') :: r => if String.eqb k k' then (k', v) :: r else (k', v') :: dset k v r
  end.
Fixpoint ddel (k : string) (d : dict) : dict :=
  match d with
  | [] => []
  | (k', v') :: r => if String.eqb k k' then r else (k', v') :: ddel k r
  end.
Definition is_dict (j : json) : bool := match j with JD _ => true | _ => false end.

(* ------------------------------------------------------------------ strings *)
(* Python [a in s] for two strings *)
Fixpoint contains (a s : string) : bool :=
  prefix a s || match s with EmptyString => false | String _ t => contains a t end.

Fixpoint drop (n : nat) (s : string) : string :=
  match n, s with
  | O, _ => s
  | S k, String _ t => drop k t
  | S _, EmptyString => EmptyString
  end.
(* re.sub(old, new, s) for a literal, non-empty [old]: leftmost non-overlapping occurrences *)
Fixpoint replace_go (old new : string) (skip : nat) (s : string) : string :=
  match s with
  | EmptyString => EmptyString
  | String c t =>
      match skip with
      | S k => replace_go old new k t
      | O => if prefix old s then new ++ replace_go old new (Nat.pred (String.length old)) t
             else String c (replace_go old new O t)
      end
  end.
Definition replace_all (old new s : string) : string := replace_go old new O s.

(* str.split(c) *)
Fixpoint split_go (c : ascii) (s : string) (acc : string) : list string :=
  match s with
  | EmptyString => [acc]
  | String ch t => if Ascii.eqb ch c then acc :: split_go c t EmptyString
                   else split_go c t (acc ++ String ch EmptyString)
  end.
Definition split_on (c : ascii) (s : string) : list string := split_go c s EmptyString.

(* str.split(c, 1): None when s has no c (one part), else (text before the first c, the rest) *)
Fixpoint split_first (c : ascii) (s : string) : option (string * string) :=
  match s with
  | EmptyString => None
  | String ch t =>
      if Ascii.eqb ch c then Some (EmptyString, t)
      else match split_first c t with Some (k, r) => Some (String ch k, r) | None => None end
  end.
Fixpoint has_char (c : ascii) (s : string) : bool :=
  match s with EmptyString => false | String ch t => Ascii.eqb ch c || has_char c t end.

Definition is_space (c : ascii) : bool :=
  let n := nat_of_ascii c in (Nat.eqb n 32 || (Nat.leb 9 n && Nat.leb n 13))%bool.
Fixpoint all_space (s : string) : bool :=
  match s with EmptyString => true | String c t => is_space c && all_space t end.

(* str(int) *)
Definition zstr (z : Z) : string := NilZero.string_of_int (Z.to_int z).

Definition digit_val (c : ascii) : option Z :=
  let n := nat_of_ascii c in
  if (Nat.leb 48 n && Nat.leb n 57)%bool then Some (Z.of_nat (n - 48)) else None.
Definition hex_val (c : ascii) : option Z :=
  let n := nat_of_ascii c in
  if (Nat.leb 48 n && Nat.leb n 57)%bool then Some (Z.of_nat (n - 48))
  else if (Nat.leb 97 n && Nat.leb n 102)%bool then Some (Z.of_nat (n - 87))
  else if (Nat.leb 65 n && Nat.leb n 70)%bool then Some (Z.of_nat (n - 55))
  else None.
Fixpoint digits (base : Z) (dv : ascii -> option Z) (s : string) (acc : Z) : option Z :=
  match s with
  | EmptyString => Some acc
  | String c t => match dv c with Some d => digits base dv t (base * acc + d) | None => None end
  end.
Fixpoint all_zero (s : string) : bool :=
  match s with EmptyString => true | String c t => Ascii.eqb c "0"%char && all_zero t end.
(* int(s, 0) on the sub-language the tie uses: decimal without leading zeros (or all zeros), 0x/0X
   hexadecimal; anything else is a ValueError = None.  (Signs, blanks, underscores, 0o, 0b are
   valid Python but outside the generated inputs.) *)
Definition parse_int0 (s : string) : option Z :=
  match s with
  | EmptyString => None
  | String "0"%char (String x t) =>
      if (Ascii.eqb x "x"%char || Ascii.eqb x "X"%char)%bool then
        match t with EmptyString => None | _ => digits 16 hex_val t 0 end
      else if all_zero (String x t) then Some 0 else None
  | _ => digits 10 digit_val s 0
  end.

(* ------------------------------------------------------------------ EventLimiter *)
Record limcfg : Type := {
  l_skip : option Z; l_count : option Z; l_start : option Q; l_end : option Q; l_nct : option string }.

Definition FLOAT_MAX : Q := inject_Z (2 ^ 1024 - 2 ^ 971).
Definition skip_of (c : limcfg) : Z := match l_skip c with Some x => x | None => 0 end.
Definition count_of (c : limcfg) : Z := match l_count c with Some x => x | None => 2 ^ 60 end.
Definition limit_of (c : limcfg) : Z := count_of c + skip_of c.
Definition start_of (c : limcfg) : Q := match l_start c with Some x => x | None => 0%Q end.
Definition end_of (c : limcfg) : Q := match l_end c with Some x => x | None => FLOAT_MAX end.
Definition nct_of (c : limcfg) : string := match l_nct c with Some x => x | None => "M" end.

Definition num_of (j : json) : option Q :=
  match j with JZ z => Some (inject_Z z) | JQ q => Some q | _ => None end.
(* event.get(k, dflt) used as a number *)
Definition ev_num (k : string) (dflt : Q) (e : event) : res Q :=
  match dget k e with
  | None => Ok dflt
  | Some j => match num_of j with Some q => Ok q | None => Err "TypeError" end
  end.
Definition ev_ts (e : event) : res Q := ev_num "ts" (-1 # 1)%Q e.
Definition ev_dur (e : event) : res Q := ev_num "dur" 0%Q e.

(* [ts, ts+dur] intersects [ts_start, ts_end], both ends inclusive *)
Definition inwin (c : limcfg) (ts dur : Q) : bool :=
  Qle_bool (start_of c) (ts + dur)%Q && Qle_bool ts (end_of c).

(* is_within_limits with count_this_call = True: new counter and verdict *)
Definition within (c : limcfg) (cnt : Z) (ts dur : Q) : Z * bool :=
  let w := inwin c ts dur in
  let cnt' := if w then cnt + 1 else cnt in
  (cnt', w && (skip_of c <? cnt') && (cnt' <=? limit_of c)).

(* event_within_limits: is_ignored_type(event["ph"]) or is_within_limits(event) *)
Definition limiter (c : limcfg) (cnt : Z) (e : event) : Z * res bool :=
  match dget "ph" e with
  | None => (cnt, Err "KeyError")
  | Some (JS ph) =>
      if contains ph (nct_of c) then (cnt, Ok true)
      else match ev_ts e, ev_dur e with
           | Ok ts, Ok dur => let '(cnt', b) := within c cnt ts dur in (cnt', Ok b)
           | _, _ => (cnt, Err "TypeError")
           end
  | Some _ => (cnt, Err "TypeError")
  end.

(* ------------------------------------------------------------------ normalisations seen by the filter *)
Definition attr_to_args (e : event) : res event :=
  match dget "attr" e with
  | None => Ok e
  | Some (JD akv) =>
      let e1 := if dhas "args" e then e else dset "args" (JD []) e in
      match akv, dget "args" e1 with
      | [], _ => Ok (ddel "attr" e1)
      | _, Some (JD a) =>
          Ok (ddel "attr" (dset "args" (JD (fold_left (fun acc kv => dset (fst kv) (snd kv) acc) akv a)) e1))
      | _, _ => Err "TypeError"
      end
  | Some _ => Err "AttributeError"
  end.

Definition HEXKEYS : list string := ["TS1"; "TS2"; "TS3"; "TS4"; "TS5"; "Power"].
Definition hex_one (a : dict) (k : string) : dict :=
  match dget k a with
  | Some (JS s) => match parse_int0 s with Some z => dset k (JS (zstr z)) a | None => a end
  | _ => a
  end.
Definition hex_to_int (e : event) : event :=
  match dget "args" e with
  | Some (JD a) => dset "args" (JD (fold_left hex_one HEXKEYS a)) e
  | _ => e
  end.

Definition unify_name (n : string) : string := replace_all "Receive" "Recv" (replace_all "RDMA" "Rdma" n).
Definition name_unification (e : event) : res event :=
  match dget "name" e with
  | None => Err "KeyError"
  | Some (JS n) => Ok (dset "name" (JS (unify_name n)) e)
  | Some _ => Err "TypeError"
  end.

(* only reached with ph = "X" *)
Definition capitalized_args (e : event) : res event :=
  match dget "args" e with
  | None => Ok e
  | Some (JD a) =>
      match dget "Bytes" a with
      | Some v => Ok (dset "args" (JD (dset "bytes" v (ddel "Bytes" a))) e)
      | None => Ok e
      end
  | Some _ => Err "Unmodelled"          (* args that is not a dict: outside the modelled domain *)
  end.

Definition xform (e : event) : res event :=
  match attr_to_args e with
  | Err t => Err t
  | Ok e1 => match name_unification (hex_to_int e1) with
             | Err t => Err t
             | Ok e2 => capitalized_args e2
             end
  end.

(* ------------------------------------------------------------------ the filter *)
(* str(e) for the leaves the tie uses *)
Definition pystr (j : json) : option string :=
  match j with
  | JS s => Some s
  | JZ z => Some (zstr z)
  | JB true => Some "True"
  | JB false => Some "False"
  | JNull => Some "None"
  | _ => None
  end.

(* e = event; found = True
   for a in attr.split('.'):
       if not isinstance(e, dict) or a not in e: found = False; break
       e = e[a]
   Some leaf = the whole path was found (fix C17d: a path that leaves the dicts names an attribute
   the event does not have - no substring test on strings, no TypeError on numbers) *)
Fixpoint walk (e : json) (path : list string) : option json :=
  match path with
  | [] => Some e
  | a :: rest =>
      match e with
      | JD kv => match dget a kv with Some v => walk v rest | None => None end
      | _ => None
      end
  end.

(* extract_eventfilters: key_regex = fstr.split(":", 1); skipped unless it has two parts *)
Definition add_filter (acc : list (string * string)) (f : string) : list (string * string) :=
  match split_first ":"%char f with
  | Some kr => acc ++ [kr]          (* a list of pairs: every entry counts, also a repeated attribute (fix C17b);
                                       the regex is everything after the FIRST colon (fix C17c) *)
  | None => acc
  end.
Definition extract_filters (s : string) : list (string * string) :=
  if all_space s then [] else fold_left add_filter (split_on ","%char s) [].

Section Filter.
  Variable re_search : string -> string -> bool.      (* pattern, subject: Python re.search *)
  Variable py_str : json -> string.                   (* Python str() of a non-dict value *)

  (* found and not isinstance(e, dict) and regex.search(str(e)) is not None *)
  Definition one_filter (e : event) (ar : string * string) : bool :=
    match walk (JD e) (split_on "."%char (fst ar)) with
    | None => false
    | Some leaf => if is_dict leaf then false else re_search (snd ar) (py_str leaf)
    end.

  (* for attr, regex in self.event_filter: ... return True;  return False  - total, no exception *)
  Definition event_filtered (fs : list (string * string)) (e : event) : bool := existsb (one_filter e) fs.

  (* after the filter: jobname, and the guard under which the C05 correction cannot raise *)
  Definition job_name (jm : list (Z * string)) (jh : json) : string :=
    match jh with
    | JZ z => match find (fun p => Z.eqb (fst p) z) jm with Some p => snd p | None => "Not Available" end
    | _ => "Not Available"
    end.
  Definition ts_guard (e : event) (a : dict) : bool :=
    forallb (fun k => match dget k a with
                      | Some (JS s) => match parse_int0 s with Some _ => true | None => false end
                      | _ => false end) ["TS1"; "TS2"; "TS3"; "TS4"; "TS5"]
    && match ev_num "dur" 0%Q e with Ok d => negb (Qle_bool d 0%Q) | _ => false end
    && dhas "dur" e && dhas "ts" e && is_ok (ev_ts e)
    && match dget "pid" e with Some (JZ _) => true | _ => false end
    && match dget "name" e with Some (JS n) => negb (contains "Cmpt Exec" n) | _ => false end.
  Definition finish (jm : list (Z * string)) (e : event) : res (list event) :=
    match dget "args" e with
    | Some (JD a) =>
        match dget "jobhash" a with
        | None => Err "KeyError"
        | Some jh =>
            let a' := dset "jobname" (JS (job_name jm jh)) a in
            if dhas "TS1" a' && negb (ts_guard e a') then Err "Unmodelled"
            else Ok [dset "args" (JD a') e]
        end
    | None => Err "KeyError"
    | Some _ => Err "Unmodelled"
    end.

  Definition is_X (e : event) : bool :=
    match dget "ph" e with Some (JS ph) => String.eqb ph "X" | _ => false end.

  (* what happens to an X event the limiter lets through *)
  Definition post (fs : list (string * string)) (jm : list (Z * string)) (e : event) : res (list event) :=
    match xform e with
    | Err t => Err t
    | Ok e1 => if event_filtered fs e1 then Ok [] else finish jm e1
    end.

  (* the part of normalize_phase1 after the limiter's verdict *)
  Definition decide (fs : list (string * string)) (jm : list (Z * string)) (v : res bool) (e : event)
    : res (list event) :=
    match v with
    | Err t => Err t
    | Ok false => Ok []
    | Ok true => if is_X e then post fs jm e else Ok [e]
    end.

  (* normalize_phase1: new limiter counter and the returned list (or the exception) *)
  Definition phase1 (c : limcfg) (fs : list (string * string)) (jm : list (Z * string)) (cnt : Z) (e : event)
    : Z * res (list event) :=
    let '(cnt', v) := limiter c cnt e in (cnt', decide fs jm v e).

  (* one context, a whole stream (an exception is caught by the caller and the stream continues:
     that is how the tie drives the real function; Engine.run would stop at the first one) *)
  Fixpoint run_stream (c : limcfg) (fs : list (string * string)) (jm : list (Z * string)) (cnt : Z)
           (es : list event) : list (res (list event)) :=
    match es with
    | [] => []
    | e :: r => let '(cnt', o) := phase1 c fs jm cnt e in o :: run_stream c fs jm cnt' r
    end.
End Filter.

(* the limiter alone over a stream *)
Fixpoint lim_stream (c : limcfg) (cnt : Z) (es : list event) : list (res bool) :=
  match es with
  | [] => []
  | e :: r => let '(cnt', v) := limiter c cnt e in v :: lim_stream c cnt' r
  end.

(* ------------------------------------------------------------------ vocabulary of the theorems *)
Definition ignored (c : limcfg) (e : event) : bool :=
  match dget "ph" e with Some (JS ph) => contains ph (nct_of c) | _ => false end.
Definition inwin_e (c : limcfg) (e : event) : bool :=
  match ev_ts e, ev_dur e with Ok ts, Ok dur => inwin c ts dur | _, _ => false end.
(* the guard under which event_within_limits does not raise *)
Definition wf_e (c : limcfg) (e : event) : bool :=
  match dget "ph" e with
  | Some (JS ph) => contains ph (nct_of c) || (is_ok (ev_ts e) && is_ok (ev_dur e))
  | _ => false
  end.
(* events that advance the counter: well-formed, not of an ignored type, intersecting the window *)
Definition counted (c : limcfg) (e : event) : bool := wf_e c e && negb (ignored c e) && inwin_e c e.
Definition cntd (c : limcfg) (es : list event) : Z := Z.of_nat (List.length (filter (counted c) es)).
(* 1-based position of event i among the counted events, in arrival order *)
Definition pos (c : limcfg) (es : list event) (i : nat) : Z := cntd c (firstn (S i) es).

(* relational reading of "the event has the named (possibly nested) attribute": every component
   of the path is a key of the dict reached so far; nothing resolves below a value that is not a
   dict, and nothing resolves through a missing key *)
Inductive resolves : json -> list string -> json -> Prop :=
| rs_nil e : resolves e [] e
| rs_step kv a rest v leaf : dget a kv = Some v -> resolves v rest leaf -> resolves (JD kv) (a :: rest) leaf.

(* ------------------------------------------------------------------ regular expressions of the tie *)
Inductive rx : Type :=
| RNone | REps | RChr (c : ascii) | RAny | RDigit
| RCat (a b : rx) | RAlt (a b : rx) | RStar (a : rx).
Record pat : Type := { p_bol : bool; p_rx : rx; p_eol : bool }.

Fixpoint nullable (r : rx) : bool :=
  match r with
  | RNone => false | REps => true | RChr _ => false | RAny => false | RDigit => false
  | RCat a b => nullable a && nullable b
  | RAlt a b => nullable a || nullable b
  | RStar _ => true
  end.
Definition mkcat (a b : rx) : rx :=
  match a, b with RNone, _ => RNone | _, RNone => RNone | REps, _ => b | _, REps => a | _, _ => RCat a b end.
Definition mkalt (a b : rx) : rx :=
  match a, b with RNone, _ => b | _, RNone => a | _, _ => RAlt a b end.
Fixpoint deriv (c : ascii) (r : rx) : rx :=
  match r with
  | RNone => RNone | REps => RNone
  | RChr d => if Ascii.eqb c d then REps else RNone
  | RAny => REps
  | RDigit => match digit_val c with Some _ => REps | None => RNone end
  | RCat a b => if nullable a then mkalt (mkcat (deriv c a) b) (deriv c b) else mkcat (deriv c a) b
  | RAlt a b => mkalt (deriv c a) (deriv c b)
  | RStar a => mkcat (deriv c a) (RStar a)
  end.
(* some prefix of s (all of s when eol) is in the language of r *)
Fixpoint match_here (eol : bool) (r : rx) (s : string) : bool :=
  (nullable r && (negb eol || match s with EmptyString => true | _ => false end))
  || match s with EmptyString => false | String c t => match_here eol (deriv c r) t end.
Fixpoint search_from (eol : bool) (r : rx) (s : string) : bool :=
  match_here eol r s || match s with EmptyString => false | String _ t => search_from eol r t end.
Definition pat_search (p : pat) (s : string) : bool :=
  if p_bol p then match_here (p_eol p) (p_rx p) s else search_from (p_eol p) (p_rx p) s.

Definition tbl_search (tbl : list (string * pat)) (p s : string) : bool :=
  match find (fun x => String.eqb (fst x) p) tbl with
  | Some x => pat_search (snd x) s
  | None => false
  end.

(* ------------------------------------------------------------------ encoders for the tie *)
Fixpoint jval (j : json) : val :=
  match j with
  | JS s => VS s | JZ z => VZ z | JQ q => VQ q | JB b => VB b | JNull => VN
  | JL l => VL (VS "[]" :: map jval l)
  | JD kv => VL (VS "{}" :: map (fun p => let '(k, v) := p in VL [VS k; jval v]) kv)
  end.

(* the tie does not look at what C05's correction does to the counters *)
Definition PROJ : list string := ["TS1"; "TS2"; "TS3"; "TS4"; "TS5"; "TSxOF"].
Definition proj_event (e : event) : event :=
  match dget "args" e with
  | Some (JD a) => dset "args" (JD (fold_left (fun acc k => ddel k acc) PROJ a)) e
  | _ => e
  end.
Definition out_val (o : res (list event)) : val :=
  match o with
  | Err t => VE t
  | Ok l => VL (map (fun e => jval (JD (proj_event e))) l)
  end.

(* str() in the tie: the leaves whose str() is modelled; [strs_modelled] below refuses anything else *)
Definition tie_str (j : json) : string := match pystr j with Some s => s | None => "<str() not modelled>" end.

Record tiein : Type := {
  t_cfg : limcfg; t_filter : string; t_tbl : list (string * pat); t_jobs : list (Z * string);
  t_events : list event }.

(* every regex of the filter string must come with its syntax tree *)
Definition tbl_complete (x : tiein) : bool :=
  forallb (fun ar => match find (fun y => String.eqb (fst y) (snd ar)) (t_tbl x) with Some _ => true | None => false end)
          (extract_filters (t_filter x)).

(* no filter path ends at a value whose str() the tie does not model (float, list), on any slice of the stream *)
Definition str_modelled (e1 : event) (ar : string * string) : bool :=
  match walk (JD e1) (split_on "."%char (fst ar)) with
  | None => true
  | Some leaf => is_dict leaf || match pystr leaf with Some _ => true | None => false end
  end.
Definition strs_modelled (x : tiein) : bool :=
  forallb (fun e => negb (is_X e) ||
                    match xform e with
                    | Ok e1 => forallb (str_modelled e1) (extract_filters (t_filter x))
                    | Err _ => true
                    end) (t_events x).

(* direct drive of normalize_phase1 over a stream: one entry per input event *)
Definition run_val (x : tiein) : val :=
  if negb (tbl_complete x) then VE "NoRegexTree"
  else if negb (strs_modelled x) then VE "UnmodelledStr"
  else
    VL (map out_val (run_stream (tbl_search (t_tbl x)) tie_str (t_cfg x) (extract_filters (t_filter x)) (t_jobs x) 0
                                (t_events x))).

(* end to end: the uids (args.uid) of the X events that survive, in arrival order, and the number of
   non-X events passed through; any exception aborts the run *)
Definition uid_of (e : event) : val :=
  match dget "args" e with
  | Some (JD a) => match dget "uid" a with Some j => jval j | None => VN end
  | _ => VN
  end.
Fixpoint collect (os : list (res (list event))) (xs : list val) (others : Z) : val :=
  match os with
  | [] => VL [VL (rev xs); VZ others]
  | Err t :: _ => VE t
  | Ok l :: r =>
      let xs' := fold_left (fun acc e => if is_X e then uid_of e :: acc else acc) l xs in
      let o' := fold_left (fun acc e => if is_X e then acc else acc + 1) l others in
      collect r xs' o'
  end.
Definition e2e_val (x : tiein) : val :=
  if negb (tbl_complete x) then VE "NoRegexTree"
  else if negb (strs_modelled x) then VE "UnmodelledStr"
  else
    collect (run_stream (tbl_search (t_tbl x)) tie_str (t_cfg x) (extract_filters (t_filter x)) (t_jobs x) 0 (t_events x))
            [] 0.

(* non-triviality rule measured inside Coq: the limiter excludes at least one and keeps at least
   one non-ignored event *)
Definition nontrivial_lim (c : limcfg) (es : list event) : bool :=
  let vs := combine es (lim_stream c 0 es) in
  existsb (fun p => negb (ignored c (fst p)) && match snd p with Ok true => true | _ => false end) vs
  && existsb (fun p => match snd p with Ok false => true | _ => false end) vs.
Definition nontrivial (xc : tiein * val) : bool := nontrivial_lim (t_cfg (fst xc)) (t_events (fst xc)).
