(* Proofs about JobIds: different inputs of one run never share a job id, and the probing loop always finds an id
   while fewer than 10000 ids are in use. *)
From Coq Require Import ZArith List Lia Bool Arith.
From AiuModel Require Import JobIds.
Import ListNotations.
Local Open Scope Z_scope.

Lemma M_pos : 0 < M.
Proof. unfold M; lia. Qed.

(* ---------------------------------------------------------------- the table *)
Lemma lookup_bind_new t j p : lookup j t = None -> lookup j (bind j p t) = Some p.
Proof. intros H; unfold bind; rewrite H; cbn [lookup]; rewrite Z.eqb_refl; reflexivity. Qed.

Lemma lookup_bind_old t j p q : lookup j t = Some q -> bind j p t = t.
Proof. intros H; unfold bind; rewrite H; reflexivity. Qed.

Lemma lookup_bind_persist t i j p q : lookup i t = Some q -> lookup i (bind j p t) = Some q.
Proof.
  intros H; unfold bind; destruct (lookup j t) eqn:E; [exact H|].
  cbn [lookup]; destruct (j =? i) eqn:Eji; [|exact H].
  apply Z.eqb_eq in Eji; subst; congruence.
Qed.

Lemma length_bind t j p : (length (bind j p t) <= S (length t))%nat.
Proof. unfold bind; destruct (lookup j t); cbn [length]; lia. Qed.

(* ---------------------------------------------------------------- the loop finds a free id or the path's own id *)
Lemma probe_sound fuel : forall t p j i,
  Z.of_nat (length t) < M -> probe fuel t p j = Some i ->
  lookup i t = None \/ lookup i t = Some p.
Proof.
  induction fuel as [|f IH]; intros t p j i Hlen H; cbn [probe] in H;
    (destruct (M <=? Z.of_nat (length t)) eqn:Efull; [apply Z.leb_le in Efull; lia|]);
    destruct (lookup j t) as [q|] eqn:El.
  - destruct (Nat.eqb q p) eqn:Eq; [|discriminate].
    apply Nat.eqb_eq in Eq; subst; inversion H; subst; right; exact El.
  - inversion H; subst; left; exact El.
  - destruct (Nat.eqb q p) eqn:Eq.
    + apply Nat.eqb_eq in Eq; subst; inversion H; subst; right; exact El.
    + eapply IH; eauto.
  - inversion H; subst; left; exact El.
Qed.

Lemma add_job_bound t p h j t' :
  Z.of_nat (length t) < M -> add_job t p h = Some (j, t') ->
  (lookup j t = None \/ lookup j t = Some p) /\ lookup j t' = Some p /\
  (forall i q, lookup i t = Some q -> lookup i t' = Some q) /\ (length t' <= S (length t))%nat.
Proof.
  intros Hlen H; unfold add_job in H.
  destruct (probe (Z.to_nat M) t p (h mod M)) as [j0|] eqn:Ep; [|discriminate].
  inversion H; subst j0 t'; clear H.
  pose proof (probe_sound _ _ _ _ _ Hlen Ep) as Hs.
  split; [exact Hs|]. split; [|split].
  - destruct Hs as [Hn|Ho]; [apply lookup_bind_new; exact Hn|].
    rewrite (lookup_bind_old _ _ _ _ Ho); exact Ho.
  - intros i q Hi; apply lookup_bind_persist; exact Hi.
  - apply length_bind.
Qed.

(* ---------------------------------------------------------------- distinct inputs, distinct ids *)
Lemma assign_sound : forall l t js,
  assign t l = Some js -> Z.of_nat (length t + length l) <= M ->
  length js = length l /\
  (forall a p h i, nth_error l a = Some (p, h) -> nth_error js a = Some i ->
     forall q, lookup i t = Some q -> q = p) /\
  (forall a b pa ha pb hb ia ib, (a < b)%nat ->
     nth_error l a = Some (pa, ha) -> nth_error l b = Some (pb, hb) ->
     nth_error js a = Some ia -> nth_error js b = Some ib -> pa <> pb -> ia <> ib).
Proof.
  induction l as [|[p h] r IH]; intros t js H Hlen; cbn [assign] in H.
  - inversion H; subst; split; [reflexivity|]; split.
    + intros a p h i Ha; destruct a; discriminate.
    + intros a b pa ha pb hb ia ib _ Ha; destruct a; discriminate.
  - destruct (add_job t p h) as [[j t']|] eqn:Ea; [|discriminate].
    destruct (assign t' r) as [js'|] eqn:Er; [|discriminate].
    inversion H; subst js; clear H.
    cbn [length] in Hlen.
    assert (Ht : Z.of_nat (length t) < M) by lia.
    destruct (add_job_bound _ _ _ _ _ Ht Ea) as (Hfree & Hbound & Hpers & Hlen').
    assert (Hlen2 : Z.of_nat (length t' + length r) <= M) by lia.
    destruct (IH _ _ Er Hlen2) as (IHl & IHa & IHb).
    split; [cbn [length]; congruence|]. split.
    + intros a p0 h0 i Hl Hj q Hq; destruct a as [|a]; cbn [nth_error] in Hl, Hj.
      * inversion Hl; inversion Hj; subst.
        destruct Hfree as [Hn|Ho]; congruence.
      * eapply IHa; eauto.
    + intros a b pa ha pb hb ia ib Hab Hla Hlb Hja Hjb Hne.
      destruct b as [|b]; [lia|]. cbn [nth_error] in Hlb, Hjb.
      destruct a as [|a]; cbn [nth_error] in Hla, Hja.
      * inversion Hla; inversion Hja; subst.
        intros Heq; subst ib.
        apply Hne. exact (IHa b pb hb ia Hlb Hjb pa Hbound).
      * exact (IHb a b pa ha pb hb ia ib ltac:(lia) Hla Hlb Hja Hjb Hne).
Qed.

(* ids of the inputs differ from the id of the multi-file ingest itself as well (key 0 is not a path of the run) *)
Theorem run_ids_distinct top l js :
  run_ids top l = Some js -> Z.of_nat (length l) < M ->
  (forall a p h, nth_error l a = Some (p, h) -> p <> 0%nat) ->
  length js = length l /\
  forall a b pa ha pb hb ia ib, a <> b ->
    nth_error l a = Some (pa, ha) -> nth_error l b = Some (pb, hb) ->
    nth_error js a = Some ia -> nth_error js b = Some ib -> pa <> pb -> ia <> ib.
Proof.
  unfold run_ids; intros H Hlen Hp.
  destruct (add_job [] 0%nat top) as [[j0 t0]|] eqn:E0; [|discriminate].
  assert (H0 : Z.of_nat (length (@nil (Z * nat))) < M) by (cbn; apply M_pos).
  destruct (add_job_bound _ _ _ _ _ H0 E0) as (_ & _ & _ & Hl0). cbn [length] in Hl0.
  assert (Hlen2 : Z.of_nat (length t0 + length l) <= M) by lia.
  destruct (assign_sound _ _ _ H Hlen2) as (Hl & _ & Hb).
  split; [exact Hl|].
  intros a b pa ha pb hb ia ib Hab Hla Hlb Hja Hjb Hne.
  destruct (Nat.lt_ge_cases a b) as [Hlt|Hge].
  - eapply Hb; eauto.
  - assert (Hlt : (b < a)%nat) by lia.
    intros Heq; symmetry in Heq; revert Heq. eapply Hb; eauto.
Qed.

(* ---------------------------------------------------------------- the loop terminates: pigeonhole *)
Definition keys (t : table) : list Z := map fst t.

Lemma lookup_in_keys t : forall j q, lookup j t = Some q -> In j (keys t).
Proof.
  induction t as [|[k p] r IH]; intros j q H; cbn [lookup] in H; [discriminate|].
  cbn [keys map fst]. destruct (k =? j) eqn:E.
  - apply Z.eqb_eq in E; left; exact E.
  - right; eapply IH; eauto.
Qed.

Lemma probe_none fuel : forall t p j,
  probe fuel t p j = None ->
  forall k, (k <= fuel)%nat -> In ((j + Z.of_nat k) mod M) (keys t) \/ (k = 0%nat /\ In j (keys t)).
Proof.
  induction fuel as [|f IH]; intros t p j H k Hk; cbn [probe] in H;
    destruct (M <=? Z.of_nat (length t)); try discriminate;
    destruct (lookup j t) as [q|] eqn:El; try discriminate;
    destruct (Nat.eqb q p); try discriminate.
  - assert (k = 0%nat) by lia; subst. right; split; [reflexivity|]. eapply lookup_in_keys; eauto.
  - destruct k as [|k].
    + right; split; [reflexivity|]. eapply lookup_in_keys; eauto.
    + left. destruct (IH _ _ _ H k ltac:(lia)) as [Hin|[-> Hin]].
      * replace ((j + Z.of_nat (S k)) mod M) with (((j + 1) mod M + Z.of_nat k) mod M); [exact Hin|].
        rewrite Zplus_mod_idemp_l. f_equal; lia.
      * replace ((j + Z.of_nat 1) mod M) with ((j + 1) mod M) by (f_equal; lia). exact Hin.
Qed.

Lemma slots_nodup j n : 0 <= j < M -> (Z.of_nat n <= M) ->
  NoDup (map (fun k => (j + Z.of_nat k) mod M) (seq 0 n)).
Proof.
  intros Hj Hn.
  assert (Hinj : forall a b, (a < n)%nat -> (b < n)%nat ->
            (j + Z.of_nat a) mod M = (j + Z.of_nat b) mod M -> a = b).
  { intros a b Ha Hb He. pose proof M_pos.
    assert (Ha' : 0 <= Z.of_nat a < M) by lia. assert (Hb' : 0 <= Z.of_nat b < M) by lia.
    destruct (Z_lt_le_dec (j + Z.of_nat a) M) as [Hal|Hal];
      destruct (Z_lt_le_dec (j + Z.of_nat b) M) as [Hbl|Hbl].
    - rewrite !Z.mod_small in He by lia. lia.
    - rewrite (Z.mod_small (j + Z.of_nat a)) in He by lia.
      replace (j + Z.of_nat b) with ((j + Z.of_nat b - M) + 1 * M) in He by lia.
      rewrite Z_mod_plus_full, Z.mod_small in He by lia. lia.
    - rewrite (Z.mod_small (j + Z.of_nat b)) in He by lia.
      replace (j + Z.of_nat a) with ((j + Z.of_nat a - M) + 1 * M) in He by lia.
      rewrite Z_mod_plus_full, Z.mod_small in He by lia. lia.
    - replace (j + Z.of_nat a) with ((j + Z.of_nat a - M) + 1 * M) in He by lia.
      replace (j + Z.of_nat b) with ((j + Z.of_nat b - M) + 1 * M) in He by lia.
      rewrite !Z_mod_plus_full, !Z.mod_small in He by lia. lia. }
  clear Hn.
  assert (Hgen : forall l, NoDup l -> (forall a, In a l -> (a < n)%nat) ->
             NoDup (map (fun k => (j + Z.of_nat k) mod M) l)).
  { induction l as [|a l IH]; intros Hnd Hlt; cbn [map]; constructor.
    - intros Hin; apply in_map_iff in Hin; destruct Hin as (b & He & Hb).
      inversion Hnd; subst.
      assert (b = a) by (apply Hinj; [apply Hlt; right; exact Hb|apply Hlt; left; reflexivity|exact He]).
      subst; contradiction.
    - inversion Hnd; subst; apply IH; [assumption|]. intros b Hb; apply Hlt; right; exact Hb. }
  apply Hgen; [apply seq_NoDup|]. intros a Ha; apply in_seq in Ha; lia.
Qed.

Theorem probe_total t p j :
  0 <= j < M -> Z.of_nat (length t) < M -> probe (Z.to_nat M) t p j <> None.
Proof.
  intros Hj Hlen Hnone. pose proof M_pos as HM.
  pose proof (probe_none _ _ _ _ Hnone) as Hall.
  set (n := Z.to_nat M) in *.
  assert (Hincl : incl (map (fun k => (j + Z.of_nat k) mod M) (seq 0 n)) (keys t)).
  { intros x Hx; apply in_map_iff in Hx; destruct Hx as (k & <- & Hk); apply in_seq in Hk.
    destruct (Hall k ltac:(lia)) as [Hin|[-> Hin]]; [exact Hin|].
    cbn. rewrite Z.add_0_r, Z.mod_small by lia. exact Hin. }
  assert (Hnd : NoDup (map (fun k => (j + Z.of_nat k) mod M) (seq 0 n))) by (apply slots_nodup; subst n; lia).
  pose proof (NoDup_incl_length Hnd Hincl) as Hle.
  rewrite map_length, seq_length in Hle. unfold keys in Hle; rewrite map_length in Hle. subst n. lia.
Qed.

Theorem assign_total : forall l t,
  Z.of_nat (length t + length l) <= M -> assign t l <> None.
Proof.
  induction l as [|[p h] r IH]; intros t Hlen; cbn [assign]; [discriminate|].
  cbn [length] in Hlen. pose proof M_pos as HM.
  assert (Ht : Z.of_nat (length t) < M) by lia.
  destruct (add_job t p h) as [[j t']|] eqn:Ea.
  - destruct (add_job_bound _ _ _ _ _ Ht Ea) as (_ & _ & _ & Hl').
    specialize (IH t' ltac:(lia)). destruct (assign t' r); [discriminate|contradiction].
  - exfalso. unfold add_job in Ea.
    destruct (probe (Z.to_nat M) t p (h mod M)) eqn:Ep; [discriminate|].
    revert Ep. apply probe_total; [apply Z.mod_pos_bound; exact HM|exact Ht].
Qed.

Theorem run_ids_total top l : Z.of_nat (length l) < M -> run_ids top l <> None.
Proof.
  intros Hlen; unfold run_ids. pose proof M_pos as HM.
  assert (H0 : Z.of_nat (length (@nil (Z * nat))) < M) by (cbn; exact HM).
  destruct (add_job [] 0%nat top) as [[j0 t0]|] eqn:E0.
  - destruct (add_job_bound _ _ _ _ _ H0 E0) as (_ & _ & _ & Hl0). cbn [length] in Hl0.
    apply assign_total; lia.
  - exfalso. unfold add_job in E0.
    destruct (probe (Z.to_nat M) [] 0%nat (top mod M)) eqn:Ep; [discriminate|].
    revert Ep. apply probe_total; [apply Z.mod_pos_bound; exact HM|exact H0].
Qed.

(* ---------------------------------------------------------------- the same path again: the same id *)
(* once a path owns a slot, probing for it finds that slot again in every later table (bindings only accumulate) *)
Lemma probe_stable fuel : forall t t2 p j0 j,
  probe fuel t p j0 = Some j ->
  Z.of_nat (length t) < M -> Z.of_nat (length t2) < M ->
  (forall i q, lookup i t = Some q -> lookup i t2 = Some q) ->
  lookup j t2 = Some p ->
  probe fuel t2 p j0 = Some j.
Proof.
  induction fuel as [|f IH]; intros t t2 p j0 j H Ht Ht2 Hext Hj; cbn [probe] in *;
    (destruct (M <=? Z.of_nat (length t)) eqn:E1; [apply Z.leb_le in E1; lia|]);
    (destruct (M <=? Z.of_nat (length t2)) eqn:E2; [apply Z.leb_le in E2; lia|]);
    destruct (lookup j0 t) as [q|] eqn:El.
  - destruct (Nat.eqb q p) eqn:Eq; [|discriminate]. inversion H; subst j.
    rewrite (Hext _ _ El), Eq. reflexivity.
  - inversion H; subst j. rewrite Hj, Nat.eqb_refl. reflexivity.
  - destruct (Nat.eqb q p) eqn:Eq.
    + inversion H; subst j. rewrite (Hext _ _ El), Eq. reflexivity.
    + rewrite (Hext _ _ El), Eq. eapply IH; eauto.
  - inversion H; subst j. rewrite Hj, Nat.eqb_refl. reflexivity.
Qed.

Lemma assign_registered : forall l t js p h j,
  assign t l = Some js -> Z.of_nat (length t + length l) < M ->
  probe (Z.to_nat M) t p (h mod M) = Some j -> lookup j t = Some p ->
  forall b i, nth_error l b = Some (p, h) -> nth_error js b = Some i -> i = j.
Proof.
  induction l as [|[p' h'] r IH]; intros t js p h j H Hlen Hpr Hown b i Hb Hi; cbn [assign] in H.
  - destruct b; discriminate.
  - destruct (add_job t p' h') as [[j' t']|] eqn:Ea; [|discriminate].
    destruct (assign t' r) as [js'|] eqn:Er; [|discriminate]. inversion H; subst js; clear H.
    cbn [length] in Hlen. assert (Ht : Z.of_nat (length t) < M) by lia.
    destruct (add_job_bound _ _ _ _ _ Ht Ea) as (_ & _ & Hpers & Hl').
    destruct b as [|b]; cbn [nth_error] in Hb, Hi.
    + inversion Hb; subst p' h'. inversion Hi; subst i.
      unfold add_job in Ea. rewrite Hpr in Ea. inversion Ea. reflexivity.
    + assert (Ht' : Z.of_nat (length t') < M) by lia.
      eapply (IH t' js' p h j Er); [lia| |apply Hpers; exact Hown|exact Hb|exact Hi].
      eapply probe_stable; eauto.
Qed.

(* a path that is listed twice among the inputs of one run is ONE job: both occurrences get the same id *)
Theorem assign_same_path : forall l t js a b p h ia ib,
  assign t l = Some js -> Z.of_nat (length t + length l) < M -> (a < b)%nat ->
  nth_error l a = Some (p, h) -> nth_error l b = Some (p, h) ->
  nth_error js a = Some ia -> nth_error js b = Some ib -> ia = ib.
Proof.
  induction l as [|[p' h'] r IH]; intros t js a b p h ia ib H Hlen Hab Ha Hb Hia Hib; cbn [assign] in H.
  - destruct a; discriminate.
  - destruct (add_job t p' h') as [[j' t']|] eqn:Ea; [|discriminate].
    destruct (assign t' r) as [js'|] eqn:Er; [|discriminate]. inversion H; subst js; clear H.
    cbn [length] in Hlen. assert (Ht : Z.of_nat (length t) < M) by lia.
    destruct (add_job_bound _ _ _ _ _ Ht Ea) as (_ & Hbound & Hpers & Hl').
    destruct b as [|b]; [lia|]. cbn [nth_error] in Hb, Hib.
    destruct a as [|a]; cbn [nth_error] in Ha, Hia.
    + inversion Ha; subst p' h'. inversion Hia; subst ia.
      assert (Ht' : Z.of_nat (length t') < M) by lia.
      symmetry. eapply (assign_registered r t' js' p h j' Er); [lia| |exact Hbound|exact Hb|exact Hib].
      unfold add_job in Ea. destruct (probe (Z.to_nat M) t p (h mod M)) as [j0|] eqn:Ep; [|discriminate].
      inversion Ea; subst j0 t'. eapply probe_stable; [exact Ep|exact Ht|exact Ht'| |exact Hbound].
      intros i q Hq. apply lookup_bind_persist. exact Hq.
    + eapply (IH t' js' a b p h ia ib Er); eauto; lia.
Qed.
