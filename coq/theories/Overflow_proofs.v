(* Overflow_proofs.v — lemmas and proofs about the model in Overflow.v (property C05).

   Contents:
   * integer arithmetic of the local correction step and of the epoch count (absorbed from
     design-spikes/overflow_lia.v; closed by lia with Z.to_euclidean_division_equations);
   * the bridge from the code's rational expression floor((ts - epoch0) / (2^32/f)) to integer
     division — the host epoch cancels (absorbed from design-spikes/overflow_qfloor.v);
   * the invariant of the per-queue reference table built by phase 1 (every stored reference is
     "host epoch + k periods" for an integer k; stored values only decrease; after phase 1 the stored
     value is at most every slice's own epoch start);
   * [consistent]: for every trace whose device slices agree with their true counters, the run
     raises nothing and adds one and the same multiple of 2^32 per queue (rank) to all five
     counters of every slice;
   * [pipe_two_phase]: Pipeline.v's operational run of the three registrations
     normalize_phase1 / pipeline_barrier / normalize_phase2 (two stages sharing one context, the
     barrier in between) equals the two-phase function [run] the theorems are about. *)
From Coq Require Import ZArith QArith Qround List Bool String Lia Lqa ZifyBool.
Import ListNotations.
From AiuModel Require Import Base Pipeline Overflow.
Local Open Scope Z_scope.
Ltac Zify.zify_post_hook ::= Z.to_euclidean_division_equations.

(* ---------- integer arithmetic (absorbed from design-spikes/overflow_lia.v) ---------- *)
Lemma lstep_ok c1 ck prevc :
  c1 <= prevc -> prevc <= ck -> ck - c1 < W ->
  lstep (prevc - W * (c1 / W)) (ck mod W) = ck - W * (c1 / W).
Proof.
  intros. unfold lstep, W in *.
  destruct (_ <? _) eqn:E; lia.
Qed.

Lemma lstep_first c1 : lstep NEG48 (c1 mod W) = c1 - W * (c1 / W).
Proof. unfold lstep, NEG48, W. destruct (_ <? _) eqn:E; lia. Qed.

Lemma epochs_cancel x q q1 : (x - q * W) / W - (x - W * q1) / W = q1 - q.
Proof. unfold W. lia. Qed.

Lemma local_epochs_exact x q1 : (x - W * q1) - ((x - W * q1) / W) * W = x mod W.
Proof. unfold W. lia. Qed.

Fixpoint chain (p : Z) (l : list Z) : Prop :=
  match l with [] => True | c :: r => p <= c /\ chain c r end.

Lemma local_fix_chain : forall cs c1 pc,
  c1 <= pc -> chain pc cs -> (forall c, In c cs -> c - c1 < W) ->
  local_fix (pc - W * (c1 / W)) (map (fun c => c mod W) cs) = map (fun c => c - W * (c1 / W)) cs.
Proof.
  induction cs as [|c r IH]; intros c1 pc H1 Hc Hs; [reflexivity|].
  destruct Hc as [Hpc Hc]. cbn [map local_fix].
  rewrite lstep_ok by (auto; apply Hs; now left).
  f_equal. apply IH; [lia|assumption|]. intros; apply Hs; now right.
Qed.

(* ---------- rational bridge (absorbed from design-spikes/overflow_qfloor.v) ---------- *)
Local Open Scope Q_scope.

Definition eform (f Hh : Q) (k : Z) : Q := Hh + inject_Z (k * W) / f.

Lemma epoch_form f Hh ts cref k : 0 < f -> ts == Hh + inject_Z cref / f ->
  epoch_start f ts (cref - W * k)%Z == eform f Hh k.
Proof.
  intros Hf E. unfold epoch_start, eform. rewrite E.
  unfold Z.sub. rewrite inject_Z_plus, inject_Z_opp, !inject_Z_mult. field. lra.
Qed.

Lemma floor_elapsed f Hh ts e0 cref k : 0 < f ->
  ts == Hh + inject_Z cref / f -> e0 == eform f Hh k ->
  Qfloor ((ts - e0) / SPAN f) = ((cref - k * W) / W)%Z.
Proof.
  intros Hf E1 E2. unfold SPAN, eform in *.
  assert (E : (ts - e0) / (inject_Z W / f) == inject_Z (cref - k * W) / inject_Z W).
  { rewrite E1, E2. unfold Z.sub. rewrite inject_Z_plus, inject_Z_opp, !inject_Z_mult.
    unfold W. field. lra. }
  rewrite E. rewrite Zdiv_Qdiv. reflexivity.
Qed.

Lemma floor_k f Hh e0 k : 0 < f -> e0 == eform f Hh k -> Qfloor ((e0 - Hh) / SPAN f) = k.
Proof.
  intros Hf E.
  assert (E0 : Hh == eform f Hh 0). { unfold eform. rewrite Z.mul_0_l. unfold inject_Z at 1. field. lra. }
  assert (E1 : e0 == Hh + inject_Z (k * W) / f) by exact E.
  rewrite (floor_elapsed f Hh e0 Hh (k * W) 0 Hf E1 E0).
  unfold W. rewrite Z.mul_0_l, Z.sub_0_r. apply Z.div_mul. discriminate.
Qed.

Lemma eform_le f Hh k1 k2 : 0 < f -> eform f Hh k1 <= eform f Hh k2 -> (k1 <= k2)%Z.
Proof.
  intros Hf Hle. unfold eform in Hle.
  assert (A : inject_Z (k1 * W) / f <= inject_Z (k2 * W) / f) by lra.
  unfold Qdiv in A.
  assert (B : inject_Z (k1 * W) <= inject_Z (k2 * W)).
  { apply Qmult_le_r with (z := / f); [apply Qinv_lt_0_compat; exact Hf|exact A]. }
  rewrite <- Zle_Qle in B. unfold W in B. lia.
Qed.

(* ---------- ground truth and hypotheses ---------- *)
Local Open Scope Z_scope.

(* a trace annotated with ground truth: [None] = host/other event without counters,
   [Some cs] = device slice whose true (unwrapped) counters are cs = [c1;..;c5] *)
Definition atrace := list (ev * option (list Z)).

Definition qid (e : ev) : Z := qid_of (e_pid e).
Definition base (cs : list Z) : Z := hd 0 cs / W.        (* true epoch of TS1 *)

Definition dev_ok (f : Q) (H : Z -> Q) (e : ev) (cs : list Z) : Prop :=
  e_x e = true /\
  List.length cs = 5%nat /\
  chain (hd 0 cs) cs /\                                        (* c1 <= c2 <= ... <= c5 *)
  (forall c, In c cs -> c - hd 0 cs < W) /\                    (* lasts less than one period *)
  e_tsx e = map (fun c => TStr (c mod W)) cs /\                (* raw 32-bit values *)
  (e_ts e == H (qid e) + inject_Z (nth (ref_idx (e_name e)) cs 0%Z) / f)%Q.   (* host ts agrees *)

Definition host_ok (e : ev) : Prop :=
  e_x e = false \/ present (nth 0 (e_tsx e) TMissing) = false.

Definition ok (f : Q) (H : Z -> Q) (p : ev * option (list Z)) : Prop :=
  match snd p with None => host_ok (fst p) | Some cs => dev_ok f H (fst p) cs end.

(* the guard of frequency_stats' two divisions, along the device slices of the trace *)
Fixpoint fguard (le : list (Z * Q)) (tr : atrace) : Prop :=
  match tr with
  | [] => True
  | (e, None) :: r => fguard le r
  | (e, Some _) :: r => exists le', fstat le e = Ok le' /\ fguard le' r
  end.

(* ---------- small facts ---------- *)
Lemma ref_idx_le3 n : (ref_idx n <= 3)%nat.
Proof. unfold ref_idx. repeat (destruct (ends_with _ _)); lia. Qed.

Lemma parse_str cs : parse (map (fun c => TStr (c mod W)) cs) = Ok (map (fun c => c mod W) cs).
Proof. induction cs as [|c r IH]; [reflexivity|]. cbn [map parse]. now rewrite IH. Qed.

Lemma local_fix_true cs :
  chain (hd 0 cs) cs -> (forall c, In c cs -> c - hd 0 cs < W) ->
  local_fix NEG48 (map (fun c => c mod W) cs) = map (fun c => c - W * base cs) cs.
Proof.
  destruct cs as [|c1 r]; [reflexivity|]. unfold base. cbn [hd map local_fix]. intros [_ Hc] Hs.
  rewrite lstep_first. f_equal. apply local_fix_chain; [lia|assumption|].
  intros; apply Hs; now right.
Qed.

Lemma nth_map_in {A B} (g : A -> B) l n d d' : (n < List.length l)%nat -> nth n (map g l) d' = g (nth n l d).
Proof. intros Hn. rewrite nth_indep with (d' := g d) by now rewrite map_length. apply map_nth. Qed.

Lemma chain_mono : forall l p, chain p l -> mono p l = true.
Proof.
  induction l as [|c r IH]; intros p Hc; [reflexivity|]. destruct Hc as [H1 H2]. cbn [mono].
  destruct (c <? p) eqn:E; [lia|]. now apply IH.
Qed.
Lemma chain_shift : forall l p d, chain p l -> chain (p + d) (map (fun c => c + d) l).
Proof. induction l as [|c r IH]; intros p d Hc; [exact I|]. destruct Hc. split; [lia|]. now apply IH. Qed.
Lemma chain_weaken l : forall p p', p' <= p -> chain p l -> chain p' l.
Proof. destruct l as [|c r]; intros p p' Hp Hc; [exact I|]. destruct Hc. split; [lia|assumption]. Qed.

(* ---------- the reference table ---------- *)
Definition tbl_ok (f : Q) (H : Z -> Q) (t : list (Z * Q)) : Prop :=
  forall q e0, lookup q t = Some e0 -> exists k, (e0 == eform f (H q) k)%Q.
(* values only ever decrease, bindings never disappear *)
Definition tbl_dec (t t' : list (Z * Q)) : Prop :=
  forall q e1, lookup q t = Some e1 -> exists e2, lookup q t' = Some e2 /\ (e2 <= e1)%Q.

Lemma tbl_dec_refl t : tbl_dec t t.
Proof. intros q e1 E. exists e1. split; [assumption|apply Qle_refl]. Qed.
Lemma tbl_dec_trans a b c : tbl_dec a b -> tbl_dec b c -> tbl_dec a c.
Proof.
  intros Hab Hbc q e1 E. destruct (Hab q e1 E) as [e2 [E2 L2]]. destruct (Hbc q e2 E2) as [e3 [E3 L3]].
  exists e3. split; [assumption|]. eapply Qle_trans; eassumption.
Qed.

Lemma lookup_cons_eq {A} q (v : A) t : lookup q ((q, v) :: t) = Some v.
Proof. cbn [lookup]. now rewrite Z.eqb_refl. Qed.
Lemma lookup_cons_ne {A} q q' (v : A) t : q' <> q -> lookup q' ((q, v) :: t) = lookup q' t.
Proof. intros Hn. cbn [lookup]. destruct (q' =? q) eqn:E; [lia|reflexivity]. Qed.

Lemma upd_epoch_self q es t : exists e', lookup q (upd_epoch q es t) = Some e' /\ (e' <= es)%Q.
Proof.
  unfold upd_epoch. destruct (lookup q t) as [old|] eqn:E.
  - destruct (Qlt_b es old) eqn:L.
    + exists es. rewrite lookup_cons_eq. split; [reflexivity|apply Qle_refl].
    + exists old. split; [assumption|]. unfold Qlt_b in L. apply negb_false_iff in L.
      now apply Qle_bool_iff in L.
  - exists es. rewrite lookup_cons_eq. split; [reflexivity|apply Qle_refl].
Qed.
Lemma upd_epoch_dec q es t : tbl_dec t (upd_epoch q es t).
Proof.
  intros q' e1 E1. unfold upd_epoch. destruct (lookup q t) as [old|] eqn:E.
  - destruct (Qlt_b es old) eqn:L; [|exists e1; split; [assumption|apply Qle_refl]].
    destruct (Z.eq_dec q' q) as [->|Hn].
    + rewrite lookup_cons_eq. exists es. split; [reflexivity|]. rewrite E in E1. injection E1 as <-.
      unfold Qlt_b in L. apply negb_true_iff in L.
      destruct (Qlt_le_dec es old) as [Hlt|Hle]; [now apply Qlt_le_weak|].
      apply Qle_bool_iff in Hle. congruence.
    + rewrite lookup_cons_ne by assumption. exists e1. split; [assumption|apply Qle_refl].
  - destruct (Z.eq_dec q' q) as [->|Hn]; [congruence|].
    rewrite lookup_cons_ne by assumption. exists e1. split; [assumption|apply Qle_refl].
Qed.
Lemma upd_epoch_ok f H q es t k : tbl_ok f H t -> (es == eform f (H q) k)%Q -> tbl_ok f H (upd_epoch q es t).
Proof.
  intros Ht Ees q' e0 E. unfold upd_epoch in E. destruct (lookup q t) as [old|] eqn:El.
  - destruct (Qlt_b es old); [|now apply Ht].
    destruct (Z.eq_dec q' q) as [->|Hn].
    + rewrite lookup_cons_eq in E. injection E as <-. now exists k.
    + rewrite lookup_cons_ne in E by assumption. now apply Ht.
  - destruct (Z.eq_dec q' q) as [->|Hn].
    + rewrite lookup_cons_eq in E. injection E as <-. now exists k.
    + rewrite lookup_cons_ne in E by assumption. now apply Ht.
Qed.

(* ---------- phase 1 ---------- *)
Definition own_epoch (f : Q) (H : Z -> Q) (e : ev) (cs : list Z) : Q := eform f (H (qid e)) (base cs).

Definition mid_spec (f : Q) (H : Z -> Q) (T : list (Z * Q)) (p : ev * option (list Z)) (m : mid) : Prop :=
  match snd p with
  | None => m = MPass
  | Some cs => exists tof e0,
      m = MFix (qid (fst p)) (ref_idx (e_name (fst p))) (e_ts (fst p)) (map (fun c => c - W * base cs) cs) tof /\
      lookup (qid (fst p)) T = Some e0 /\ (e0 <= own_epoch f H (fst p) cs)%Q
  end.

Lemma phase1_ev_host f s e : host_ok e -> phase1_ev f s e = Ok (s, MPass).
Proof. intros [Hx|Hp]; unfold phase1_ev; rewrite ?Hx; cbn [negb]; [reflexivity|]. destruct (e_x e); cbn [negb]; [|reflexivity]. now rewrite Hp. Qed.

Lemma phase1_ev_dev f H s e cs le : (0 < f)%Q -> dev_ok f H e cs -> fstat (lastexec s) e = Ok le ->
  exists ep tof,
    phase1_ev f s e = Ok (mkst ep le, MFix (qid e) (ref_idx (e_name e)) (e_ts e) (map (fun c => c - W * base cs) cs) tof) /\
    ep = upd_epoch (qid e) (epoch_start f (e_ts e) (nth (ref_idx (e_name e)) cs 0 - W * base cs)) (epochs s) /\
    (epoch_start f (e_ts e) (nth (ref_idx (e_name e)) cs 0%Z - W * base cs)%Z == own_epoch f H e cs)%Q.
Proof.
  intros Hf (Hx & Hlen & Hch & Hsp & Htsx & Hts) Hfs.
  pose proof (ref_idx_le3 (e_name e)) as Hr.
  unfold phase1_ev. rewrite Hx. cbn [negb]. rewrite Htsx.
  rewrite (nth_map_in _ cs 0%nat 0) by lia. cbn [present negb].
  rewrite (nth_map_in _ cs (ref_idx (e_name e)) 0) by lia. cbn [present negb].
  rewrite parse_str. rewrite local_fix_true by assumption. rewrite Hfs.
  rewrite (nth_map_in (fun c => c - W * base cs) cs (ref_idx (e_name e)) 0) by lia.
  eexists. eexists. split; [reflexivity|]. split; [reflexivity|].
  unfold own_epoch. apply epoch_form; assumption.
Qed.

Lemma phase1_spec f H : (0 < f)%Q -> forall (tr : atrace) s,
  Forall (ok f H) tr -> tbl_ok f H (epochs s) -> fguard (lastexec s) tr ->
  exists s' ms, phase1 f s (map fst tr) = Ok (s', ms) /\ tbl_ok f H (epochs s') /\
                tbl_dec (epochs s) (epochs s') /\ Forall2 (mid_spec f H (epochs s')) tr ms.
Proof.
  intros Hf. induction tr as [|[e [cs|]] r IH]; intros s Hok Ht Hg.
  - exists s, []. repeat split; [assumption|apply tbl_dec_refl|constructor].
  - inversion Hok as [|? ? Hd Hr]; subst. cbn [ok snd fst] in Hd.
    destruct Hg as [le [Hfs Hg]].
    destruct (phase1_ev_dev f H s e cs le Hf Hd Hfs) as (ep & tof & E1 & Eep & Ees).
    assert (Ht1 : tbl_ok f H ep). { subst ep. eapply upd_epoch_ok; eassumption. }
    destruct (IH (mkst ep le) Hr Ht1 Hg) as (s' & ms & E2 & Ht' & Hdec & HF).
    cbn [map fst phase1]. rewrite E1, E2. exists s', (MFix (qid e) (ref_idx (e_name e)) (e_ts e) (map (fun c => c - W * base cs) cs) tof :: ms).
    split; [reflexivity|]. split; [assumption|]. split.
    + eapply tbl_dec_trans; [|exact Hdec]. cbn [epochs]. subst ep. apply upd_epoch_dec.
    + constructor; [|assumption]. cbn [mid_spec snd fst].
      destruct (upd_epoch_self (qid e) (epoch_start f (e_ts e) (nth (ref_idx (e_name e)) cs 0 - W * base cs)) (epochs s)) as [e' [El Hle]].
      rewrite <- Eep in El. destruct (Hdec (qid e) e' El) as [e2 [El2 Hle2]].
      exists tof, e2. split; [reflexivity|]. split; [assumption|].
      eapply Qle_trans; [exact Hle2|]. eapply Qle_trans; [exact Hle|]. rewrite Ees. apply Qle_refl.
  - inversion Hok as [|? ? Hd Hr]; subst. cbn [ok snd fst] in Hd.
    cbn [fguard] in Hg. destruct (IH s Hr Ht Hg) as (s' & ms & E2 & Ht' & Hdec & HF).
    cbn [map fst phase1]. rewrite (phase1_ev_host f s e Hd), E2.
    exists s', (MPass :: ms). repeat split; try assumption. constructor; [reflexivity|assumption].
Qed.

(* ---------- phase 2 ---------- *)
(* the one multiple of 2^32 per queue: minus the epoch number of the final reference *)
Definition Cof (f : Q) (H : Z -> Q) (T : list (Z * Q)) (q : Z) : Z :=
  match lookup q T with Some e0 => - Qfloor ((e0 - H q) / SPAN f) | None => 0 end.

Definition out_ok (C : Z -> Z) (p : ev * option (list Z)) (o : out) : Prop :=
  match snd p with
  | None => o = OPass
  | Some cs => exists tof,
      o = OFix (map (fun c => c + C (qid (fst p)) * W) cs) (base cs + C (qid (fst p))) tof /\
      0 <= base cs + C (qid (fst p))
  end.

Lemma phase2_ev_dev f H ic T e cs m : (0 < f)%Q -> dev_ok f H e cs -> tbl_ok f H T ->
  mid_spec f H T (e, Some cs) m ->
  exists o, phase2_ev f ic T m = Ok (T, o) /\ out_ok (Cof f H T) (e, Some cs) o.
Proof.
  intros Hf (Hx & Hlen & Hch & Hsp & Htsx & Hts) Ht (tof & e0 & -> & El & Hle).
  cbn [fst snd] in *. pose proof (ref_idx_le3 (e_name e)) as Hr.
  destruct (Ht _ _ El) as [k Ek].
  assert (Hk : k <= base cs).
  { apply (eform_le f (H (qid e))); [assumption|]. rewrite <- Ek. exact Hle. }
  unfold phase2_ev. rewrite El.
  rewrite (nth_map_in (fun c => c - W * base cs) cs (ref_idx (e_name e)) 0) by lia.
  set (cref := nth (ref_idx (e_name e)) cs 0) in *.
  rewrite (floor_elapsed f (H (qid e)) (e_ts e) e0 cref k Hf Hts Ek).
  rewrite epochs_cancel. rewrite map_map.
  assert (EC : Cof f H T (qid e) = - k). { unfold Cof. rewrite El. f_equal. now apply floor_k. }
  assert (EM : map (fun x => x - W * base cs + (base cs - k) * W) cs = map (fun c => c + Cof f H T (qid e) * W) cs).
  { apply map_ext. intros c. rewrite EC. unfold W. lia. }
  rewrite EM.
  assert (Hm : mono NEG48 (map (fun c => c + Cof f H T (qid e) * W) cs) = true).
  { apply chain_mono. apply chain_weaken with (p := hd 0 cs + Cof f H T (qid e) * W).
    - rewrite EC. unfold base in Hk. unfold NEG48, W in *. lia.
    - now apply chain_shift. }
  rewrite Hm, orb_true_r. eexists. split; [reflexivity|].
  cbn [out_ok snd fst]. exists tof. rewrite EC. split; [f_equal; lia|lia].
Qed.

Lemma phase2_spec f H ic T : (0 < f)%Q -> tbl_ok f H T -> forall (tr : atrace) ms,
  Forall (ok f H) tr -> Forall2 (mid_spec f H T) tr ms ->
  exists os, phase2 f ic T ms = Ok os /\ Forall2 (out_ok (Cof f H T)) tr os.
Proof.
  intros Hf Ht. induction tr as [|[e [cs|]] r IH]; intros ms Hok HF; inversion HF as [|? m ? ms' Hm HF']; subst.
  - exists []. split; [reflexivity|constructor].
  - inversion Hok as [|? ? Hd Hr]; subst. cbn [ok snd fst] in Hd.
    destruct (phase2_ev_dev f H ic T e cs m Hf Hd Ht Hm) as (o & E1 & Ho).
    destruct (IH ms' Hr HF') as (os & E2 & HO).
    exists (o :: os). cbn [phase2]. rewrite E1, E2. split; [reflexivity|]. now constructor.
  - inversion Hok as [|? ? Hd Hr]; subst. cbn [mid_spec snd] in Hm. subst m.
    destruct (IH ms' Hr HF') as (os & E2 & HO).
    exists (OPass :: os). cbn [phase2 phase2_ev]. rewrite E2. split; [reflexivity|]. constructor; [reflexivity|assumption].
Qed.

(* ---------- the whole run ---------- *)
Theorem consistent (f : Q) (ic : bool) (H : Z -> Q) (tr : atrace) :
  (0 < f)%Q -> Forall (ok f H) tr -> fguard [] tr ->
  exists (C : Z -> Z) (os : list out),
    run f ic (map fst tr) = Ok os /\ Forall2 (out_ok C) tr os.
Proof.
  intros Hf Hok Hg.
  assert (Ht0 : tbl_ok f H (epochs st0)) by (intros q e0 E; discriminate).
  destruct (phase1_spec f H Hf tr st0 Hok Ht0 Hg) as (s' & ms & E1 & Ht' & _ & HF).
  destruct (phase2_spec f H ic (epochs s') Hf Ht' tr ms Hok HF) as (os & E2 & HO).
  exists (Cof f H (epochs s')), os. unfold run. rewrite E1. split; assumption.
Qed.

(* ---------- corollaries about one exported slice / two slices of a queue ---------- *)
Lemma shifted_sorted cs d : chain (hd 0 cs) cs -> chain (hd 0 (map (fun c => c + d) cs)) (map (fun c => c + d) cs).
Proof. intros Hc. destruct cs as [|c r]; [exact I|]. cbn [map hd] in *. now apply (chain_shift (c :: r) c d). Qed.

Lemma shifted_congruent cs k : map (fun c => c mod W) (map (fun c => c + k * W) cs) = map (fun c => c mod W) cs.
Proof. rewrite map_map. apply map_ext. intros c. apply Z.mod_add. discriminate. Qed.

Lemma shifted_order (a b k : Z) : (a + k * W ?= b + k * W) = (a ?= b).
Proof. rewrite !(Z.add_comm _ (k * W)). apply Z.add_compare_mono_l. Qed.

(* what an exported slice carries, as a list *)
Definition out_cs (o : out) : list Z := match o with OFix cs _ _ => cs | OPass => [] end.
Definition out_ovc (o : out) : Z := match o with OFix _ v _ => v | OPass => 0 end.

Lemma out_ok_cs C e cs o : out_ok C (e, Some cs) o ->
  out_cs o = map (fun c => c + C (qid e) * W) cs /\ out_ovc o = base cs + C (qid e) /\ 0 <= out_ovc o.
Proof. intros (tof & -> & Hn). cbn [fst snd out_cs out_ovc] in *. auto. Qed.

Lemma slice_sorted C e cs o : chain (hd 0 cs) cs -> out_ok C (e, Some cs) o ->
  chain (hd 0 (out_cs o)) (out_cs o).
Proof. intros Hc Ho. destruct (out_ok_cs C e cs o Ho) as (-> & _). now apply shifted_sorted. Qed.

Lemma slice_congruent C e cs o : out_ok C (e, Some cs) o ->
  map (fun c => c mod W) (out_cs o) = map (fun c => c mod W) cs.
Proof. intros Ho. destruct (out_ok_cs C e cs o Ho) as (-> & _). apply shifted_congruent. Qed.

Lemma slices_order C e1 cs1 o1 e2 cs2 o2 i j :
  qid e1 = qid e2 -> out_ok C (e1, Some cs1) o1 -> out_ok C (e2, Some cs2) o2 ->
  (i < List.length cs1)%nat -> (j < List.length cs2)%nat ->
  (nth i (out_cs o1) 0 ?= nth j (out_cs o2) 0) = (nth i cs1 0 ?= nth j cs2 0).
Proof.
  intros Hq H1 H2 Hi Hj.
  destruct (out_ok_cs C e1 cs1 o1 H1) as (-> & _). destruct (out_ok_cs C e2 cs2 o2 H2) as (-> & _).
  rewrite (nth_map_in (fun c => c + C (qid e1) * W) cs1 i 0) by assumption.
  rewrite (nth_map_in (fun c => c + C (qid e2) * W) cs2 j 0) by assumption.
  rewrite Hq. apply shifted_order.
Qed.

(* ---------- the three registrations on Pipeline.v's operational semantics ---------- *)
Inductive item : Type := IEv (e : ev) | IMid (m : mid) | IOut (o : out).
Record cell : Type := mkcell { c_st : st; c_hold : list item }.

Definition NORM : nat := 1%nat.      (* normalize_ctx, shared by both phases *)
Definition BARR : nat := 0%nat.      (* _main_barrier_context *)

(* a raising callback aborts the run; the theorem below is about runs without exception, so the
   value chosen here for the error case is never looked at *)
Definition p1_cb (f : Q) (c : cell) (x : item) : cell * list item :=
  match x with
  | IEv e => match phase1_ev f (c_st c) e with
             | Ok (s, m) => (mkcell s (c_hold c), [IMid m])
             | Err _ => (c, [])
             end
  | _ => (c, [x])
  end.
Definition p2_cb (f : Q) (ic : bool) (c : cell) (x : item) : cell * list item :=
  match x with
  | IMid m => match phase2_ev f ic (epochs (c_st c)) m with
              | Ok (t, o) => (mkcell (mkst t (lastexec (c_st c))) (c_hold c), [IOut o])
              | Err _ => (c, [])
              end
  | _ => (c, [x])
  end.
Definition nodrain (c : cell) : cell * list item := (c, []).   (* NormalizationContext.drain *)

Definition stage_p1 (f : Q) : stage item cell := {| cb := p1_cb f; cid := NORM; dr := nodrain; bar := false |}.
Definition stage_p2 (f : Q) (ic : bool) : stage item cell := {| cb := p2_cb f ic; cid := NORM; dr := nodrain; bar := false |}.
Definition stage_bar : stage item cell :=
  {| cb := fun c x => (mkcell (c_st c) (c_hold c ++ [x]), []); cid := BARR;
     dr := fun c => (mkcell (c_st c) [], c_hold c); bar := true |}.

Definition pstore0 : store cell := fun _ => mkcell st0 [].
Definition pipe (f : Q) (ic : bool) : list (stage item cell) := [stage_p1 f; stage_bar; stage_p2 f ic].
Definition pipe_run (f : Q) (ic : bool) (evs : list ev) : list item :=
  Pipeline.run (pipe f ic) pstore0 (map IEv evs).

Lemma inputs_phase1 f ic : forall evs (sto : store cell) s' ms,
  phase1 f (c_st (sto NORM)) evs = Ok (s', ms) ->
  exists sto', inputs (pipe f ic) sto (map IEv evs) = (sto', []) /\
               c_st (sto' NORM) = s' /\ c_hold (sto' BARR) = c_hold (sto BARR) ++ map IMid ms.
Proof.
  induction evs as [|e r IH]; intros sto s' ms E.
  - cbn in E. injection E as <- <-. exists sto. cbn. now rewrite app_nil_r.
  - cbn [phase1] in E. destruct (phase1_ev f (c_st (sto NORM)) e) as [[s1 m]|] eqn:E1; [|discriminate].
    destruct (phase1 f s1 r) as [[s2 ms2]|] eqn:E2; [|discriminate]. injection E as <- <-.
    cbn [map inputs]. unfold pipe at 1. cbn [through]. unfold feed at 1. cbn [feedc stage_p1 cb cid p1_cb].
    rewrite E1. cbn [app]. unfold feed at 1. cbn [feedc stage_bar cb cid app]. unfold feed at 1. cbn [feedc].
    match goal with |- context [inputs (pipe f ic) ?S _] => set (sto1 := S) end.
    assert (A : c_st (sto1 NORM) = s1) by (subst sto1; reflexivity).
    rewrite <- A in E2. destruct (IH sto1 s2 ms2 E2) as (sto' & Ei & Es & Eh).
    rewrite Ei. exists sto'. split; [reflexivity|]. split; [assumption|].
    rewrite Eh. subst sto1. cbn [upd NORM BARR Nat.eqb c_hold c_st cid stage_p2]. now rewrite <- app_assoc.
Qed.

Lemma inputs_phase2 f ic : forall ms (sto : store cell) os,
  phase2 f ic (epochs (c_st (sto NORM))) ms = Ok os ->
  snd (inputs [stage_p2 f ic] sto (map IMid ms)) = map IOut os.
Proof.
  induction ms as [|m r IH]; intros sto os E.
  - cbn in E. injection E as <-. reflexivity.
  - cbn [phase2] in E. destruct (phase2_ev f ic (epochs (c_st (sto NORM))) m) as [[t1 o]|] eqn:E1; [|discriminate].
    destruct (phase2 f ic t1 r) as [os2|] eqn:E2; [|discriminate]. injection E as <-.
    cbn [map inputs through]. unfold feed at 1. cbn [feedc stage_p2 cb cid p2_cb]. rewrite E1.
    cbn [app through].
    match goal with |- context [inputs _ ?S _] => set (sto1 := S) end.
    assert (A : epochs (c_st (sto1 NORM)) = t1) by reflexivity.
    rewrite <- A in E2. specialize (IH sto1 os2 E2).
    destruct (inputs [stage_p2 f ic] sto1 (map IMid r)) as [sto2 o2]. cbn [snd] in *. now rewrite IH.
Qed.

Theorem pipe_two_phase f ic evs os : run f ic evs = Ok os -> pipe_run f ic evs = map IOut os.
Proof.
  unfold run, pipe_run, Pipeline.run. intros E.
  destruct (phase1 f st0 evs) as [[s ms]|] eqn:E1; [|discriminate].
  destruct (inputs_phase1 f ic evs pstore0 s ms E1) as (sto' & Ei & Es & Eh).
  rewrite Ei. cbn [app].
  unfold pipe. cbn [drain stage_p1 stage_bar dr cid nodrain inputs].
  cbn [upd NORM BARR Nat.eqb]. rewrite Eh. cbn [pstore0 c_hold app].
  match goal with |- context [inputs [stage_p2 f ic] ?S _] => set (sto1 := S) end.
  assert (A : epochs (c_st (sto1 NORM)) = epochs s) by (subst sto1; cbn [upd NORM BARR Nat.eqb]; now rewrite Es).
  rewrite <- A in E. pose proof (inputs_phase2 f ic ms sto1 os E) as Hp.
  destruct (inputs [stage_p2 f ic] sto1 (map IMid ms)) as [sto2 o2]. cbn [snd] in Hp. subst o2.
  cbn [drain stage_p2 dr cid nodrain inputs]. now rewrite !app_nil_r.
Qed.

(* the property on the pipeline itself: both statements chained *)
Theorem pipe_consistent (f : Q) (ic : bool) (H : Z -> Q) (tr : atrace) :
  (0 < f)%Q -> Forall (ok f H) tr -> fguard [] tr ->
  exists (C : Z -> Z) (os : list out),
    pipe_run f ic (map fst tr) = map IOut os /\ Forall2 (out_ok C) tr os.
Proof.
  intros Hf Hok Hg. destruct (consistent f ic H tr Hf Hok Hg) as (C & os & E & HO).
  exists C, os. split; [now apply pipe_two_phase|assumption].
Qed.
