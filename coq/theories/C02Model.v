(* C02Model.v — C02 "no scratch data in the export", instantiated on the registration program GENERATED from
   acelyzer.py: for each kind of pipeline-internal scratch data the program has an unconditional cleaning stage,
   and only a short suffix of stages follows it.  Suffix.suffix_cleans then reduces "every exported event is clean,
   for every combination of stage-selecting options" to local contracts of that cleaner and the few stages after
   it (contracts that harness/props/c02.py tests on the real callbacks in every run):

     scratch                      cleaning stage                     what must hold for the stages after it
     ph = "F" helper events       flow_data_cleanup                  they never emit a ph "F" event
     args.ts_dev                  cleanup_copy_of_device_ts          they never (re)introduce args.ts_dev
     args.ts_all, args.jobhash    cycle_count_conversion_cleanup     they never (re)introduce those keys

   Selection of stages is by an arbitrary mask [m] over program positions (a valuation of the guard atoms combined
   with profile flags is one such mask); the only requirement is that the cleaning stage itself is selected. *)
From Coq Require Import List String Bool Arith.
Import ListNotations.
From AiuModel Require Import Base Pipeline Profile Suffix.
From AiuGen Require Import Registration Profiles.

(* registrations selected by a position mask, with their positions *)
Fixpoint pick (m : nat -> bool) (i : nat) (p : program) : list (nat * reg) :=
  match p with
  | [] => []
  | r :: rest => if m i then (i, r) :: pick m (S i) rest else pick m (S i) rest
  end.
Lemma pick_app m : forall a i b, pick m i (a ++ b) = (pick m i a ++ pick m (i + List.length a) b)%list.
Proof.
  induction a as [|x a IH]; intros i b; cbn [app pick List.length]; [now rewrite Nat.add_0_r|].
  rewrite IH. replace (S i + List.length a) with (i + S (List.length a)) by now rewrite Nat.add_succ_r.
  destruct (m i); reflexivity.
Qed.
Lemma pick_in m : forall p i x, In x (pick m i p) -> In (snd x) p /\ i <= fst x /\ nth_error p (fst x - i) = Some (snd x).
Proof.
  induction p as [|r p IH]; intros i x H; cbn [pick] in H; [destruct H|].
  destruct (m i).
  - destruct H as [<-|H]; [cbn [fst snd]; rewrite Nat.sub_diag; repeat split; [now left|apply le_n]|].
    destruct (IH _ _ H) as (H1 & H2 & H3). split; [now right|]. split; [now apply Nat.lt_le_incl|].
    replace (fst x - i) with (S (fst x - S i)) by (clear - H2; apply Nat.le_succ_l in H2; rewrite <- Nat.sub_succ_l by exact H2; reflexivity).
    exact H3.
  - destruct (IH _ _ H) as (H1 & H2 & H3). split; [now right|]. split; [now apply Nat.lt_le_incl|].
    replace (fst x - i) with (S (fst x - S i)) by (clear - H2; apply Nat.le_succ_l in H2; rewrite <- Nat.sub_succ_l by exact H2; reflexivity).
    exact H3.
Qed.

(* split the program at the (first) registration named n *)
Fixpoint split_at (n : string) (p : program) : option (program * reg * program) :=
  match p with
  | [] => None
  | r :: rest => if String.eqb (r_name r) n then Some ([], r, rest)
                 else match split_at n rest with
                      | Some (a, c, b) => Some (r :: a, c, b)
                      | None => None
                      end
  end.
Lemma split_at_eq n : forall p a c b, split_at n p = Some (a, c, b) -> p = (a ++ c :: b)%list /\ r_name c = n.
Proof.
  induction p as [|r p IH]; intros a c b H; cbn [split_at] in H; [discriminate|].
  destruct (String.eqb_spec (r_name r) n) as [Hn|Hn].
  - injection H as <- <- <-. split; [reflexivity|exact Hn].
  - destruct (split_at n p) as [[[a' c'] b']|]; [|discriminate]. injection H as <- <- <-.
    destruct (IH _ _ _ eq_refl) as [-> Hc]. split; [reflexivity|exact Hc].
Qed.

(* context cell of a registration (same numbering as C01Model: shared context objects share a cell) *)
Definition cell_of (pos : nat) (r : reg) : nat := match r_ctx r with O => S (2 * pos) | c => 2 * c end.

(* static facts, decided by computation on the generated program *)
Definition apart_b (pre : list (nat * reg)) (suf : list (nat * reg)) : bool :=
  forallb (fun x => forallb (fun y => negb (Nat.eqb (cell_of (fst x) (snd x)) (cell_of (fst y) (snd y)))) suf) pre.
Definition all_mask (_ : nat) : bool := true.

Record cleaning := { cl_pre : program; cl_c : reg; cl_post : program }.
Definition cleaning_of (n : string) : option cleaning :=
  match split_at n the_program with
  | Some (a, c, b) => Some {| cl_pre := a; cl_c := c; cl_post := b |}
  | None => None
  end.
Definition static_ok (cl : cleaning) : bool :=
  (match r_guard (cl_c cl) with GTrue => true | _ => false end) &&
  apart_b (pick all_mask 0 (cl_pre cl))
          (pick all_mask (List.length (cl_pre cl)) (cl_c cl :: cl_post cl)).
(* names of the stages that follow the cleaner: the contracts the tie has to test *)
Definition post_names (cl : cleaning) : list string := map r_name (cl_post cl).
