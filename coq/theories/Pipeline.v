(* Pipeline.v — layer A: operational model of aiu_trace_analyzer.core.processing.EventProcessor
   (pre_process / process / drain), of Engine.run, and of pipeline/barrier.py's shared
   module-level _BarrierContext.

   Code modelled (src/aiu_trace_analyzer):
     core/processing.py::EventProcessor.pre_process   -> [through_l]  (stage by stage, element-wise
                                                         inside a stage; early exit on [] is a no-op)
     core/processing.py::EventProcessor.drain         -> [drain_l]    (pop first stage, drain its
                                                         context, push every drained event, one by
                                                         one, through the remaining stages)
     core/engine.py::Engine.run                       -> [run_l]      (every input event through the
                                                         pipeline, then drain)
     pipeline/barrier.py::pipeline_barrier,_BarrierContext -> [is_barrier] (appends to the shared
                                                         cell BC, returns []; drain returns + resets)
   A context object is a cell of the [store]; several stages may share a cell ([cid]).
   The log ([entry]) records every callback invocation and every context drain in time order:
   this is what the correspondence check compares with the real EventProcessor driven with
   recording callbacks (harness/props/c03.py). *)
From Coq Require Import List Arith Lia Bool.
Import ListNotations.
Set Implicit Arguments.

Section Pipe.
Variables E St : Type.

Record stage := { cb : St -> E -> St * list E;   (* callback on its context's state *)
                  cid : nat;                   (* which context it was registered with *)
                  dr : St -> St * list E;        (* that context's drain() *)
                  bar : bool }.                (* is this registration pipeline_barrier? *)
Definition store := nat -> St.
Definition upd (st : store) (i : nat) (s : St) : store := fun j => if Nat.eqb i j then s else st j.

Inductive entry := Call (k : nat) (e : E) | Drain (k : nat).
Definition idx (x : entry) : nat := match x with Call k _ => k | Drain k => k end.
Definition is_call (x : entry) : Prop := match x with Call _ _ => True | Drain _ => False end.

(* one stage applied to a list of events, left to right (the inner for-loop of pre_process) *)
Fixpoint feedc (g : stage) (s : St) (es : list E) : St * list E :=
  match es with
  | [] => (s, [])
  | e :: r => let '(s1, o) := cb g s e in let '(s2, o2) := feedc g s1 r in (s2, o ++ o2)
  end.
Definition feed (g : stage) (st : store) (es : list E) : store * list E :=
  let '(s, o) := feedc g (st (cid g)) es in (upd st (cid g) s, o).

(* ---------- logged operational semantics ---------- *)
Fixpoint through_l (k : nat) (gs : list stage) (st : store) (es : list E)
  : store * list E * list entry :=
  match gs with
  | [] => (st, es, [])
  | g :: r => let '(st1, o) := feed g st es in
              let '(st2, o2, l) := through_l (S k) r st1 o in
              (st2, o2, map (Call k) es ++ l)
  end.
Fixpoint inputs_l (k : nat) (gs : list stage) (st : store) (es : list E)
  : store * list E * list entry :=
  match es with
  | [] => (st, [], [])
  | e :: r => let '(st1, o, l) := through_l k gs st [e] in
              let '(st2, o2, l2) := inputs_l k gs st1 r in (st2, o ++ o2, l ++ l2)
  end.
Fixpoint drain_l (k : nat) (gs : list stage) (st : store) : store * list E * list entry :=
  match gs with
  | [] => (st, [], [])
  | g :: r => let '(s', pend) := dr g (st (cid g)) in
              let '(st1, o1, l1) := inputs_l (S k) r (upd st (cid g) s') pend in
              let '(st2, o2, l2) := drain_l (S k) r st1 in
              (st2, o1 ++ o2, Drain k :: l1 ++ l2)
  end.
Definition run_l (gs : list stage) (st : store) (es : list E) : list E * list entry :=
  let '(st1, o, l) := inputs_l 0 gs st es in
  let '(_, o2, l2) := drain_l 0 gs st1 in (o ++ o2, l ++ l2).

(* ---------- the same without the log ---------- *)
Fixpoint through (gs : list stage) (st : store) (es : list E) : store * list E :=
  match gs with
  | [] => (st, es)
  | g :: r => let '(st1, o) := feed g st es in through r st1 o
  end.
Fixpoint inputs (gs : list stage) (st : store) (es : list E) : store * list E :=
  match es with
  | [] => (st, [])
  | e :: r => let '(st1, o) := through gs st [e] in
              let '(st2, o2) := inputs gs st1 r in (st2, o ++ o2)
  end.
Fixpoint drain (gs : list stage) (st : store) : store * list E :=
  match gs with
  | [] => (st, [])
  | g :: r => let '(s', pend) := dr g (st (cid g)) in
              let '(st1, o1) := inputs r (upd st (cid g) s') pend in
              let '(st2, o2) := drain r st1 in (st2, o1 ++ o2)
  end.
(* batch variant of drain, used only inside proofs *)
Fixpoint drain_b (gs : list stage) (st : store) : store * list E :=
  match gs with
  | [] => (st, [])
  | g :: r => let '(s', pend) := dr g (st (cid g)) in
              let '(st1, o1) := through r (upd st (cid g) s') pend in
              let '(st2, o2) := drain_b r st1 in (st2, o1 ++ o2)
  end.
Definition run (gs : list stage) (st : store) (es : list E) : list E :=
  let '(st1, o) := inputs gs st es in let '(_, o2) := drain gs st1 in o ++ o2.

Lemma through_l_erase gs : forall k st es, fst (through_l k gs st es) = through gs st es.
Proof.
  induction gs as [|g r IH]; intros k st es; cbn [through_l through]; [reflexivity|].
  destruct (feed g st es) as [st1 o]. specialize (IH (S k) st1 o).
  destruct (through_l (S k) r st1 o) as [[st2 o2] l]. exact IH.
Qed.
Lemma inputs_l_erase gs k : forall es st, fst (inputs_l k gs st es) = inputs gs st es.
Proof.
  induction es as [|e r IH]; intros st; cbn [inputs_l inputs]; [reflexivity|].
  pose proof (through_l_erase gs k st [e]) as H.
  destruct (through_l k gs st [e]) as [[st1 o] l]. cbn [fst] in H. rewrite <- H.
  specialize (IH st1). destruct (inputs_l k gs st1 r) as [[st2 o2] l2]. cbn [fst] in IH.
  rewrite <- IH. reflexivity.
Qed.
Lemma drain_l_erase gs : forall k st, fst (drain_l k gs st) = drain gs st.
Proof.
  induction gs as [|g r IH]; intros k st; cbn [drain_l drain]; [reflexivity|].
  destruct (dr g (st (cid g))) as [s' pend].
  pose proof (inputs_l_erase r (S k) pend (upd st (cid g) s')) as H.
  destruct (inputs_l (S k) r (upd st (cid g) s') pend) as [[st1 o1] l1]. cbn [fst] in H. rewrite <- H.
  specialize (IH (S k) st1). destruct (drain_l (S k) r st1) as [[st2 o2] l2]. cbn [fst] in IH.
  rewrite <- IH. reflexivity.
Qed.
Lemma run_l_erase gs st es : fst (run_l gs st es) = run gs st es.
Proof.
  unfold run_l, run. pose proof (inputs_l_erase gs 0 es st) as H.
  destruct (inputs_l 0 gs st es) as [[st1 o] l]. cbn [fst] in H. rewrite <- H.
  pose proof (drain_l_erase gs 0 st1) as H2.
  destruct (drain_l 0 gs st1) as [[st2 o2] l2]. cbn [fst] in H2. rewrite <- H2. reflexivity.
Qed.

(* ---------- stream view: what the property promises ---------- *)
(* a stage as a function on whole streams: callback outputs in order, then its drain output *)
Definition streamc (g : stage) (s : St) (es : list E) : list E :=
  let '(s1, o) := feedc g s es in let '(_, d) := dr g s1 in o ++ d.
(* the pipeline as the composition of its stages' stream functions; a barrier is the identity *)
Fixpoint compose (gs : list stage) (st : store) (es : list E) : list E :=
  match gs with
  | [] => es
  | g :: r => if bar g then compose r st es else compose r st (streamc g (st (cid g)) es)
  end.

(* ---------- store reasoning ---------- *)
Definition agree (cs : list nat) (a b : store) := forall i, In i cs -> a i = b i.
Definition cids (gs : list stage) := map cid gs.
Definition peq (a b : store) := forall i, a i = b i.

(* the shared barrier cell and its operations *)
Variable BC : nat.
Variable happ : St -> E -> St.
Variable hlist : St -> list E.
Variable hempty : St.
Hypothesis hlist_app : forall s e, hlist (happ s e) = hlist s ++ [e].
Hypothesis hlist_empty : hlist hempty = [].
Definition is_barrier (g : stage) : Prop :=
  cid g = BC /\ (forall s e, cb g s e = (happ s e, [])) /\ (forall s, dr g s = (hempty, hlist s)).
(* well-formed: barrier registrations all use the shared cell; every other stage owns a cell
   that no later stage uses *)
Inductive wf : list stage -> Prop :=
| wf_nil : wf []
| wf_bar g r : bar g = true -> is_barrier g -> wf r -> wf (g :: r)
| wf_priv g r : bar g = false -> ~ In (cid g) (cids r) -> wf r -> wf (g :: r).

Lemma feedc_app g s a b :
  feedc g s (a ++ b) = let '(s1, oa) := feedc g s a in let '(s2, ob) := feedc g s1 b in (s2, oa ++ ob).
Proof.
  revert s; induction a as [|x a IH]; intros s; cbn [feedc app].
  - destruct (feedc g s b); reflexivity.
  - destruct (cb g s x) as [s1 o]. rewrite IH.
    destruct (feedc g s1 a) as [s2 oa]. destruct (feedc g s2 b) as [s3 ob]. now rewrite app_assoc.
Qed.

Lemma upd_same st i s : upd st i s i = s.
Proof. unfold upd. now rewrite Nat.eqb_refl. Qed.
Lemma upd_other st i s j : i <> j -> upd st i s j = st j.
Proof. unfold upd. intros H. destruct (Nat.eqb_spec i j); congruence. Qed.

Lemma through_frame gs : forall x o i, ~ In i (cids gs) -> fst (through gs x o) i = x i.
Proof.
  induction gs as [|h t IH]; intros x o i Hn; cbn [through]; [reflexivity|].
  unfold feed. destruct (feedc h (x (cid h)) o) as [s' o'].
  rewrite IH by (intro; apply Hn; now right).
  apply upd_other. intro; apply Hn; left; congruence.
Qed.

Lemma through_det gs : forall a b es,
  agree (cids gs) a b ->
  snd (through gs a es) = snd (through gs b es) /\
  agree (cids gs) (fst (through gs a es)) (fst (through gs b es)).
Proof.
  induction gs as [|g r IH]; intros a b es H; cbn [through].
  - split; [reflexivity | intros i []].
  - unfold feed. rewrite <- (H (cid g)) by (left; reflexivity).
    destruct (feedc g (a (cid g)) es) as [s o].
    assert (Hr : agree (cids r) (upd a (cid g) s) (upd b (cid g) s)).
    { intros i Hi. unfold upd. destruct (Nat.eqb (cid g) i); [reflexivity|]. apply H. now right. }
    destruct (IH _ _ o Hr) as [H1 H2]. split; [exact H1|].
    intros i [Hi|Hi]; [|now apply H2].
    subst i. destruct (in_dec Nat.eq_dec (cid g) (cids r)) as [Hin|Hnin]; [now apply H2|].
    rewrite !through_frame by assumption. now rewrite !upd_same.
Qed.

Lemma peq_agree cs a b : peq a b -> agree cs a b.
Proof. intros H i _. apply H. Qed.

Lemma through_peq gs a b es : peq a b ->
  snd (through gs a es) = snd (through gs b es) /\ peq (fst (through gs a es)) (fst (through gs b es)).
Proof.
  intros H. destruct (through_det gs es (peq_agree (cids gs) H)) as [H1 H2]. split; [exact H1|].
  intros i. destruct (in_dec Nat.eq_dec i (cids gs)) as [Hi|Hi]; [now apply H2|].
  rewrite !through_frame by assumption. apply H.
Qed.

Lemma through_nil gs : forall st, snd (through gs st []) = [] /\ peq (fst (through gs st [])) st.
Proof.
  induction gs as [|g t IHt]; intros st; cbn [through]; [split; [reflexivity|intros i; reflexivity]|].
  unfold feed. cbn [feedc]. destruct (IHt (upd st (cid g) (st (cid g)))) as [H1 H2]. split; [exact H1|].
  intros i. rewrite H2. unfold upd. destruct (Nat.eqb_spec (cid g) i); congruence.
Qed.

Lemma feedc_bar g : is_barrier g -> forall es s, snd (feedc g s es) = [] /\ hlist (fst (feedc g s es)) = hlist s ++ es.
Proof.
  intros (_ & Hcb & _). induction es as [|e r IH]; intros s; cbn [feedc].
  - split; [reflexivity | now rewrite app_nil_r].
  - rewrite Hcb. destruct (IH (happ s e)) as [I1 I2]. destruct (feedc g (happ s e) r) as [s2 o2].
    cbn [fst snd] in *. subst o2. split; [reflexivity|]. rewrite I2, hlist_app, <- app_assoc. reflexivity.
Qed.

(* batch processing = element-wise processing, for well-formed pipelines *)
Lemma through_app gs : wf gs -> forall st a b,
  snd (through gs st (a ++ b)) =
    snd (through gs st a) ++ snd (through gs (fst (through gs st a)) b) /\
  peq (fst (through gs st (a ++ b))) (fst (through gs (fst (through gs st a)) b)).
Proof.
  induction 1 as [|g r Hb Hbar Hwf IH|g r Hb Hnin Hwf IH]; intros st a b; cbn [through].
  - split; [reflexivity | intros i; reflexivity].
  - set (c := cid g) in *.
    unfold feed. fold c. rewrite feedc_app.
    destruct (feedc_bar Hbar a (st c)) as [Oa _].
    destruct (feedc g (st c) a) as [s1 xa] eqn:Ea. cbn [snd] in Oa. subst xa.
    destruct (feedc_bar Hbar b s1) as [Ob _].
    destruct (feedc g s1 b) as [s2 xb] eqn:Eb. cbn [snd] in Ob. subst xb. cbn [app].
    destruct (through_nil r (upd st c s2)) as [N1 N2].
    destruct (through_nil r (upd st c s1)) as [M1 M2].
    set (q1 := fst (through r (upd st c s1) [])) in *.
    assert (Hq : q1 c = s1) by (rewrite M2; apply upd_same).
    rewrite Hq, Eb.
    destruct (through_nil r (upd q1 c s2)) as [K1 K2].
    split.
    + rewrite N1, M1, K1. reflexivity.
    + intros i. rewrite N2, K2. unfold upd. destruct (Nat.eqb_spec c i); [reflexivity|].
      rewrite M2. unfold upd. destruct (Nat.eqb_spec c i); congruence.
  - set (c := cid g) in *.
    assert (Hci : forall i, In i (cids r) -> c <> i) by (intros i Hi Heq; apply Hnin; now rewrite Heq).
    unfold feed. fold c. rewrite feedc_app.
    destruct (feedc g (st c) a) as [s1 xa] eqn:Ea.
    destruct (feedc g s1 b) as [s2 xb] eqn:Eb.
    destruct (IH (upd st c s2) xa xb) as [IH1 IH2].
    assert (Ag1 : agree (cids r) (upd st c s2) (upd st c s1)).
    { intros i Hi. rewrite !upd_other; [reflexivity| |]; now apply Hci. }
    destruct (through_det r xa Ag1) as [D1 D2].
    set (p1 := fst (through r (upd st c s2) xa)) in *.
    set (q1 := fst (through r (upd st c s1) xa)) in *.
    assert (Hq1c : q1 c = s1).
    { unfold q1. rewrite through_frame by assumption. apply upd_same. }
    rewrite Hq1c, Eb.
    assert (Ag2 : agree (cids r) p1 (upd q1 c s2)).
    { intros i Hi. rewrite upd_other by (now apply Hci). now apply D2. }
    destruct (through_det r xb Ag2) as [D3 D4].
    split.
    + rewrite IH1, D1, D3. reflexivity.
    + intros i. rewrite IH2.
      destruct (in_dec Nat.eq_dec i (cids r)) as [Hi|Hi]; [now apply D4|].
      rewrite !through_frame by assumption.
      unfold p1. rewrite through_frame by assumption.
      destruct (Nat.eq_dec c i) as [<-|Hne].
      * now rewrite !upd_same.
      * rewrite !upd_other by assumption. unfold q1. rewrite through_frame by assumption.
        now rewrite upd_other.
Qed.

Lemma inputs_through gs : wf gs -> forall es st,
  snd (inputs gs st es) = snd (through gs st es) /\ peq (fst (inputs gs st es)) (fst (through gs st es)).
Proof.
  intros W. induction es as [|e r IH]; intros st.
  - cbn [inputs]. destruct (through_nil gs st) as [H1 H2]. split; [now rewrite H1 | intros i; now rewrite H2].
  - cbn [inputs]. destruct (through gs st [e]) as [st1 o] eqn:E1.
    destruct (inputs gs st1 r) as [st2 o2] eqn:E2.
    destruct (@through_app gs W st [e] r) as [H1 H2]. cbn [app] in H1, H2.
    rewrite E1 in H1, H2. cbn [fst snd] in *.
    specialize (IH st1). rewrite E2 in IH. cbn [fst snd] in IH. destruct IH as [I1 I2].
    split.
    + rewrite H1, I1. reflexivity.
    + intros i. rewrite I2, H2. reflexivity.
Qed.

Lemma drain_b_det gs : forall a b, agree (cids gs) a b -> snd (drain_b gs a) = snd (drain_b gs b).
Proof.
  induction gs as [|g r IH]; intros a b H; cbn [drain_b]; [reflexivity|].
  rewrite <- (H (cid g)) by (left; reflexivity).
  destruct (dr g (a (cid g))) as [s' pend].
  assert (Hr : agree (cids r) (upd a (cid g) s') (upd b (cid g) s')).
  { intros i Hi. unfold upd. destruct (Nat.eqb (cid g) i); [reflexivity|]. apply H. now right. }
  destruct (through_det r pend Hr) as [D1 D2].
  destruct (through r (upd a (cid g) s') pend) as [sa oa].
  destruct (through r (upd b (cid g) s') pend) as [sb ob]. cbn [fst snd] in *. subst ob.
  specialize (IH sa sb D2).
  destruct (drain_b r sa) as [? o2]. destruct (drain_b r sb) as [? o2']. cbn [snd] in *. now subst.
Qed.

(* the real (element-wise) drain emits what the batch drain emits *)
Lemma drain_drain_b gs : wf gs -> forall st, snd (drain gs st) = snd (drain_b gs st).
Proof.
  intros W. assert (Hsuf : forall r, wf r -> forall st, snd (drain r st) = snd (drain_b r st)).
  2:{ now apply Hsuf. }
  clear gs W. intros gs W. induction W as [|g r Hb Hbar Hwf IH|g r Hb Hnin Hwf IH]; intros st;
    cbn [drain drain_b]; try reflexivity.
  all: destruct (dr g (st (cid g))) as [s' pend];
       destruct (@inputs_through r Hwf pend (upd st (cid g) s')) as [I1 I2];
       destruct (inputs r (upd st (cid g) s') pend) as [st1 o1];
       destruct (through r (upd st (cid g) s') pend) as [st1' o1']; cbn [fst snd] in I1, I2; subst o1';
       pose proof (IH st1) as J;
       pose proof (@drain_b_det r st1 st1' (peq_agree (cids r) I2)) as K;
       destruct (drain r st1) as [? o2]; destruct (drain_b r st1) as [? o2b];
       destruct (drain_b r st1') as [? o2c]; cbn [snd] in *; congruence.
Qed.

(* compose ignores the cells of barrier stages *)
Definition pcids (gs : list stage) := map cid (filter (fun g => negb (bar g)) gs).
Lemma compose_det gs : forall a b es, agree (pcids gs) a b -> compose gs a es = compose gs b es.
Proof.
  induction gs as [|g r IH]; intros a b es H; cbn [compose]; [reflexivity|].
  unfold pcids in H. cbn [filter] in H. destruct (bar g); cbn [negb map] in H.
  - now apply IH.
  - rewrite <- (H (cid g)) by (left; reflexivity). apply IH. intros i Hi. apply H. now right.
Qed.

Definition run_b (gs : list stage) (st : store) (es : list E) : list E :=
  let '(st1, o) := inputs gs st es in let '(_, o2) := drain_b gs st1 in o ++ o2.

Lemma run_run_b gs st es : wf gs -> run gs st es = run_b gs st es.
Proof.
  intros W. unfold run, run_b. destruct (inputs gs st es) as [st1 o].
  pose proof (drain_drain_b W st1) as H.
  destruct (drain gs st1) as [? o2]. destruct (drain_b gs st1) as [? o2']. cbn [snd] in H. now subst.
Qed.

Theorem stream_compose_b gs : wf gs -> ~ In BC (pcids gs) ->
  forall st es, hlist (st BC) = [] -> run_b gs st es = compose gs st es.
Proof.
  induction 1 as [|g r Hb Hbar Hwf IH|g r Hb Hnin Hwf IH]; intros HB st es H0.
  - unfold run_b. cbn [compose drain_b].
    destruct (@inputs_through [] wf_nil es st) as [H1 _]. cbn [through snd] in H1.
    destruct (inputs [] st es) as [st1 o]. cbn [snd] in H1. subst. now rewrite app_nil_r.
  - (* barrier first *)
    assert (W : wf (g :: r)) by (now apply wf_bar).
    assert (HB' : ~ In BC (pcids r)).
    { intro Hin. apply HB. unfold pcids in *. cbn [filter]. now rewrite Hb. }
    cbn [compose]. rewrite Hb.
    destruct Hbar as (Hc & Hcb & Hdr).
    assert (Hbar : is_barrier g) by (repeat split; assumption).
    unfold run_b at 1.
    destruct (@inputs_through (g :: r) W es st) as [H1 H2].
    destruct (inputs (g :: r) st es) as [sti oi]. cbn [fst snd] in H1, H2.
    cbn [through] in H1, H2. unfold feed in H1, H2. rewrite Hc in H1, H2.
    destruct (feedc_bar Hbar es (st BC)) as [O1 O2].
    destruct (feedc g (st BC) es) as [s1 o] eqn:Ef. cbn [fst snd] in O1, O2. subst o.
    rewrite H0 in O2. cbn [app] in O2.
    destruct (through_nil r (upd st BC s1)) as [N1 N2].
    cbn [drain_b]. rewrite Hc.
    assert (Hs : sti BC = s1) by (rewrite H2, N2; apply upd_same).
    rewrite Hs, Hdr, O2.
    assert (Cd : compose r st es = compose r (upd st BC hempty) es).
    { apply compose_det. intros i Hi. rewrite upd_other; [reflexivity|]. intro Heq; apply HB'; now rewrite Heq. }
    rewrite Cd.
    rewrite <- (IH HB' (upd st BC hempty) es) by (rewrite upd_same; exact hlist_empty).
    unfold run_b.
    destruct (@inputs_through r Hwf es (upd st BC hempty)) as [J1 J2].
    destruct (inputs r (upd st BC hempty) es) as [stj oj]. cbn [fst snd] in J1, J2.
    assert (Pq : peq (upd sti BC hempty) (upd st BC hempty)).
    { intros i. unfold upd. destruct (Nat.eqb_spec BC i); [reflexivity|].
      rewrite H2, N2. unfold upd. destruct (Nat.eqb_spec BC i); congruence. }
    destruct (through_peq r es Pq) as [T1 T2].
    destruct (through r (upd sti BC hempty) es) as [st2 o2]. cbn [fst snd] in T1, T2.
    assert (Ag : agree (cids r) st2 stj).
    { intros i _. rewrite T2, J2. reflexivity. }
    pose proof (drain_b_det r Ag) as D5.
    destruct (drain_b r st2) as [? o3]. destruct (drain_b r stj) as [? o3']. cbn [snd] in D5. subst o3'.
    rewrite H1, N1, J1, T1. reflexivity.
  - (* private stage first *)
    assert (W : wf (g :: r)) by (now apply wf_priv).
    assert (HB' : ~ In BC (pcids r)).
    { intro Hin. apply HB. unfold pcids in *. cbn [filter]. rewrite Hb. cbn [negb map]. now right. }
    cbn [compose]. rewrite Hb. unfold streamc.
    set (c := cid g).
    assert (Hci : forall i, In i (cids r) -> c <> i) by (intros i Hi Heq; apply Hnin; unfold c in Heq; now rewrite Heq).
    destruct (feedc g (st c) es) as [s1 o] eqn:Ef.
    destruct (dr g s1) as [s' d] eqn:Ed.
    rewrite <- (IH HB' st (o ++ d) H0).
    unfold run_b at 1.
    destruct (@inputs_through (g :: r) W es st) as [H1 H2].
    destruct (inputs (g :: r) st es) as [sti oi]. cbn [fst snd] in H1, H2.
    cbn [through] in H1, H2. unfold feed in H1, H2. fold c in H1, H2. rewrite Ef in H1, H2.
    set (T1 := through r (upd st c s1) o) in *.
    cbn [drain_b]. fold c.
    assert (Hc : sti c = s1).
    { rewrite H2. unfold T1. rewrite through_frame by assumption. apply upd_same. }
    rewrite Hc, Ed.
    unfold run_b.
    destruct (@inputs_through r Hwf (o ++ d) st) as [A' B'].
    destruct (inputs r st (o ++ d)) as [stj oj]. cbn [fst snd] in A', B'.
    destruct (@through_app r Hwf st o d) as [P1 P2].
    assert (Ag1 : agree (cids r) st (upd st c s1)).
    { intros i Hi. rewrite upd_other; [reflexivity|]. now apply Hci. }
    destruct (through_det r o Ag1) as [D1 D2]. fold T1 in D1, D2.
    assert (Ag2 : agree (cids r) (fst (through r st o)) (upd sti c s')).
    { intros i Hi. rewrite upd_other by (now apply Hci). rewrite H2. now apply D2. }
    destruct (through_det r d Ag2) as [D3 D4].
    destruct (through r (upd sti c s') d) as [st2 o2] eqn:E2. cbn [fst snd] in D3, D4.
    assert (Ag3 : agree (cids r) stj st2).
    { intros i Hi. rewrite B', P2. now apply D4. }
    pose proof (drain_b_det r Ag3) as D5.
    destruct (drain_b r st2) as [st3 o3]. destruct (drain_b r stj) as [st3' o3']. cbn [snd] in D5. subst o3'.
    rewrite H1, A', P1, D1, D3. now rewrite app_assoc.
Qed.

(* THE WORKHORSE: the exported stream of Engine.run is the composition of the per-stage stream
   functions; every barrier (any number of them, all sharing the cell BC) is the identity. *)
Theorem stream_compose gs : wf gs -> ~ In BC (pcids gs) ->
  forall st es, hlist (st BC) = [] -> run gs st es = compose gs st es.
Proof.
  intros W HB st es H0. rewrite run_run_b by assumption. now apply stream_compose_b.
Qed.

(* ---------- temporal properties of the call log (no well-formedness needed) ---------- *)
Definition blocks (g : stage) : Prop := forall s e, snd (cb g s e) = [].

Lemma feedc_blocks g : blocks g -> forall es s, snd (feedc g s es) = [].
Proof.
  intros B. induction es as [|e r IH]; intros s; cbn [feedc]; [reflexivity|].
  pose proof (B s e) as H. destruct (cb g s e) as [s1 o]. cbn [snd] in H. subst o.
  specialize (IH s1). destruct (feedc g s1 r) as [s2 o2]. cbn [snd] in *. now subst.
Qed.

Lemma through_l_ge gs : forall k st es, Forall (fun x => k <= idx x /\ is_call x) (snd (through_l k gs st es)).
Proof.
  induction gs as [|g r IH]; intros k st es; cbn [through_l]; [constructor|].
  destruct (feed g st es) as [st1 o]. specialize (IH (S k) st1 o).
  destruct (through_l (S k) r st1 o) as [[st2 o2] l]. cbn [snd] in *.
  apply Forall_app. split.
  - apply Forall_forall. intros x Hx. apply in_map_iff in Hx. destruct Hx as (e & <- & _). cbn. split; [lia|exact I].
  - eapply Forall_impl; [|exact IH]. cbn. intros a [Ha Hc]. split; [lia|exact Hc].
Qed.
Lemma inputs_l_ge gs k : forall es st, Forall (fun x => k <= idx x /\ is_call x) (snd (inputs_l k gs st es)).
Proof.
  induction es as [|e r IH]; intros st; cbn [inputs_l]; [constructor|].
  pose proof (through_l_ge gs k st [e]) as H.
  destruct (through_l k gs st [e]) as [[st1 o] l]. specialize (IH st1).
  destruct (inputs_l k gs st1 r) as [[st2 o2] l2]. cbn [snd] in *. apply Forall_app. now split.
Qed.

(* a blocking stage at position b: nothing is emitted and no later stage is called *)
Lemma through_l_block g : blocks g -> forall b gs, nth_error gs b = Some g -> forall k st es,
  snd (fst (through_l k gs st es)) = [] /\ Forall (fun x => idx x <= k + b) (snd (through_l k gs st es)).
Proof.
  intros B. induction b as [|b IH]; intros gs Hn k st es; destruct gs as [|g0 r]; try discriminate.
  - cbn in Hn. injection Hn as ->. cbn [through_l]. unfold feed.
    pose proof (feedc_blocks B es (st (cid g))) as Ho.
    destruct (feedc g (st (cid g)) es) as [s1 o]. cbn [snd] in Ho. subst o.
    pose proof (through_l_ge r (S k) (upd st (cid g) s1) []) as Hge.
    assert (Hnil : forall r k st, through_l k r st [] = (fst (fst (through_l k r st [])), [], [])).
    { clear. induction r as [|h t IHr]; intros k st; cbn [through_l]; [reflexivity|].
      unfold feed. cbn [feedc]. rewrite IHr. reflexivity. }
    rewrite Hnil. cbn [fst snd]. split; [reflexivity|].
    rewrite app_nil_r. apply Forall_forall. intros x Hx. apply in_map_iff in Hx. destruct Hx as (e & <- & _). cbn. lia.
  - cbn in Hn. cbn [through_l]. destruct (feed g0 st es) as [st1 o].
    destruct (IH r Hn (S k) st1 o) as [H1 H2].
    destruct (through_l (S k) r st1 o) as [[st2 o2] l]. cbn [fst snd] in *. split; [exact H1|].
    apply Forall_app. split.
    + apply Forall_forall. intros x Hx. apply in_map_iff in Hx. destruct Hx as (e & <- & _). cbn. lia.
    + eapply Forall_impl; [|exact H2]. cbn. intros; lia.
Qed.
Lemma inputs_l_block g : blocks g -> forall b gs, nth_error gs b = Some g -> forall k es st,
  snd (fst (inputs_l k gs st es)) = [] /\ Forall (fun x => idx x <= k + b) (snd (inputs_l k gs st es)).
Proof.
  intros B b gs Hn k. induction es as [|e r IH]; intros st; cbn [inputs_l]; [split; [reflexivity|constructor]|].
  destruct (through_l_block B b gs Hn k st [e]) as [H1 H2].
  destruct (through_l k gs st [e]) as [[st1 o] l]. destruct (IH st1) as [I1 I2].
  destruct (inputs_l k gs st1 r) as [[st2 o2] l2]. cbn [fst snd] in *. subst. split; [reflexivity|].
  apply Forall_app. now split.
Qed.

Lemma drain_l_ge gs : forall k st, Forall (fun x => k <= idx x) (snd (drain_l k gs st)).
Proof.
  induction gs as [|g r IH]; intros k st; cbn [drain_l]; [constructor|].
  destruct (dr g (st (cid g))) as [s' pend].
  pose proof (inputs_l_ge r (S k) pend (upd st (cid g) s')) as H1.
  destruct (inputs_l (S k) r (upd st (cid g) s') pend) as [[st1 o1] l1].
  specialize (IH (S k) st1). destruct (drain_l (S k) r st1) as [[st2 o2] l2]. cbn [snd] in *.
  constructor; [cbn; lia|]. apply Forall_app. split.
  - eapply Forall_impl; [|exact H1]. cbn. intros a [Ha _]. lia.
  - eapply Forall_impl; [|exact IH]. cbn. intros; lia.
Qed.

Lemma drain_l_sep g : blocks g -> forall b gs, nth_error gs b = Some g -> forall k st,
  exists l1 l2, snd (drain_l k gs st) = l1 ++ l2 /\
    Forall (fun x => idx x <= k + b) l1 /\ Forall (fun x => k + b < idx x) l2.
Proof.
  intros B. induction b as [|b IH]; intros gs Hn k st; destruct gs as [|g0 r]; try discriminate.
  - cbn in Hn. injection Hn as ->. cbn [drain_l].
    destruct (dr g (st (cid g))) as [s' pend].
    pose proof (inputs_l_ge r (S k) pend (upd st (cid g) s')) as H1.
    destruct (inputs_l (S k) r (upd st (cid g) s') pend) as [[st1 o1] l1].
    pose proof (drain_l_ge r (S k) st1) as H2.
    destruct (drain_l (S k) r st1) as [[st2 o2] l2]. cbn [snd] in *.
    exists [Drain k], (l1 ++ l2). split; [reflexivity|]. split.
    + constructor; [cbn; lia|constructor].
    + apply Forall_app. split.
      * eapply Forall_impl; [|exact H1]. cbn. intros a [Ha _]. lia.
      * eapply Forall_impl; [|exact H2]. cbn. intros; lia.
  - cbn in Hn. cbn [drain_l].
    destruct (dr g0 (st (cid g0))) as [s' pend].
    destruct (inputs_l_block B b r Hn (S k) pend (upd st (cid g0) s')) as [_ H1].
    destruct (inputs_l (S k) r (upd st (cid g0) s') pend) as [[st1 o1] l1].
    destruct (IH r Hn (S k) st1) as (m1 & m2 & Hm & Hm1 & Hm2).
    destruct (drain_l (S k) r st1) as [[st2 o2] l2]. cbn [snd] in *. subst l2.
    exists (Drain k :: l1 ++ m1), m2. split; [cbn; now rewrite app_assoc|]. split.
    + constructor; [cbn; lia|]. apply Forall_app. split.
      * eapply Forall_impl; [|exact H1]. cbn. intros; lia.
      * eapply Forall_impl; [|exact Hm1]. cbn. intros; lia.
    + eapply Forall_impl; [|exact Hm2]. cbn. intros; lia.
Qed.

(* BARRIER: if the stage at position b never returns an event from its callback (pipeline_barrier),
   then in the time-ordered log of a whole run every call or drain of a stage after b happens
   after every call or drain of the stages up to b — for any other stages, any sharing of cells,
   any number of further barriers. *)
Theorem barrier_separates g b gs st es : blocks g -> nth_error gs b = Some g ->
  exists l1 l2, snd (run_l gs st es) = l1 ++ l2 /\
    Forall (fun x => idx x <= b) l1 /\ Forall (fun x => b < idx x) l2.
Proof.
  intros B Hn. unfold run_l.
  destruct (inputs_l_block B b gs Hn 0 es st) as [_ H1].
  destruct (inputs_l 0 gs st es) as [[st1 o] l].
  destruct (drain_l_sep B b gs Hn 0 st1) as (m1 & m2 & Hm & Hm1 & Hm2).
  destruct (drain_l 0 gs st1) as [[st2 o2] l2]. cbn [snd] in *. subst l2.
  exists (l ++ m1), m2. split; [now rewrite app_assoc|]. split; [apply Forall_app; now split|exact Hm2].
Qed.

(* DRAIN ORDER: contexts are drained only after the last input event went in, in registration
   order, each exactly once, and after stage k's context was drained no stage <= k is ever called *)
Inductive drain_ok : list entry -> Prop :=
| dok_nil : drain_ok []
| dok_call k e l : drain_ok l -> drain_ok (Call k e :: l)
| dok_drain k l : Forall (fun x => k < idx x) l -> drain_ok l -> drain_ok (Drain k :: l).
Definition drains (l : list entry) : list nat :=
  flat_map (fun x => match x with Drain k => [k] | Call _ _ => [] end) l.

Lemma calls_app_ok l1 l2 : Forall is_call l1 -> drain_ok l2 -> drain_ok (l1 ++ l2).
Proof.
  induction 1 as [|x l Hx _ IH]; intros H2; cbn [app]; [exact H2|].
  destruct x as [k e|k]; [|destruct Hx]. constructor. now apply IH.
Qed.
Lemma calls_drains l : Forall is_call l -> drains l = [].
Proof. induction 1 as [|x l Hx _ IH]; [reflexivity|]. destruct x; [exact IH|destruct Hx]. Qed.
Lemma drains_app a b : drains (a ++ b) = drains a ++ drains b.
Proof. unfold drains. now rewrite flat_map_app. Qed.

Lemma drain_l_order gs : forall k st,
  drain_ok (snd (drain_l k gs st)) /\ drains (snd (drain_l k gs st)) = seq k (length gs).
Proof.
  induction gs as [|g r IH]; intros k st; cbn [drain_l]; [split; [constructor|reflexivity]|].
  destruct (dr g (st (cid g))) as [s' pend].
  pose proof (inputs_l_ge r (S k) pend (upd st (cid g) s')) as H1.
  destruct (inputs_l (S k) r (upd st (cid g) s') pend) as [[st1 o1] l1].
  pose proof (drain_l_ge r (S k) st1) as H2.
  destruct (IH (S k) st1) as [I1 I2].
  destruct (drain_l (S k) r st1) as [[st2 o2] l2]. cbn [snd] in *.
  assert (C1 : Forall is_call l1) by (eapply Forall_impl; [|exact H1]; cbn; tauto).
  split.
  - constructor.
    + apply Forall_app. split.
      * eapply Forall_impl; [|exact H1]. cbn. intros a [Ha _]. lia.
      * eapply Forall_impl; [|exact H2]. cbn. intros; lia.
    + now apply calls_app_ok.
  - cbn [drains flat_map app length seq]. fold (drains (l1 ++ l2)).
    rewrite drains_app, (calls_drains C1), I2. reflexivity.
Qed.

Theorem drain_order gs st es :
  exists lin ldr, snd (run_l gs st es) = lin ++ ldr /\
    Forall is_call lin /\                                  (* no drain while input is still arriving *)
    (gs <> [] ->                                           (* stage 0 sees exactly the input *)
     map (fun x => match x with Call _ e => Some e | _ => None end)
        (filter (fun x => match x with Call 0 _ => true | _ => false end) lin) = map Some es) /\
    drains ldr = seq 0 (length gs) /\                      (* registration order, each once *)
    drain_ok (lin ++ ldr).                                 (* nothing reaches a drained stage *)
Proof.
  unfold run_l.
  pose proof (inputs_l_ge gs 0 es st) as H1.
  assert (Hfirst : forall es st,
    map (fun x => match x with Call _ e => Some e | _ => None end)
        (filter (fun x => match x with Call 0 _ => true | _ => false end) (snd (inputs_l 0 gs st es)))
    = match gs with [] => [] | _ => map Some es end).
  { clear. induction es as [|e r IH]; intros st; cbn [inputs_l]; [destruct gs; reflexivity|].
    destruct gs as [|g t].
    - cbn [through_l]. specialize (IH st). destruct (inputs_l 0 [] st r) as [[? ?] ?]. cbn [snd app] in *. exact IH.
    - cbn [through_l]. destruct (feed g st [e]) as [st1 o].
      pose proof (through_l_ge t 1 st1 o) as Hge.
      destruct (through_l 1 t st1 o) as [[st2 o2] l]. specialize (IH st2).
      destruct (inputs_l 0 (g :: t) st2 r) as [[st3 o3] l3]. cbn [snd] in *.
      assert (Hz : filter (fun x => match x with Call 0 _ => true | _ => false end) l = []).
      { clear -Hge. induction l as [|x l IHl]; [reflexivity|]. inversion Hge as [|? ? [Hx _] Hl]; subst.
        cbn [filter]. destruct x as [[|k] e'|k]; cbn in Hx; try lia; now apply IHl. }
      cbn [map app filter]. rewrite filter_app, Hz. cbn [app map]. now rewrite IH. }
  specialize (Hfirst es st).
  destruct (inputs_l 0 gs st es) as [[st1 o] l].
  destruct (drain_l_order gs 0 st1) as [I1 I2].
  destruct (drain_l 0 gs st1) as [[st2 o2] l2]. cbn [snd] in *.
  assert (C1 : Forall is_call l) by (eapply Forall_impl; [|exact H1]; cbn; tauto).
  exists l, l2. split; [reflexivity|]. split; [exact C1|]. split.
  - intros Hne. destruct gs; [congruence|exact Hfirst].
  - split; [exact I2|]. now apply calls_app_ok.
Qed.
End Pipe.
Arguments Drain {E} k.
Arguments Call {E} k e.
