(* Sort.v — layer B: the event sorter (shared by C08, reusable by C04/C10/... ).

   Code modelled (src/aiu_trace_analyzer/pipeline/sort.py, base class pipeline/be_pair.py):
     EventSortingContext._parse_sortkey      -> [parse_sortkey]   ("k1[:r],k2[:r],..." -> [(k, +1 | -1)]; Python str.split)
     EventSortingContext.queue_hash          -> [queue_hash]      (global_sort: the one queue id 1, else hash((pid, tid)))
     EventSortingContext._check_keys         -> [check_keys]      (PRIMARY key only; missing secondary keys count as 0)
     EventSortingContext.sort / sort_events  -> [sort_cb]         (event_types filter and missing primary key: the event
                                                                   passes through at once; else it is queued, nothing returned)
     EventPairDetectionContext.insert        -> [insert_op]       (inherited: no filter, optional explicit queue id, a falsy
                                                                   id (0) means "compute it")
     EventSortingContext.drain               -> [sort_drain]      (every queue list.sort()-ed by the tuple
                                                                   [float(rev) * float(x[k] if k in x else 0.0)], queues popped
                                                                   and concatenated in dict (= insertion) order; state empty after)
   Quirks kept: the filter tests event["ph"]; a missing "tid" is lane tid 0; an event whose primary key is missing is NOT
   held back (it overtakes everything queued); queue order is first appearance of the lane, not lane number; [lastidx] is
   write-only and not modelled.
   Abstractions (stated in the check's TRUSTED list): dict keys hash((pid, tid)) are taken as injective on the lanes in use
   ([QL p t]); explicit integer ids ([QI z]) are distinct from every computed lane hash; numeric field values are exact
   rationals (the tie generates on the exact grid); list.sort is a stable sort (= [Base.isort], checked by the tie).

   The model is polymorphic in the event type: a client supplies [ph], [pid], [tid] and the numeric field lookup [getk]
   (Section variables). [sev] at the end is the concrete event the correspondence check uses. *)
From Coq Require Import ZArith QArith List Bool String Ascii.
Import ListNotations.
From AiuModel Require Import Base Pipeline.
Local Open Scope Z_scope.

(* ------------------------------------------------------------------ _parse_sortkey *)
(* Python str.split(sep) for a one-character separator: always at least one piece *)
Fixpoint split_on (c : ascii) (s : string) : list string :=
  match s with
  | EmptyString => [EmptyString]
  | String a r =>
      match split_on c r with
      | [] => [String a EmptyString]
      | h :: t => if Ascii.eqb a c then EmptyString :: h :: t else String a h :: t
      end
  end.

Definition parse_one (k : string) : string * Z :=
  let key := split_on ":"%char k in
  (hd EmptyString key,
   match key with
   | _ :: r :: _ => if String.eqb r "r" then -1 else 1
   | _ => 1
   end).
Definition parse_sortkey (s : string) : list (string * Z) := map parse_one (split_on ","%char s).

(* ------------------------------------------------------------------ configuration and queue ids *)
Record cfg := { c_types : option (list string);      (* event_types *)
                c_key : list (string * Z);           (* self.sortkey *)
                c_global : bool }.                   (* global_sort *)
Definition mk_cfg (types : option (list string)) (sortkey : string) (glob : bool) : cfg :=
  {| c_types := types; c_key := parse_sortkey sortkey; c_global := glob |}.

Inductive qid := QI (z : Z) | QL (p t : Z).
Definition qid_eqb (a b : qid) : bool :=
  match a, b with
  | QI x, QI y => Z.eqb x y
  | QL p t, QL p' t' => Z.eqb p p' && Z.eqb t t'
  | _, _ => false
  end.
Definition queue_hash (c : cfg) (p t : Z) : qid := if c_global c then QI 1 else QL p t.

(* lexicographic <= on key tuples (Python tuple comparison) *)
Fixpoint lex_leb (a b : list Q) : bool :=
  match a, b with
  | [], _ => true
  | _ :: _, [] => false
  | x :: a', y :: b' => if Qlt_b x y then true else if Qlt_b y x then false else lex_leb a' b'
  end.

Section SortModel.
  Variable E : Type.
  Variable ph : E -> string.
  Variable pid : E -> Z.
  Variable tid : E -> option Z.               (* None: "tid" not in event *)
  Variable getk : E -> string -> option Q.    (* Some v: key in event, with numeric value v *)

  (* self.queues: dict in insertion order *)
  Definition state := list (qid * list E).
  Definition empty : state := [].

  Fixpoint enqueue (q : qid) (e : E) (st : state) : state :=
    match st with
    | [] => [(q, [e])]
    | (q', l) :: r => if qid_eqb q q' then (q', l ++ [e]) :: r else (q', l) :: enqueue q e r
    end.

  Definition lane_tid (e : E) : Z := match tid e with Some t => t | None => 0 end.
  Definition has_key (e : E) (k : string) : bool := match getk e k with Some _ => true | None => false end.
  (* self.sortkey is never empty: _parse_sortkey returns one entry per piece of split(','), which is >= 1 piece *)
  Definition check_keys (c : cfg) (e : E) : bool :=
    match c_key c with (k, _) :: _ => has_key e k | [] => false end.
  Definition filtered_out (c : cfg) (e : E) : bool :=
    match c_types c with Some ts => negb (existsb (String.eqb (ph e)) ts) | None => false end.
  (* does sort() hold the event back? *)
  Definition queued (c : cfg) (e : E) : bool := negb (filtered_out c e) && check_keys c e.

  Definition sort_cb (c : cfg) (st : state) (e : E) : state * list E :=
    if queued c e then (enqueue (queue_hash c (pid e) (lane_tid e)) e st, []) else (st, [e]).

  Definition insert_op (c : cfg) (q : option Z) (e : E) (st : state) : state :=
    let computed := queue_hash c (pid e) (lane_tid e) in
    enqueue (match q with Some z => if Z.eqb z 0 then computed else QI z | None => computed end) e st.

  Definition keyvec (c : cfg) (e : E) : list Q :=
    map (fun kr => Qmult (inject_Z (snd kr)) (match getk e (fst kr) with Some v => v | None => 0%Q end)) (c_key c).
  Definition key_leb (c : cfg) (a b : E) : bool := lex_leb (keyvec c a) (keyvec c b).

  Definition sort_drain (c : cfg) (st : state) : state * list E :=
    (empty, flat_map (fun ql => isort (key_leb c) (snd ql)) st).

  (* the registration  process.register_stage(callback=sort_events, context=EventSortingContext(...))  as a stage of
     Pipeline.v, for a pipeline whose context cells have type [St] and embed the sorter's state *)
  Definition sort_stage (St : Type) (inj : state -> St) (proj : St -> state) (c : cfg) (cell : nat) : stage E St :=
    {| cb := fun s e => let '(s', o) := sort_cb c (proj s) e in (inj s', o);
       cid := cell;
       dr := fun s => let '(s', o) := sort_drain c (proj s) in (inj s', o);
       bar := false |}.

  (* the stage as a function on whole streams (what Pipeline.streamc computes for it, see Sort_proofs.sort_stream):
     events that are not held back keep their order and come first, then the drain *)
  Definition sort_stream (c : cfg) (es : list E) : list E :=
    filter (fun e => negb (queued c e)) es ++
    snd (sort_drain c (fold_left (fun st e => fst (sort_cb c st e)) es empty)).

  (* operation sequences on one context object (for the correspondence check) *)
  Inductive op := OSort (e : E) | OInsert (q : option Z) (e : E) | ODrain.
  Fixpoint run_ops (c : cfg) (st : state) (ops : list op) : list (list E) :=
    match ops with
    | [] => []
    | OSort e :: r => let '(st', o) := sort_cb c st e in o :: run_ops c st' r
    | OInsert q e :: r => [] :: run_ops c (insert_op c q e st) r
    | ODrain :: r => let '(st', o) := sort_drain c st in o :: run_ops c st' r
    end.
End SortModel.

Arguments OSort {E} e.
Arguments OInsert {E} q e.
Arguments ODrain {E}.

(* ------------------------------------------------------------------ concrete event of the correspondence check *)
Record sev := { s_uid : Z;                        (* identity, assigned by the harness *)
                s_ph : string;
                s_pid : Z;
                s_tid : option Z;
                s_num : list (string * Q) }.      (* the numeric fields present in the event *)
Fixpoint assoc (l : list (string * Q)) (k : string) : option Q :=
  match l with
  | [] => None
  | (k', v) :: r => if String.eqb k k' then Some v else assoc r k
  end.
Definition s_getk (e : sev) (k : string) : option Q := assoc (s_num e) k.

Definition uids (l : list sev) : val := VL (map (fun e => VZ (s_uid e)) l).

(* tie 1: _parse_sortkey *)
Definition parse_val (s : string) : val :=
  VL (map (fun kr => VL [VS (fst kr); VZ (snd kr)]) (parse_sortkey s)).

(* tie 2: an operation sequence on EventSortingContext(event_types, sortkey, global_sort): what every call returned *)
Definition ops_val (x : (option (list string) * string * bool) * list (op sev)) : val :=
  let '((types, key, glob), ops) := x in
  VL (map uids (run_ops sev s_ph s_pid s_tid s_getk (mk_cfg types key glob) (empty sev) ops)).
