(* MpSync.v — layer B kernel: multi-AIU clock alignment on collectives (property C07).

   Code modelled (src/aiu_trace_analyzer/pipeline/mp_sync_tight.py, current tree):
     mp_sync_tight_v1 / MpSyncTightContext.mp_gather_events
                                   -> [gather] / [gather_all]   (every event is buffered (deep copy) in arrival order;
                                                                 an event with ph in ["X","b"], "args" and args.CollGroup
                                                                 registers its pid in proc_ids and, when pid == 0, its
                                                                 group name in coll_groups (first occurrence order);
                                                                 queues[(pid, group)] = those events in arrival order:
                                                                 [queue], a filter over the buffer)
     _has_many_allreduce_cgs / _remove_allgather_cgs / _ignore_allgather_when_possible
                                   -> [groups_used]             (keep only names containing "AllReduce" when there is
                                                                 at least one such name, otherwise keep all)
     _rank_contain_reduce_op / _mp_gather_info
                                   -> [tree_of]                 (any event of rank 0 in the first used group whose name
                                                                 contains "AllReduce_all_reduce"); NP = len(proc_ids)
     _get_list_DTS_end_of_coll     -> [group_end] / [ends]      (per used group the maximum of args.ts_dev[k] over the
                                                                 queue of (pid, group); sys.exit(1) when the queue
                                                                 does not exist -> Err "SystemExit"; a queued event
                                                                 without args.ts_dev -> Err "KeyError")
     _sync_mb_recv                 -> the [rows] part of [calibrate]: the mean-square error is computed with
                                                                 ndarray.mean() WITHOUT an axis, i.e. it is a scalar,
                                                                 so np.argmin of it is always 0: the receivers
                                                                 P_map[2..] are aligned to P_map[1] on the FIRST used
                                                                 group, whatever the data (quirk kept as is)
     sync_last_send_recv           -> [calibrate]               (diff = last-recv TS2 of P_map[1] - last-send TS5 of
                                                                 P_map[0] per group; np.argmin = first minimum
                                                                 [argmin]; tree: every P_map[1..] gets -min, chain:
                                                                 P_map[0] gets +min; reference event = the LAST event
                                                                 with maximal ts_dev[k0] in rank 0's queue of the
                                                                 argmin group ([lastmax]: stable sort, take [-1]),
                                                                 k0 = 4 (tree) or 1 (chain);
                                                                 dts_2_hts_ref_offset = ts + dur - ts_dev[k0])
     mp_calibrate_dts              -> P_map = identity (tree) or reversed (chain): [pm]
     _calib_dev_ts / mp_alter_event_ts
                                   -> [alter1]                  (for every buffered event, in order: e["args"] (KeyError
                                                                 without args); if "TS5" in args: ts_dev += dts_shifts[pid]
                                                                 (Python list indexing: negative pids wrap, others
                                                                 IndexError), ts_all = ts_dev + ref offset,
                                                                 ts = ts_all[get_opIds_from_event]; dur untouched)
     MpSyncTightContext.drain      -> [drain]                   (no action when no collective group or < 2 pids;
                                                                 events popped from the end of the buffer, then a
                                                                 stable sort by ts)
   src/aiu_trace_analyzer/pipeline/timesync.py:
     _match_opIds_from_event / get_opIds_from_event -> [op_id]  (first of " DmaI"," Cmpt Prep"," Cmpt Exec"," DmaO"
                                                                 contained in the name, else 0)
   Closed forms instead of in-place list updates: dts_shifts is built by [shift_pos] per position in P_map
   (position 0: sender, 1: first receiver, i >= 2: further receivers); the tie compares the resulting list
   with the context's dts_shifts attribute on every case.
   Not modelled: logging; numpy's float formatting; hash collisions of queue_hash (pids are small non-negative
   integers in the tie; hash((-1,g)) == hash((-2,g)) is outside the domain); events whose ts_dev has fewer than 5
   entries (IndexError branches exist so that the model is total).
   Numbers: pids/uids [Z]; host times, durations and microsecond device times [Q] (exact; the tie uses the exact
   grid where every double operation of the code is exact). *)
From Coq Require Import ZArith QArith List Bool String Ascii.
Import ListNotations.
From AiuModel Require Import Base.
Local Open Scope Z_scope.

Inductive res (A : Type) : Type := Ok (a : A) | Err (tag : string).
Arguments Ok {A} a.
Arguments Err {A} tag.

Definition bind {A B} (r : res A) (f : A -> res B) : res B :=
  match r with Ok a => f a | Err t => Err t end.

Fixpoint mapM {A B} (f : A -> res B) (l : list A) : res (list B) :=
  match l with
  | [] => Ok []
  | x :: r => bind (f x) (fun y => bind (mapM f r) (fun ys => Ok (y :: ys)))
  end.

(* ------------------------------------------------------------------ names *)
Definition chars (s : string) : list ascii := list_ascii_of_string s.

Fixpoint prefixb (p s : list ascii) : bool :=
  match p, s with
  | [], _ => true
  | a :: p', b :: s' => Ascii.eqb a b && prefixb p' s'
  | _ :: _, [] => false
  end.

Fixpoint containsb (p s : list ascii) : bool :=
  prefixb p s || match s with [] => false | _ :: s' => containsb p s' end.

(* Python: sub in s *)
Definition contains (sub s : string) : bool := containsb (chars sub) (chars s).

Definition op_keywords : list string := [" DmaI"; " Cmpt Prep"; " Cmpt Exec"; " DmaO"]%string.

Fixpoint first_kw (k : nat) (kws : list string) (name : string) : nat :=
  match kws with
  | [] => 0%nat
  | kw :: r => if contains kw name then k else first_kw (S k) r name
  end.

(* get_opIds_from_event *)
Definition op_id (name : string) : nat := first_kw 0 op_keywords name.

(* ------------------------------------------------------------------ events *)
Record args : Type := mkargs {
  a_cg  : option string;        (* args.CollGroup *)
  a_ts5 : bool;                 (* "TS5" in args *)
  a_dev : option (list Q);      (* args.ts_dev: TS1..TS5 / soc_frequency, microseconds *)
  a_all : option (list Q)       (* args.ts_all *)
}.

Record ev : Type := mkev {
  e_uid  : Z;
  e_ph   : bool;                (* ph in ["X", "b"] *)
  e_pid  : Z;
  e_name : string;
  e_ts   : Q;
  e_dur  : Q;
  e_args : option args          (* None: the event has no "args" key *)
}.

Definition set_times (e : ev) (ts : Q) (dev all : list Q) : ev :=
  mkev (e_uid e) (e_ph e) (e_pid e) (e_name e) ts (e_dur e)
       (match e_args e with
        | Some a => Some (mkargs (a_cg a) (a_ts5 a) (Some dev) (Some all))
        | None => None
        end).

(* the collective group an event is queued under, if any *)
Definition cg_of (e : ev) : option string :=
  if e_ph e then match e_args e with Some a => a_cg a | None => None end else None.

Definition has_ts5 (e : ev) : bool :=
  match e_args e with Some a => a_ts5 a | None => false end.

(* ------------------------------------------------------------------ gathering (the stage callback) *)
Record state : Type := mkst {
  all_events  : list ev;        (* arrival order *)
  proc_ids    : list Z;         (* dict keys, insertion order *)
  coll_groups : list string
}.

Definition st0 : state := mkst [] [] [].

Definition mem_z (x : Z) (l : list Z) : bool := existsb (Z.eqb x) l.
Definition mem_s (x : string) (l : list string) : bool := existsb (String.eqb x) l.

Definition add_pid (p : Z) (l : list Z) : list Z := if mem_z p l then l else l ++ [p].
Definition add_cg (p : Z) (g : string) (l : list string) : list string :=
  if (p =? 0) && negb (mem_s g l) then l ++ [g] else l.

Definition gather (s : state) (e : ev) : state :=
  match cg_of e with
  | Some g => mkst (all_events s ++ [e]) (add_pid (e_pid e) (proc_ids s)) (add_cg (e_pid e) g (coll_groups s))
  | None => mkst (all_events s ++ [e]) (proc_ids s) (coll_groups s)
  end.

Definition gather_all (es : list ev) : state := fold_left gather es st0.

Definition in_queue (pid : Z) (g : string) (e : ev) : bool :=
  match cg_of e with
  | Some g' => (e_pid e =? pid) && String.eqb g' g
  | None => false
  end.

Definition queue (es : list ev) (pid : Z) (g : string) : list ev := filter (in_queue pid g) es.

(* ------------------------------------------------------------------ calibration *)
Definition dev_at (k : nat) (e : ev) : res Q :=
  match e_args e with
  | Some a => match a_dev a with
              | Some l => match nth_error l k with Some x => Ok x | None => Err "IndexError" end
              | None => Err "KeyError"
              end
  | None => Err "KeyError"
  end.

Fixpoint maxl (x : Q) (l : list Q) : Q :=
  match l with [] => x | y :: r => maxl (Qmax x y) r end.

Definition group_end (es : list ev) (pid : Z) (k : nat) (g : string) : res Q :=
  match queue es pid g with
  | [] => Err "SystemExit"
  | e :: q => bind (dev_at k e) (fun x => bind (mapM (dev_at k) q) (fun l => Ok (maxl x l)))
  end.

Definition ends (es : list ev) (gs : list string) (pid : Z) (k : nat) : res (list Q) :=
  mapM (group_end es pid k) gs.

(* np.argmin: index and value of the first minimum *)
Fixpoint argmin_from (best : Q) (bi i : nat) (l : list Q) : nat * Q :=
  match l with
  | [] => (bi, best)
  | x :: r => if Qlt_b x best then argmin_from x i (S i) r else argmin_from best bi (S i) r
  end.

Definition argmin (l : list Q) : nat * Q :=
  match l with [] => (0%nat, 0%Q) | x :: r => argmin_from x 0 1 r end.

(* stable sort by key, take [-1]: the last event among those with the greatest key *)
Fixpoint lastmax (best : ev) (bk : Q) (l : list (Q * ev)) : ev :=
  match l with
  | [] => best
  | (k, e) :: r => if Qle_bool bk k then lastmax e k r else lastmax best bk r
  end.

Fixpoint map2 {A B C} (f : A -> B -> C) (l1 : list A) (l2 : list B) : list C :=
  match l1, l2 with
  | a :: r1, b :: r2 => f a b :: map2 f r1 r2
  | _, _ => []
  end.

Definition is_allreduce (g : string) : bool := contains "AllReduce" g.

Definition groups_used (cgs : list string) : list string :=
  if existsb is_allreduce cgs then filter is_allreduce cgs else cgs.

Definition is_reduce_op (e : ev) : bool := contains "AllReduce_all_reduce" (e_name e).

Definition tree_of (es : list ev) (gs : list string) : bool :=
  existsb is_reduce_op (queue es 0 (hd ""%string gs)).

(* P_map *)
Definition pm (tree : bool) (np i : nat) : Z :=
  if tree then Z.of_nat i else Z.of_nat (np - 1 - i).

Record calib : Type := mkcal {
  c_tree   : bool;
  c_idx    : nat;               (* index of the reference group (argmin) *)
  c_shifts : list Q;            (* dts_shifts, indexed by pid *)
  c_off    : Q                  (* dts_2_hts_ref_offset *)
}.

(* dts_shifts of the rank at position i of P_map *)
Definition shift_pos (tree : bool) (d : Q) (rows : list (list Q)) (i : nat) : Q :=
  match i with
  | O => if tree then 0%Q else d
  | S O => if tree then (- d)%Q else 0%Q
  | S j => let a := (- (hd 0%Q (nth j rows []) - hd 0%Q (hd [] rows)))%Q in
           if tree then (a - d)%Q else a
  end.

Definition pos_of (tree : bool) (np p : nat) : nat := if tree then p else (np - 1 - p)%nat.

Definition ref_event (es : list ev) (g : string) (k0 : nat) : res (ev * Q) :=
  match queue es 0 g with
  | [] => Err "IndexError"
  | e :: q =>
      bind (dev_at k0 e) (fun x =>
      bind (mapM (fun e' => bind (dev_at k0 e') (fun y => Ok (y, e'))) q) (fun l =>
      let r := lastmax e x l in
      bind (dev_at k0 r) (fun y => Ok (r, y))))
  end.

Definition calibrate (es : list ev) (np : nat) (cgs : list string) : res calib :=
  let gs := groups_used cgs in
  let tree := tree_of es gs in
  bind (if (2 <? np)%nat then mapM (fun i => ends es gs (pm tree np i) 1) (seq 1 (np - 1)) else Ok [])
       (fun rows0 =>
  bind (ends es gs (pm tree np 0) 4) (fun send =>
  bind (ends es gs (pm tree np 1) 1) (fun recv =>
  let diff := map2 Qminus recv send in
  let '(idx, d) := argmin diff in
  let rows := if (2 <? np)%nat then rows0 else [recv] in
  let shifts := map (fun p => shift_pos tree d rows (pos_of tree np p)) (seq 0 np) in
  let k0 := if tree then 4%nat else 1%nat in
  bind (ref_event es (nth idx gs ""%string) k0) (fun rk =>
  let '(r, y) := rk in
  (* the reference event is rank 0's: on the common clock its device time includes rank 0's own shift (fix C07) *)
  Ok (mkcal tree idx shifts (e_ts r + e_dur r - y - nth 0 shifts 0)%Q))))).

(* Python list indexing self.dts_shifts[pid] *)
Definition shift_at (sh : list Q) (pid : Z) : res Q :=
  let n := Z.of_nat (List.length sh) in
  if (0 <=? pid) && (pid <? n) then Ok (nth (Z.to_nat pid) sh 0%Q)
  else if (- n <=? pid) && (pid <? 0) then Ok (nth (Z.to_nat (n + pid)) sh 0%Q)
  else Err "IndexError".

Definition alter1 (c : calib) (e : ev) : res ev :=
  match e_args e with
  | None => Err "KeyError"
  | Some a =>
      if a_ts5 a then
        match a_dev a with
        | None => Err "KeyError"
        | Some dev =>
            bind (match dev with [] => Ok 0%Q | _ => shift_at (c_shifts c) (e_pid e) end) (fun s =>
            let dev' := map (fun x => (x + s)%Q) dev in
            let all' := map (fun x => (x + c_off c)%Q) dev' in
            match nth_error all' (op_id (e_name e)) with
            | None => Err "IndexError"
            | Some t => Ok (set_times e t dev' all')
            end)
        end
      else Ok e
  end.

(* ------------------------------------------------------------------ drain *)
Definition is_nil {A} (l : list A) : bool := match l with [] => true | _ => false end.

Definition active (s : state) : bool :=
  negb (is_nil (coll_groups s)) && (1 <? List.length (proc_ids s))%nat.

Definition ts_leb (a b : ev) : bool := Qle_bool (e_ts a) (e_ts b).

(* all_events.pop() until empty = reversed buffer; list.sort(key=ts) = stable sort *)
Definition emit (es : list ev) : list ev := isort ts_leb (rev es).

Definition calib_of (s : state) : res calib :=
  calibrate (all_events s) (List.length (proc_ids s)) (coll_groups s).

Definition drain (s : state) : res (list ev) :=
  if active s then
    bind (calib_of s) (fun c => bind (mapM (alter1 c) (all_events s)) (fun es' => Ok (emit es')))
  else Ok (emit (all_events s)).

(* the whole stage on a whole stream: callbacks return [], the drain returns everything *)
Definition mp_run (es : list ev) : res (list ev) := drain (gather_all es).

(* ------------------------------------------------------------------ vocabulary of the property statements *)
Definition dev_of (e : ev) : option (list Q) := match e_args e with Some a => a_dev a | None => None end.
Definition all_of (e : ev) : option (list Q) := match e_args e with Some a => a_all a | None => None end.

(* the cycle shift (in microseconds) and the placement offset of a rank under a calibration *)
Definition shift_of (c : calib) (pid : Z) : Q :=
  match shift_at (c_shifts c) pid with Ok s => s | Err _ => 0%Q end.
Definition off (c : calib) (pid : Z) : Q := (shift_of c pid + c_off c)%Q.

(* how one buffered event e comes out (e') under calibration c *)
Definition placed (c : calib) (e e' : ev) : Prop :=
  if has_ts5 e then
    exists dev t,
      dev_of e = Some dev /\ nth_error dev (op_id (e_name e)) = Some t /\
      (e_ts e' == t + off c (e_pid e))%Q /\
      e_dur e' = e_dur e /\ e_uid e' = e_uid e /\ e_pid e' = e_pid e /\ e_name e' = e_name e /\
      e_ph e' = e_ph e /\ cg_of e' = cg_of e /\ has_ts5 e' = true /\
      dev_of e' = Some (map (fun x => (x + shift_of c (e_pid e))%Q) dev) /\
      all_of e' = Some (map (fun x => (x + shift_of c (e_pid e) + c_off c)%Q) dev)
  else e' = e.

(* the first-group flag that selects the tree branch, as a function of the input stream *)
Definition tree_es (es : list ev) : bool :=
  tree_of es (groups_used (coll_groups (gather_all es))).

(* what the export can see of a drained event: identity, placement, duration, the wall-clock TS1..TS5 *)
Definition qlist_eq (l m : list Q) : Prop := Forall2 Qeq l m.
Definition oq_eq (a b : option (list Q)) : Prop :=
  match a, b with Some l, Some m => qlist_eq l m | None, None => True | _, _ => False end.
Definition same_view (a b : ev) : Prop :=
  e_uid a = e_uid b /\ e_pid a = e_pid b /\ e_name a = e_name b /\ e_ph a = e_ph b /\
  (e_ts a == e_ts b)%Q /\ e_dur a = e_dur b /\ cg_of a = cg_of b /\ has_ts5 a = has_ts5 b /\
  oq_eq (all_of a) (all_of b).

(* ------------------------------------------------------------------ the transformation of the epoch theorem *)
(* add c(pid) to every microsecond device time of an event (its rank's counters were offset by c(pid)*f cycles) *)
Definition bump (c : Z -> Q) (e : ev) : ev :=
  mkev (e_uid e) (e_ph e) (e_pid e) (e_name e) (e_ts e) (e_dur e)
       (match e_args e with
        | Some a => Some (mkargs (a_cg a) (a_ts5 a)
                                 (match a_dev a with
                                  | Some l => Some (map (fun x => (x + c (e_pid e))%Q) l)
                                  | None => None
                                  end)
                                 (a_all a))
        | None => None
        end).

(* ------------------------------------------------------------------ val encoders for the tie *)
Definition oq_val (o : option (list Q)) : val := match o with Some l => VLq l | None => VN end.

Definition ev_val (e : ev) : val :=
  VL [VZ (e_uid e); VQ (e_ts e); VQ (e_dur e);
      match e_args e with Some a => oq_val (a_dev a) | None => VN end;
      match e_args e with Some a => oq_val (a_all a) | None => VN end].

Definition calib_val (c : calib) : val := VL [VB (c_tree c); VLq (c_shifts c); VQ (c_off c)].

(* what the harness records: [calibration or None; drained events] or the exception *)
Definition run_val (es : list ev) : val :=
  let s := gather_all es in
  match drain s with
  | Err t => VE t
  | Ok out =>
      VL [ (if active s then match calib_of s with Ok c => calib_val c | Err t => VE t end else VN);
           VL (map ev_val out) ]
  end.

(* names tie: "AllReduce" in g, "AllReduce_all_reduce" in name, get_opIds_from_event *)
Definition names_val (s : string) : val :=
  VL [VB (is_allreduce s); VB (contains "AllReduce_all_reduce" s); VZ (Z.of_nat (op_id s))].

(* rule for distinct_nontrivial, evaluated inside Coq: >= 2 ranks, >= 1 group, calibration succeeded *)
Definition nontrivial (es : list ev) : bool :=
  let s := gather_all es in
  active s && match drain s with Ok _ => true | Err _ => false end.
