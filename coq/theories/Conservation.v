(* Conservation.v — layer A: the pipeline mechanics of EventProcessor (process / drain, contexts shared by
   several stages, the shared barrier) never lose, duplicate or invent an accounted item.

   Setting: every event carries a (possibly empty) list of keys [keyl e] (the uid of a slice); every context
   state accounts for the keys it currently withholds ([hld s]) and, as ghost state, for the keys its stages
   have deliberately discarded so far ([led s], the "ledger" of documented drops).  A stage obeys the local
   law if each callback invocation and each drain balances:
        keys returned + keys held after + ledger after  =  keys received + keys held before + ledger before
   (counted per key).  NO well-formedness of the stage graph is required: contexts may be shared by any
   number of stages at any positions (normalize phase 1/2, overlap tids/events, categorizer, launch flows,
   the module-level barrier ...).  The theorem is about the operational model [inputs]/[drain] of Pipeline.v,
   i.e. about Engine.run. *)
From Coq Require Import List Arith Lia Bool.
Import ListNotations.
From AiuModel Require Import Pipeline.
Set Implicit Arguments.

Section Conservation.
Variables E St U : Type.
Variable ueq : forall a b : U, {a = b} + {a <> b}.
Variable keyl : E -> list U.
Variable hld : St -> list U.
Variable led : St -> list U.
Variable u : U.                      (* everything is counted for one arbitrary key *)

Definition cnt (l : list U) : nat := count_occ ueq l u.
Definition keys (l : list E) : list U := flat_map keyl l.
Definition acc (s : St) : nat := cnt (hld s) + cnt (led s).

Lemma cnt_app a b : cnt (a ++ b) = cnt a + cnt b.
Proof. unfold cnt. apply count_occ_app. Qed.
Lemma keys_app a b : keys (a ++ b) = keys a ++ keys b.
Proof. unfold keys. apply flat_map_app. Qed.

Definition cb_law (g : stage E St) : Prop :=
  forall s e, cnt (keys (snd (cb g s e))) + acc (fst (cb g s e)) = cnt (keyl e) + acc s.
Definition dr_law (g : stage E St) : Prop :=
  forall s, cnt (keys (snd (dr g s))) + acc (fst (dr g s)) = acc s.

(* potential of the store over a duplicate-free list of cells that covers the pipeline *)
Fixpoint phi (cs : list nat) (st : store St) : nat :=
  match cs with [] => 0 | c :: r => acc (st c) + phi r st end.

Lemma phi_upd_notin cs : forall st c s, ~ In c cs -> phi cs (upd st c s) = phi cs st.
Proof.
  induction cs as [|x cs IH]; intros st c s H; [reflexivity|]. cbn [phi].
  rewrite IH by (intro; apply H; now right). unfold upd at 1.
  destruct (Nat.eqb_spec c x); [exfalso; apply H; now left|reflexivity].
Qed.
Lemma phi_upd cs : forall st c s, NoDup cs -> In c cs -> phi cs (upd st c s) + acc (st c) = phi cs st + acc s.
Proof.
  induction cs as [|x cs IH]; intros st c s Hn Hi; [destruct Hi|]. inversion Hn as [|? ? Hx Hn']; subst.
  cbn [phi]. destruct (Nat.eq_dec c x) as [->|Hne].
  - rewrite phi_upd_notin by assumption. unfold upd. rewrite Nat.eqb_refl. lia.
  - destruct Hi as [->|Hi]; [congruence|]. specialize (IH st c s Hn' Hi).
    unfold upd at 1. destruct (Nat.eqb_spec c x); [congruence|]. lia.
Qed.

Section WithCells.
Variable cs : list nat.
Hypothesis cs_nodup : NoDup cs.

Lemma feedc_cons g : cb_law g -> forall es s,
  cnt (keys (snd (feedc g s es))) + acc (fst (feedc g s es)) = cnt (keys es) + acc s.
Proof.
  intros L. induction es as [|e r IH]; intros s; cbn [feedc]; [reflexivity|].
  specialize (L s e). destruct (cb g s e) as [s1 o]. cbn [fst snd] in L.
  specialize (IH s1). destruct (feedc g s1 r) as [s2 o2]. cbn [fst snd] in *.
  cbn [keys flat_map]. fold (keys r). rewrite keys_app, !cnt_app. lia.
Qed.

Lemma feed_cons g : cb_law g -> In (cid g) cs -> forall st es,
  cnt (keys (snd (feed g st es))) + phi cs (fst (feed g st es)) = cnt (keys es) + phi cs st.
Proof.
  intros L Hi st es. unfold feed. pose proof (feedc_cons L es (st (cid g))) as H.
  destruct (feedc g (st (cid g)) es) as [s o]. cbn [fst snd] in *.
  pose proof (@phi_upd cs st (cid g) s cs_nodup Hi). lia.
Qed.

Lemma through_cons gs : Forall cb_law gs -> Forall (fun g => In (cid g) cs) gs -> forall st es,
  cnt (keys (snd (through gs st es))) + phi cs (fst (through gs st es)) = cnt (keys es) + phi cs st.
Proof.
  induction gs as [|g r IH]; intros HL HC st es; cbn [through]; [reflexivity|].
  inversion HL; inversion HC; subst.
  pose proof (@feed_cons g H1 H5 st es) as H. destruct (feed g st es) as [st1 o]. cbn [fst snd] in H.
  specialize (IH H2 H6 st1 o). lia.
Qed.

Lemma inputs_cons gs : Forall cb_law gs -> Forall (fun g => In (cid g) cs) gs -> forall es st,
  cnt (keys (snd (inputs gs st es))) + phi cs (fst (inputs gs st es)) = cnt (keys es) + phi cs st.
Proof.
  intros HL HC. induction es as [|e r IH]; intros st; cbn [inputs]; [reflexivity|].
  pose proof (through_cons HL HC st [e]) as H. destruct (through gs st [e]) as [st1 o]. cbn [fst snd] in H.
  specialize (IH st1). destruct (inputs gs st1 r) as [st2 o2]. cbn [fst snd] in *.
  rewrite keys_app, cnt_app. cbn [keys flat_map] in *. rewrite app_nil_r in H. fold (keys r). rewrite cnt_app. lia.
Qed.

Lemma drain_cons gs : Forall cb_law gs -> Forall dr_law gs -> Forall (fun g => In (cid g) cs) gs -> forall st,
  cnt (keys (snd (drain gs st))) + phi cs (fst (drain gs st)) = phi cs st.
Proof.
  induction gs as [|g r IH]; intros HL HD HC st; cbn [drain]; [reflexivity|].
  inversion HL; inversion HD; inversion HC; subst.
  pose proof (H5 (st (cid g))) as Hd. destruct (dr g (st (cid g))) as [s' pend]. cbn [fst snd] in Hd.
  pose proof (inputs_cons H2 H10 pend (upd st (cid g) s')) as Hi.
  destruct (inputs r (upd st (cid g) s') pend) as [st1 o1]. cbn [fst snd] in Hi.
  specialize (IH H2 H6 H10 st1). destruct (drain r st1) as [st2 o2]. cbn [fst snd] in *.
  pose proof (@phi_upd cs st (cid g) s' cs_nodup H9). rewrite keys_app, cnt_app. lia.
Qed.

(* Engine.run: everything that came in is either exported or still accounted for in some context *)
Theorem run_conservation gs st es :
  Forall cb_law gs -> Forall dr_law gs -> Forall (fun g => In (cid g) cs) gs ->
  let '(st1, o1) := inputs gs st es in
  let '(st2, o2) := drain gs st1 in
  cnt (keys (o1 ++ o2)) + phi cs st2 = cnt (keys es) + phi cs st.
Proof.
  intros HL HD HC. pose proof (inputs_cons HL HC es st) as Hi.
  destruct (inputs gs st es) as [st1 o1]. cbn [fst snd] in Hi.
  pose proof (drain_cons HL HD HC st1) as Hd. destruct (drain gs st1) as [st2 o2]. cbn [fst snd] in Hd.
  rewrite keys_app, cnt_app. lia.
Qed.
End WithCells.

(* ---- after the drain nothing is withheld any more: every context's drain hands back all it holds ---- *)
Definition dr_empties (g : stage E St) : Prop := forall s, hld (fst (dr g s)) = [].

Lemma feed_frame (g : stage E St) st es i : i <> cid g -> fst (feed g st es) i = st i.
Proof.
  intros H. unfold feed. destruct (feedc g (st (cid g)) es) as [s o]. cbn [fst]. unfold upd.
  destruct (Nat.eqb_spec (cid g) i); [congruence|reflexivity].
Qed.
Lemma through_frame' (gs : list (stage E St)) : forall st es i, ~ In i (map (@cid E St) gs) -> fst (through gs st es) i = st i.
Proof.
  induction gs as [|g r IH]; intros st es i H; cbn [through]; [reflexivity|].
  pose proof (@feed_frame g st es i) as Hf. destruct (feed g st es) as [st1 o]. cbn [fst] in Hf.
  rewrite IH by (intro; apply H; now right). apply Hf. intro; apply H; left; congruence.
Qed.
Lemma inputs_frame (gs : list (stage E St)) : forall es st i, ~ In i (map (@cid E St) gs) -> fst (inputs gs st es) i = st i.
Proof.
  induction es as [|e r IH]; intros st i H; cbn [inputs]; [reflexivity|].
  pose proof (@through_frame' gs st [e] i H) as Ht. destruct (through gs st [e]) as [st1 o]. cbn [fst] in Ht.
  specialize (IH st1 i H). destruct (inputs gs st1 r) as [st2 o2]. cbn [fst] in *. congruence.
Qed.
Lemma drain_frame (gs : list (stage E St)) : forall st i, ~ In i (map (@cid E St) gs) -> fst (drain gs st) i = st i.
Proof.
  induction gs as [|g r IH]; intros st i H; cbn [drain]; [reflexivity|].
  destruct (dr g (st (cid g))) as [s' pend].
  pose proof (@inputs_frame r pend (upd st (cid g) s') i) as Hi.
  destruct (inputs r (upd st (cid g) s') pend) as [st1 o1]. cbn [fst] in Hi.
  specialize (IH st1 i). destruct (drain r st1) as [st2 o2]. cbn [fst] in *.
  rewrite IH by (intro; apply H; now right). rewrite Hi by (intro; apply H; now right).
  unfold upd. destruct (Nat.eqb_spec (cid g) i); [exfalso; apply H; left; assumption|reflexivity].
Qed.

Theorem drain_leaves_nothing gs : Forall dr_empties gs -> forall st g,
  In g gs -> hld (fst (drain gs st) (cid g)) = [].
Proof.
  induction gs as [|g0 r IH]; intros HE st g Hin; [destruct Hin|]. inversion HE as [|? ? He HE']; subst.
  cbn [drain]. pose proof (He (st (cid g0))) as Hd. destruct (dr g0 (st (cid g0))) as [s' pend]. cbn [fst] in Hd.
  pose proof (@inputs_frame r pend (upd st (cid g0) s')) as Hi.
  destruct (inputs r (upd st (cid g0) s') pend) as [st1 o1]. cbn [fst] in Hi.
  pose proof (IH HE' st1) as IH1. pose proof (@drain_frame r st1) as Hf.
  destruct (drain r st1) as [st2 o2]. cbn [fst] in *.
  destruct (in_dec Nat.eq_dec (cid g) (map (@cid E St) r)) as [Hc|Hc].
  - apply in_map_iff in Hc. destruct Hc as (g' & Hg' & Hin'). rewrite <- Hg'. now apply IH1.
  - rewrite Hf by assumption. rewrite Hi by assumption.
    destruct Hin as [->|Hin]; [|exfalso; apply Hc; now apply in_map].
    unfold upd. rewrite Nat.eqb_refl. exact Hd.
Qed.
End Conservation.
