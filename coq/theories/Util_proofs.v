(* Util_proofs.v — lemmas about the PT-utilization model (Util.v) used by props/C11.v.
   Everything is about the definitions the tie executes (step2, phase2, accumulate, csv_rows, run_tbl). *)
From Coq Require Import ZArith QArith Qabs Qround List Bool String Lia Lqa Permutation Sorted Setoid Morphisms.
Import ListNotations.
From AiuModel Require Import Base Util.
Local Open Scope Q_scope.

(* ------------------------------------------------------------------ booleans on Q *)
Lemma Qlt_b_true a b : Qlt_b a b = true <-> a < b.
Proof.
  unfold Qlt_b. rewrite negb_true_iff. split.
  - intros H. apply Qnot_le_lt. intro L. apply Qle_bool_iff in L. congruence.
  - intros H. destruct (Qle_bool b a) eqn:E; auto. apply Qle_bool_iff in E. lra.
Qed.

Lemma Qlt_b_false a b : Qlt_b a b = false <-> b <= a.
Proof.
  unfold Qlt_b. rewrite negb_false_iff. apply Qle_bool_iff.
Qed.

Lemma near0_false_pos d : 0 < d -> near0 d = false <-> tol9 < d.
Proof.
  intros Hd. unfold near0. rewrite Qabs_pos by lra. split.
  - intros H. apply Qnot_le_lt. intro L. apply Qle_bool_iff in L. congruence.
  - intros H. destruct (Qle_bool d tol9) eqn:E; auto. apply Qle_bool_iff in E. lra.
Qed.

Lemma tol9_pos : 0 < tol9.
Proof. reflexivity. Qed.

(* ------------------------------------------------------------------ utilization value *)
Lemma util_spec ideal dur :
  near0 dur = false -> util ideal dur == Qmin 1 (Qabs (ideal / dur)).
Proof.
  intros H. unfold util. rewrite H. unfold Qmin.
  destruct (Qlt_b 1 (Qabs (ideal / dur))) eqn:E; destruct (Qle_bool 1 (Qabs (ideal / dur))) eqn:F;
    try reflexivity.
  - apply Qlt_b_true in E. destruct (Qle_bool 1 (Qabs (ideal / dur))) eqn:G; try discriminate.
    exfalso. assert (1 <= Qabs (ideal / dur)) by lra. apply Qle_bool_iff in H0. congruence.
  - apply Qlt_b_false in E. apply Qle_bool_iff in F. lra.
Qed.

Lemma util_near0 ideal dur : near0 dur = true -> util ideal dur = 0.
Proof. intros H. unfold util. rewrite H. reflexivity. Qed.

Lemma util_range ideal dur : 0 <= util ideal dur /\ util ideal dur <= 1.
Proof.
  unfold util. destruct (near0 dur).
  - cbn. split; lra.
  - destruct (Qlt_b 1 (Qabs (ideal / dur))) eqn:E.
    + split; lra.
    + apply Qlt_b_false in E. split; [apply Qabs_nonneg | exact E].
Qed.

(* the statement of the property: positive duration above the isclose cut-off, non-negative cycles *)
Lemma util_property core cyc dur :
  0 < core -> (0 <= cyc)%Z -> tol9 < dur ->
  util (ideal_dur core cyc) dur == Qmin 1 ((inject_Z cyc / core) / dur).
Proof.
  intros Hc Hz Hd. assert (Hd0 : 0 < dur) by (pose proof tol9_pos; lra).
  rewrite util_spec by (apply near0_false_pos; assumption).
  assert (E : ideal_dur core cyc / dur == inject_Z cyc / core / dur).
  { unfold ideal_dur. field. split; lra. }
  assert (P : 0 <= inject_Z cyc / core / dur).
  { assert (0 <= inject_Z cyc) by (change (inject_Z 0 <= inject_Z cyc); rewrite <- Zle_Qle; exact Hz).
    apply Qle_shift_div_l; [exact Hd0|]. rewrite Qmult_0_l.
    apply Qle_shift_div_l; [exact Hc|]. rewrite Qmult_0_l. exact H. }
  assert (A : Qabs (ideal_dur core cyc / dur) == inject_Z cyc / core / dur).
  { rewrite E. apply Qabs_pos. exact P. }
  unfold Qmin.
  destruct (Qle_bool 1 (Qabs (ideal_dur core cyc / dur))) eqn:F1;
    destruct (Qle_bool 1 (inject_Z cyc / core / dur)) eqn:F2; try reflexivity; try exact A.
  - apply Qle_bool_iff in F1. rewrite A in F1. apply Qle_bool_iff in F1. congruence.
  - apply Qle_bool_iff in F2. rewrite <- A in F2. apply Qle_bool_iff in F2. congruence.
Qed.

Lemma ideal_dur_zero core : ideal_dur core 0 == 0.
Proof. unfold ideal_dur. cbn. ring. Qed.

Lemma util_zero_cycles core dur : util (ideal_dur core 0) dur == 0.
Proof.
  unfold util. destruct (near0 dur); [reflexivity|].
  assert (A : Qabs (ideal_dur core 0 / dur) == 0).
  { assert (E : ideal_dur core 0 / dur == 0) by (unfold Qdiv; rewrite ideal_dur_zero; ring).
    rewrite E. reflexivity. }
  destruct (Qlt_b 1 (Qabs (ideal_dur core 0 / dur))) eqn:E.
  - apply Qlt_b_true in E. rewrite A in E. lra.
  - exact A.
Qed.

(* pt_active is present iff the kernel has non-zero cycles (and the slice a usable duration) *)
Lemma util_pos_iff core cyc dur :
  0 < core -> (0 < util (ideal_dur core cyc) dur <-> cyc <> 0%Z /\ near0 dur = false).
Proof.
  intros Hc. split.
  - intros H. split.
    + intros ->. rewrite util_zero_cycles in H. lra.
    + destruct (near0 dur) eqn:E; auto. rewrite util_near0 in H by exact E. lra.
  - intros [Hz Hn]. rewrite util_spec by exact Hn. unfold Qmin.
    destruct (Qle_bool 1 (Qabs (ideal_dur core cyc / dur))); [lra|].
    assert (Hd : ~ dur == 0).
    { intro E. unfold near0 in Hn. rewrite E in Hn. cbn in Hn. discriminate. }
    assert (Hi : ~ ideal_dur core cyc == 0).
    { unfold ideal_dur. intro E. apply Hz.
      assert (inject_Z cyc == 0).
      { setoid_replace (inject_Z cyc) with (inject_Z cyc * (1 / core) * core) by (field; lra).
        rewrite E. ring. }
      unfold Qeq in H. cbn in H. lia. }
    assert (Hq : ~ ideal_dur core cyc / dur == 0).
    { intro E. apply Hi.
      setoid_replace (ideal_dur core cyc) with (ideal_dur core cyc / dur * dur) by (field; exact Hd).
      rewrite E. ring. }
    apply Qabs_case; intros L.
    + apply Qle_lteq in L. destruct L as [L|L]; [exact L|]. exfalso. apply Hq. symmetry. exact L.
    + apply Qle_lteq in L. destruct L as [L|L]; [lra|]. exfalso. apply Hq. exact L.
Qed.

(* ------------------------------------------------------------------ one event through compute_utilization *)
Lemma step2_pass sb core t st e : is_kernel e = false -> step2 sb core t st e = (st, [OPass e]).
Proof. intros H. unfold step2. rewrite H. reflexivity. Qed.

Definition kernel_out (sb : bool) (core : Q) (t : tbl) (e : uev) : list oev :=
  let k := kernel_name e in
  let u := util (ideal_dur core (get_cycles t k)) (u_dur e) in
  OKern e (if Qlt_b 0 u then Some u else None) (cat_of t k) :: counters sb e (u * 100).

Lemma step2_kernel sb core t st e :
  is_kernel e = true ->
  step2 sb core t st e =
    (accumulate t st (u_pid e) (kernel_name e) (ideal_dur core (get_cycles t (kernel_name e))) (u_dur e),
     kernel_out sb core t e).
Proof. intros H. unfold step2, kernel_out. rewrite H. reflexivity. Qed.

(* what one event contributes to the output, independent of the accumulated state *)
Definition out_of (sb : bool) (core : Q) (t : tbl) (e : uev) : list oev :=
  if is_kernel e then kernel_out sb core t e else [OPass e].

Lemma step2_out sb core t st e : snd (step2 sb core t st e) = out_of sb core t e.
Proof.
  unfold out_of. destruct (is_kernel e) eqn:H.
  - rewrite step2_kernel by exact H. reflexivity.
  - rewrite step2_pass by exact H. reflexivity.
Qed.

Lemma phase2_out sb core t es : forall st, snd (phase2 sb core t st es) = flat_map (out_of sb core t) es.
Proof.
  induction es as [|e r IH]; intros st; cbn [phase2 flat_map]; [reflexivity|].
  destruct (step2 sb core t st e) as [st1 o1] eqn:E1.
  specialize (IH st1). destruct (phase2 sb core t st1 r) as [st2 o2] eqn:E2. cbn in *.
  rewrite <- IH. f_equal. change o1 with (snd (st1, o1)). rewrite <- E1. apply step2_out.
Qed.

Lemma phase2_state_cons sb core t st e r :
  fst (phase2 sb core t st (e :: r)) = fst (phase2 sb core t (fst (step2 sb core t st e)) r).
Proof.
  cbn [phase2]. destruct (step2 sb core t st e) as [st1 o1]. cbn.
  destruct (phase2 sb core t st1 r) as [st2 o2]. reflexivity.
Qed.

(* counters of a kernel slice: value 100*u at ts (with the helper dur only for calculate_stats);
   0 at ts+dur iff 100*u > 0; without the statistics stage no counter at all for 100*u <= 0 *)
Lemma counters_pos sb e v : 0 < v ->
  counters sb e v = [OCnt (u_pid e) (u_ts e) v (if sb then Some (u_dur e) else None);
                     OCnt (u_pid e) (u_ts e + u_dur e) 0 None].
Proof. intros H. unfold counters. apply Qlt_b_true in H. rewrite H. destruct sb; reflexivity. Qed.

Lemma counters_zero sb e v : v <= 0 ->
  counters sb e v = if sb then [OCnt (u_pid e) (u_ts e) v (Some (u_dur e))] else [].
Proof. intros H. unfold counters. apply Qlt_b_false in H. rewrite H. destruct sb; reflexivity. Qed.

(* the complete output of a kernel slice, utilisation u > 0 *)
Lemma kernel_out_active sb core t e :
  let u := util (ideal_dur core (get_cycles t (kernel_name e))) (u_dur e) in
  0 < u ->
  kernel_out sb core t e =
    [OKern e (Some u) (cat_of t (kernel_name e));
     OCnt (u_pid e) (u_ts e) (u * 100) (if sb then Some (u_dur e) else None);
     OCnt (u_pid e) (u_ts e + u_dur e) 0 None].
Proof.
  intros u H. unfold kernel_out. fold u. rewrite counters_pos by lra.
  apply Qlt_b_true in H. rewrite H. reflexivity.
Qed.

Lemma kernel_out_idle sb core t e :
  let u := util (ideal_dur core (get_cycles t (kernel_name e))) (u_dur e) in
  u <= 0 ->
  kernel_out sb core t e =
    OKern e None (cat_of t (kernel_name e)) ::
    (if sb then [OCnt (u_pid e) (u_ts e) (u * 100) (Some (u_dur e))] else []).
Proof.
  intros u H. unfold kernel_out. fold u. rewrite counters_zero by lra.
  apply Qlt_b_false in H. rewrite H. reflexivity.
Qed.

(* after calculate_stats' counter rule *)
Lemma stats_active core t e :
  let u := util (ideal_dur core (get_cycles t (kernel_name e))) (u_dur e) in
  tol9 < u * 100 ->
  flat_map stats_rule (kernel_out true core t e) =
    [OKern e (Some u) (cat_of t (kernel_name e));
     OCnt (u_pid e) (u_ts e) (u * 100) None;
     OCnt (u_pid e) (u_ts e + u_dur e) 0 None].
Proof.
  intros u H. pose proof tol9_pos as T. rewrite kernel_out_active by (fold u; lra). fold u.
  cbn [flat_map stats_rule app].
  assert (N : near0 (u * 100) = false) by (apply near0_false_pos; lra).
  rewrite N. reflexivity.
Qed.

Lemma stats_idle core t e :
  let u := util (ideal_dur core (get_cycles t (kernel_name e))) (u_dur e) in
  u <= 0 ->
  flat_map stats_rule (kernel_out true core t e) = [OKern e None (cat_of t (kernel_name e))].
Proof.
  intros u H. rewrite kernel_out_idle by (fold u; exact H). fold u.
  cbn [flat_map stats_rule app].
  assert (Z0 : u == 0) by (pose proof (util_range (ideal_dur core (get_cycles t (kernel_name e))) (u_dur e)); fold u in H0; lra).
  assert (N : near0 (u * 100) = true).
  { unfold near0. apply Qle_bool_iff.
    assert (E : u * 100 == 0) by (rewrite Z0; ring). rewrite E. cbn. discriminate. }
  rewrite N. reflexivity.
Qed.

(* without the statistics stage (-t): the same three events for an active slice, the bare slice for an idle one *)
Lemma nostats_active core t e :
  let u := util (ideal_dur core (get_cycles t (kernel_name e))) (u_dur e) in
  0 < u ->
  kernel_out false core t e =
    [OKern e (Some u) (cat_of t (kernel_name e));
     OCnt (u_pid e) (u_ts e) (u * 100) None;
     OCnt (u_pid e) (u_ts e + u_dur e) 0 None].
Proof. intros u H. exact (kernel_out_active false core t e H). Qed.

Lemma nostats_idle core t e :
  let u := util (ideal_dur core (get_cycles t (kernel_name e))) (u_dur e) in
  u <= 0 ->
  kernel_out false core t e = [OKern e None (cat_of t (kernel_name e))].
Proof. intros u H. exact (kernel_out_idle false core t e H). Qed.

Lemma stats_rule_pass e : stats_rule (OPass e) = [OPass e].
Proof. reflexivity. Qed.

(* ------------------------------------------------------------------ triples *)
Definition teq (x y : triple) : Prop :=
  fst (fst x) == fst (fst y) /\ snd (fst x) == snd (fst y) /\ snd x = snd y.
Definition tplus (x y : triple) : triple :=
  (fst (fst x) + fst (fst y), snd (fst x) + snd (fst y), (snd x + snd y)%Z).

Lemma teq_refl x : teq x x.
Proof. unfold teq. repeat split; reflexivity. Qed.
Lemma teq_sym x y : teq x y -> teq y x.
Proof. unfold teq. intros (A & B & C). repeat split; symmetry; assumption. Qed.
Lemma teq_trans x y z : teq x y -> teq y z -> teq x z.
Proof. unfold teq. intros (A & B & C) (D & E & F). repeat split; etransitivity; eassumption. Qed.
Add Parametric Relation : triple teq
  reflexivity proved by teq_refl symmetry proved by teq_sym transitivity proved by teq_trans as teq_rel.
Add Parametric Morphism : tplus with signature teq ==> teq ==> teq as tplus_mor.
Proof.
  unfold teq, tplus. intros x y (A & B & C) u v (D & E & F). cbn.
  repeat split; [rewrite A, D|rewrite B, E|rewrite C, F]; reflexivity.
Qed.
Lemma tplus_comm x y : teq (tplus x y) (tplus y x).
Proof. unfold teq, tplus. cbn [fst snd]. repeat split; try ring; try lia. Qed.
Lemma tplus_assoc x y z : teq (tplus x (tplus y z)) (tplus (tplus x y) z).
Proof. unfold teq, tplus. cbn [fst snd]. repeat split; try ring; try lia. Qed.
Lemma tplus_zero_l x : teq (tplus tzero x) x.
Proof. unfold teq, tplus, tzero. cbn [fst snd]. repeat split; try ring; try lia. Qed.
Lemma tplus_zero_r x : teq (tplus x tzero) x.
Proof. unfold teq, tplus, tzero. cbn [fst snd]. repeat split; try ring; try lia. Qed.
Lemma tadd_tplus d i x : teq (tadd d i x) (tplus (d, i, 1%Z) x).
Proof. destruct x as [[a b] n]. unfold teq, tplus, tadd. cbn [fst snd]. repeat split; try ring; try lia. Qed.

(* ------------------------------------------------------------------ dictionaries *)
Definition keys {V : Type} (d : list (string * V)) : list string := map fst d.
Definition tget (d : cattab) (c : string) : triple :=
  match alookup c d with Some x => x | None => tzero end.
Definition cget (st : cats) (p : Z) (c : string) : triple :=
  match zlookup p st with Some d => tget d c | None => tzero end.

Lemma alookup_none_iff {V} (k : string) (d : list (string * V)) : alookup k d = None <-> ~ In k (keys d).
Proof.
  induction d as [|[k' v] r IH]; cbn; [tauto|].
  destruct (String.eqb k k') eqn:E.
  - apply String.eqb_eq in E. subst. split; [discriminate|]. intros H. exfalso. apply H. now left.
  - apply String.eqb_neq in E. rewrite IH. split.
    + intros H [F|F]; [congruence|contradiction].
    + intros H F. apply H. now right.
Qed.

Lemma amem_iff {V} (k : string) (d : list (string * V)) : amem k d = true <-> In k (keys d).
Proof.
  unfold amem. destruct (alookup k d) eqn:E.
  - split; [|reflexivity]. intros _. destruct (in_dec string_dec k (keys d)) as [H|H]; [exact H|].
    apply alookup_none_iff in H. congruence.
  - split; [discriminate|]. intros H. apply alookup_none_iff in E. contradiction.
Qed.

Lemma alookup_in_snd {V} (k : string) (d : list (string * V)) v : alookup k d = Some v -> In v (map snd d).
Proof.
  induction d as [|[k' v'] r IH]; cbn; [discriminate|].
  destruct (String.eqb k k'); [intros [= ->]; now left | intros H; right; auto].
Qed.

Lemma keys_aupdate {V} k (f : V -> V) d : keys (aupdate k f d) = keys d.
Proof.
  induction d as [|[k' v] r IH]; cbn; [reflexivity|].
  destruct (String.eqb k k'); cbn; [reflexivity|]. unfold keys in IH. now rewrite IH.
Qed.

Lemma alookup_aupdate {V} k (f : V -> V) d c :
  alookup c (aupdate k f d) = if String.eqb c k then option_map f (alookup c d) else alookup c d.
Proof.
  induction d as [|[k' v] r IH]; cbn.
  - destruct (String.eqb c k); reflexivity.
  - destruct (String.eqb k k') eqn:E1.
    + apply String.eqb_eq in E1. subst k'. cbn. destruct (String.eqb c k); reflexivity.
    + cbn. destruct (String.eqb c k') eqn:E2.
      * apply String.eqb_eq in E2. subst k'.
        rewrite String.eqb_sym in E1. rewrite E1. reflexivity.
      * exact IH.
Qed.

Lemma tget_aupdate k f d c :
  In k (keys d) ->
  tget (aupdate k f d) c = if String.eqb c k then f (tget d c) else tget d c.
Proof.
  intros H. unfold tget. rewrite alookup_aupdate. destruct (String.eqb c k) eqn:E; [|reflexivity].
  apply String.eqb_eq in E. subst c.
  destruct (alookup k d) eqn:L; [reflexivity|]. apply alookup_none_iff in L. contradiction.
Qed.

Lemma zlookup_zupdate {V} p (f : V -> V) l q :
  zlookup q (zupdate p f l) = if (q =? p)%Z then option_map f (zlookup q l) else zlookup q l.
Proof.
  induction l as [|[p' v] r IH]; cbn.
  - destruct (q =? p)%Z; reflexivity.
  - destruct (p =? p')%Z eqn:E1.
    + apply Z.eqb_eq in E1. subst p'. cbn. destruct (q =? p)%Z; reflexivity.
    + cbn. destruct (q =? p')%Z eqn:E2.
      * apply Z.eqb_eq in E2. subst p'. rewrite Z.eqb_sym in E1. rewrite E1. reflexivity.
      * exact IH.
Qed.

Lemma zlookup_app {V} q (l : list (Z * V)) p v :
  zlookup q (l ++ [(p, v)]) =
    match zlookup q l with Some x => Some x | None => if (q =? p)%Z then Some v else None end.
Proof.
  induction l as [|[p' v'] r IH]; cbn; [reflexivity|].
  destruct (q =? p')%Z; [reflexivity|exact IH].
Qed.

(* ------------------------------------------------------------------ a fresh category table *)
Lemma keys_add_keys ks : forall d c, In c (keys (add_keys ks d)) <-> In c ks \/ In c (keys d).
Proof.
  induction ks as [|k r IH]; intros d c; cbn [add_keys].
  - cbn. tauto.
  - rewrite IH. destruct (amem k d) eqn:E.
    + rewrite keys_aupdate. apply amem_iff in E. cbn. split; [tauto|].
      intros [[->|H]|H]; auto.
    + unfold keys. rewrite map_app. cbn. rewrite in_app_iff. cbn. tauto.
Qed.

Lemma nodup_add_keys ks : forall d, NoDup (keys d) -> NoDup (keys (add_keys ks d)).
Proof.
  induction ks as [|k r IH]; intros d H; cbn [add_keys]; [exact H|].
  apply IH. destruct (amem k d) eqn:E.
  - rewrite keys_aupdate. exact H.
  - unfold keys. rewrite map_app. cbn.
    assert (N : ~ In k (keys d)).
    { intro F. apply amem_iff in F. congruence. }
    clear E. unfold keys in *. induction (map fst d) as [|x l IHl]; cbn.
    + constructor; [intros []|constructor].
    + inversion H; subst. constructor.
      * rewrite in_app_iff. cbn. intros [F|[F|[]]]; [contradiction|]. subst. apply N. now left.
      * apply IHl; [assumption|]. intro F. apply N. now right.
Qed.

Definition all_zero (d : cattab) : Prop := forall c, tget d c = tzero.

Lemma all_zero_add_keys ks : forall d, all_zero d -> all_zero (add_keys ks d).
Proof.
  induction ks as [|k r IH]; intros d H; cbn [add_keys]; [exact H|].
  apply IH. intros c. destruct (amem k d) eqn:E.
  - apply amem_iff in E. rewrite tget_aupdate by exact E. destruct (String.eqb c k); [reflexivity|apply H].
  - unfold tget. specialize (H c). unfold tget in H.
    assert (L : alookup c (d ++ [(k, tzero)]) =
                match alookup c d with Some x => Some x | None => if String.eqb c k then Some tzero else None end).
    { clear. induction d as [|[k' v] r IH]; cbn; [reflexivity|]. destruct (String.eqb c k'); [reflexivity|exact IH]. }
    rewrite L. destruct (alookup c d); [exact H|]. destruct (String.eqb c k); reflexivity.
Qed.

Definition KEYS (t : tbl) : list string := keys (new_cattab t).

Lemma new_cattab_zero t : all_zero (new_cattab t).
Proof.
  unfold new_cattab. apply all_zero_add_keys. intros c. unfold tget. cbn.
  destruct (String.eqb c "Total"); [reflexivity|]. destruct (String.eqb c "StcdpHbm"); reflexivity.
Qed.

Lemma KEYS_nodup t : NoDup (KEYS t).
Proof.
  unfold KEYS, new_cattab. apply nodup_add_keys. cbn.
  constructor; [cbn; intros [F|[]]; discriminate|]. constructor; [intros []|constructor].
Qed.

Lemma KEYS_in t c : In c (KEYS t) <-> In c (map snd (t_cats t)) \/ c = "Total"%string \/ c = "StcdpHbm"%string.
Proof.
  unfold KEYS, new_cattab. rewrite keys_add_keys. cbn. intuition.
Qed.

(* tables produced by the parser always carry other -> other *)
Definition tbl_ok (t : tbl) : Prop := amem "other" (t_cats t) = true.

Lemma cat_of_in t k : tbl_ok t -> In (cat_of t k) (KEYS t).
Proof.
  intros H. apply KEYS_in. left. unfold cat_of.
  destruct (alookup k (t_cats t)) eqn:E; [eapply alookup_in_snd; eassumption|].
  unfold tbl_ok, amem in H. destruct (alookup "other" (t_cats t)) eqn:F; [|discriminate].
  eapply alookup_in_snd; eassumption.
Qed.

Lemma cat_of_snd t k : tbl_ok t -> In (cat_of t k) (map snd (t_cats t)).
Proof.
  intros H. unfold cat_of.
  destruct (alookup k (t_cats t)) eqn:E; [eapply alookup_in_snd; eassumption|].
  unfold tbl_ok, amem in H. destruct (alookup "other" (t_cats t)) eqn:F; [|discriminate].
  eapply alookup_in_snd; eassumption.
Qed.

(* ------------------------------------------------------------------ accumulate_categories, one call *)
Definition st_ok (t : tbl) (st : cats) : Prop := forall p d, zlookup p st = Some d -> keys d = KEYS t.
Definition table_of (t : tbl) (st : cats) (p : Z) : cattab :=
  match zlookup p st with Some d => d | None => new_cattab t end.

Lemma zlookup_accumulate t st pid k i d q :
  zlookup q (accumulate t st pid k i d) =
    if (q =? pid)%Z then Some (acc_tab t k i d (table_of t st pid)) else zlookup q st.
Proof.
  unfold accumulate, table_of. destruct (zlookup pid st) eqn:E.
  - rewrite zlookup_zupdate. destruct (q =? pid)%Z eqn:Q; [|reflexivity].
    apply Z.eqb_eq in Q. subst q. rewrite E. reflexivity.
  - rewrite zlookup_zupdate, zlookup_app. destruct (q =? pid)%Z eqn:Q.
    + apply Z.eqb_eq in Q. subst q. rewrite E. reflexivity.
    + destruct (zlookup q st); reflexivity.
Qed.

Lemma table_of_keys t st p : st_ok t st -> keys (table_of t st p) = KEYS t.
Proof. intros H. unfold table_of. destruct (zlookup p st) eqn:E; [eapply H; eassumption|reflexivity]. Qed.

Lemma keys_acc_tab t k i d D : keys (acc_tab t k i d D) = keys D.
Proof. unfold acc_tab. now rewrite !keys_aupdate. Qed.

Lemma accumulate_ok t st pid k i d : st_ok t st -> st_ok t (accumulate t st pid k i d).
Proof.
  intros H q D. rewrite zlookup_accumulate. destruct (q =? pid)%Z.
  - intros [= <-]. rewrite keys_acc_tab. now apply table_of_keys.
  - apply H.
Qed.

Lemma tget_table_of t st p c : tget (table_of t st p) c = cget st p c.
Proof. unfold table_of, cget. destruct (zlookup p st); [reflexivity|apply new_cattab_zero]. Qed.

Lemma tget_acc_tab t k i d D c :
  tbl_ok t -> keys D = KEYS t ->
  tget (acc_tab t k i d D) c =
    let inner := if String.eqb c (cat_of t k) then tadd d i (tget D c) else tget D c in
    if String.eqb c "Total" then tadd d i inner else inner.
Proof.
  intros Ht HD. unfold acc_tab.
  rewrite tget_aupdate.
  2:{ rewrite keys_aupdate, HD. apply KEYS_in. auto. }
  rewrite tget_aupdate by (rewrite HD; now apply cat_of_in).
  reflexivity.
Qed.

(* ------------------------------------------------------------------ specification side: sums over the slices *)
Definition ev_triple (core : Q) (t : tbl) (e : uev) : triple :=
  (u_dur e, ideal_dur core (get_cycles t (kernel_name e)), 1%Z).
Fixpoint ksum (core : Q) (t : tbl) (f : uev -> bool) (es : list uev) : triple :=
  match es with
  | [] => tzero
  | e :: r => if f e then tplus (ev_triple core t e) (ksum core t f r) else ksum core t f r
  end.
(* kernel slices of rank p; and those of them the table files under category c *)
Definition on_pid (p : Z) (e : uev) : bool := is_kernel e && (u_pid e =? p)%Z.
Definition in_cat (t : tbl) (p : Z) (c : string) (e : uev) : bool :=
  on_pid p e && String.eqb c (cat_of t (kernel_name e)).

Definition no_total (t : tbl) : Prop := ~ In "Total"%string (map snd (t_cats t)).

Lemma cget_step sb core t st e p c :
  tbl_ok t -> st_ok t st -> c <> "Total"%string ->
  teq (cget (fst (step2 sb core t st e)) p c)
      (if in_cat t p c e then tplus (ev_triple core t e) (cget st p c) else cget st p c).
Proof.
  intros Ht Hs Hc. unfold in_cat, on_pid. destruct (is_kernel e) eqn:K.
  - rewrite step2_kernel by exact K. cbn [fst andb]. unfold cget at 1. rewrite zlookup_accumulate.
    destruct (p =? u_pid e)%Z eqn:P.
    + apply Z.eqb_eq in P. subst p. rewrite Z.eqb_refl. cbn [andb].
      rewrite tget_acc_tab by (auto using table_of_keys). cbn zeta.
      apply String.eqb_neq in Hc. rewrite Hc. rewrite tget_table_of.
      destruct (String.eqb c (cat_of t (kernel_name e))); [apply tadd_tplus|reflexivity].
    + rewrite Z.eqb_sym, P. cbn [andb]. reflexivity.
  - rewrite step2_pass by exact K. cbn. reflexivity.
Qed.

Lemma cget_step_total sb core t st e p :
  tbl_ok t -> st_ok t st -> no_total t ->
  teq (cget (fst (step2 sb core t st e)) p "Total")
      (if on_pid p e then tplus (ev_triple core t e) (cget st p "Total") else cget st p "Total").
Proof.
  intros Ht Hs Hn. unfold on_pid. destruct (is_kernel e) eqn:K.
  - rewrite step2_kernel by exact K. cbn [fst andb]. unfold cget at 1. rewrite zlookup_accumulate.
    destruct (p =? u_pid e)%Z eqn:P.
    + apply Z.eqb_eq in P. subst p. rewrite Z.eqb_refl.
      rewrite tget_acc_tab by (auto using table_of_keys). cbn zeta. rewrite String.eqb_refl.
      assert (N : String.eqb "Total" (cat_of t (kernel_name e)) = false).
      { apply String.eqb_neq. intro F. apply Hn. rewrite F. now apply cat_of_snd. }
      rewrite N, tget_table_of. apply tadd_tplus.
    + rewrite Z.eqb_sym, P. reflexivity.
  - rewrite step2_pass by exact K. cbn. reflexivity.
Qed.

Lemma step2_ok sb core t st e : st_ok t st -> st_ok t (fst (step2 sb core t st e)).
Proof.
  intros H. destruct (is_kernel e) eqn:K.
  - rewrite step2_kernel by exact K. cbn. now apply accumulate_ok.
  - rewrite step2_pass by exact K. exact H.
Qed.

Lemma phase2_ok sb core t es : forall st, st_ok t st -> st_ok t (fst (phase2 sb core t st es)).
Proof.
  induction es as [|e r IH]; intros st H; [exact H|].
  rewrite phase2_state_cons. apply IH. now apply step2_ok.
Qed.

(* every category except Total holds exactly the slices the table files under it *)
Lemma phase2_cat sb core t : tbl_ok t -> forall es st p c, st_ok t st -> c <> "Total"%string ->
  teq (cget (fst (phase2 sb core t st es)) p c) (tplus (ksum core t (in_cat t p c) es) (cget st p c)).
Proof.
  intros Ht. induction es as [|e r IH]; intros st p c Hs Hc.
  - cbn. symmetry. apply tplus_zero_l.
  - rewrite phase2_state_cons. rewrite IH by (auto using step2_ok).
    rewrite (cget_step sb core t st e p c Ht Hs Hc). cbn [ksum].
    destruct (in_cat t p c e); [|reflexivity].
    rewrite (tplus_comm (ev_triple core t e) (ksum core t (in_cat t p c) r)).
    rewrite <- tplus_assoc. reflexivity.
Qed.

Lemma phase2_total sb core t : tbl_ok t -> no_total t -> forall es st p, st_ok t st ->
  teq (cget (fst (phase2 sb core t st es)) p "Total")
      (tplus (ksum core t (on_pid p) es) (cget st p "Total")).
Proof.
  intros Ht Hn. induction es as [|e r IH]; intros st p Hs.
  - cbn. symmetry. apply tplus_zero_l.
  - rewrite phase2_state_cons. rewrite IH by (auto using step2_ok).
    rewrite (cget_step_total sb core t st e p Ht Hs Hn). cbn [ksum].
    destruct (on_pid p e); [|reflexivity].
    rewrite (tplus_comm (ev_triple core t e) (ksum core t (on_pid p) r)).
    rewrite <- tplus_assoc. reflexivity.
Qed.

Lemma st_ok_nil t : st_ok t [].
Proof. intros p d. cbn. discriminate. Qed.

Lemma cget_nil p c : cget [] p c = tzero.
Proof. reflexivity. Qed.

(* ------------------------------------------------------------------ Total = sum of the category rows *)
Definition tsum (l : list triple) : triple := fold_right tplus tzero l.

Lemma tsum_map_teq {A} (f g : A -> triple) l :
  (forall c, In c l -> teq (f c) (g c)) -> teq (tsum (map f l)) (tsum (map g l)).
Proof.
  induction l as [|x r IH]; intros H; cbn; [reflexivity|].
  rewrite (H x) by now left. rewrite IH; [reflexivity|]. intros c Hc. apply H. now right.
Qed.

Lemma tsum_zeros {A} (l : list A) : teq (tsum (map (fun _ => tzero) l)) tzero.
Proof. induction l as [|x r IH]; cbn; [reflexivity|]. rewrite IH. apply tplus_zero_l. Qed.

(* adding v at exactly one (existing, unique) key adds v to the sum *)
Lemma tsum_one (K : string -> triple) v x l :
  NoDup l ->
  teq (tsum (map (fun c => if String.eqb c x then tplus v (K c) else K c) l))
      (if in_dec string_dec x l then tplus v (tsum (map K l)) else tsum (map K l)).
Proof.
  induction l as [|y r IH]; intros N; cbn [map tsum fold_right]; [reflexivity|].
  inversion N as [|? ? Hy Nr]; subst. fold (tsum (map (fun c => if String.eqb c x then tplus v (K c) else K c) r)).
  fold (tsum (map K r)). rewrite (IH Nr).
  destruct (String.eqb y x) eqn:E.
  - apply String.eqb_eq in E. subst y.
    destruct (in_dec string_dec x (x :: r)) as [_|F]; [|exfalso; apply F; now left].
    destruct (in_dec string_dec x r) as [F|_]; [contradiction|].
    symmetry. apply tplus_assoc.
  - apply String.eqb_neq in E.
    destruct (in_dec string_dec x r) as [F|F]; destruct (in_dec string_dec x (y :: r)) as [G|G].
    + rewrite tplus_assoc, (tplus_comm (K y) v), <- tplus_assoc. reflexivity.
    + exfalso. apply G. now right.
    + exfalso. destruct G as [G|G]; [congruence|contradiction].
    + reflexivity.
Qed.

Definition cat_keys (t : tbl) : list string :=
  filter (fun c => negb (String.eqb c "Total")) (KEYS t).

Lemma cat_keys_nodup t : NoDup (cat_keys t).
Proof. apply NoDup_filter, KEYS_nodup. Qed.

Lemma cat_of_cat_keys t k : tbl_ok t -> no_total t -> In (cat_of t k) (cat_keys t).
Proof.
  intros Ht Hn. apply filter_In. split; [now apply cat_of_in|].
  apply negb_true_iff, String.eqb_neq. intro F. apply Hn. rewrite <- F. now apply cat_of_snd.
Qed.

(* specification level: the per-category sums of a rank add up to all its kernel slices *)
Lemma ksum_partition core t p : tbl_ok t -> no_total t -> forall es,
  teq (tsum (map (fun c => ksum core t (in_cat t p c) es) (cat_keys t))) (ksum core t (on_pid p) es).
Proof.
  intros Ht Hn. induction es as [|e r IH]; cbn [ksum].
  - apply tsum_zeros.
  - destruct (on_pid p e) eqn:O.
    + rewrite <- IH.
      assert (E : forall c, in_cat t p c e = String.eqb c (cat_of t (kernel_name e))).
      { intros c. unfold in_cat. rewrite O. reflexivity. }
      rewrite (tsum_map_teq
                 (fun c => if in_cat t p c e then tplus (ev_triple core t e) (ksum core t (in_cat t p c) r)
                           else ksum core t (in_cat t p c) r)
                 (fun c => if String.eqb c (cat_of t (kernel_name e))
                           then tplus (ev_triple core t e) (ksum core t (in_cat t p c) r)
                           else ksum core t (in_cat t p c) r)).
      2:{ intros c _. rewrite E. reflexivity. }
      rewrite (tsum_one (fun c => ksum core t (in_cat t p c) r) (ev_triple core t e)
                        (cat_of t (kernel_name e)) (cat_keys t) (cat_keys_nodup t)).
      destruct (in_dec string_dec (cat_of t (kernel_name e)) (cat_keys t)) as [_|F]; [reflexivity|].
      exfalso. apply F. now apply cat_of_cat_keys.
    + rewrite <- IH. apply tsum_map_teq. intros c _.
      unfold in_cat. rewrite O. reflexivity.
Qed.

(* the invariant on the real state, after ANY event sequence (starting from the empty context) *)
Theorem total_is_sum sb core t es p :
  tbl_ok t -> no_total t ->
  let st := fst (phase2 sb core t [] es) in
  teq (cget st p "Total") (tsum (map (cget st p) (cat_keys t))).
Proof.
  intros Ht Hn st. unfold st.
  rewrite (phase2_total sb core t Ht Hn es [] p (st_ok_nil t)). rewrite cget_nil, tplus_zero_r.
  rewrite <- (ksum_partition core t p Ht Hn es).
  apply tsum_map_teq. intros c Hc.
  assert (Hc' : c <> "Total"%string).
  { apply filter_In in Hc. destruct Hc as [_ Hc]. apply negb_true_iff, String.eqb_neq in Hc. exact Hc. }
  rewrite (phase2_cat sb core t Ht es [] p c (st_ok_nil t) Hc'). rewrite cget_nil, tplus_zero_r. reflexivity.
Qed.

Theorem category_is_its_slices sb core t es p c :
  tbl_ok t -> c <> "Total"%string ->
  teq (cget (fst (phase2 sb core t [] es)) p c) (ksum core t (in_cat t p c) es).
Proof.
  intros Ht Hc. rewrite (phase2_cat sb core t Ht es [] p c (st_ok_nil t) Hc).
  rewrite cget_nil. apply tplus_zero_r.
Qed.

Theorem total_is_all_slices sb core t es p :
  tbl_ok t -> no_total t ->
  teq (cget (fst (phase2 sb core t [] es)) p "Total") (ksum core t (on_pid p) es).
Proof.
  intros Ht Hn. rewrite (phase2_total sb core t Ht Hn es [] p (st_ok_nil t)).
  rewrite cget_nil. apply tplus_zero_r.
Qed.

(* components of a slice sum: time, ideal time, number of slices *)
Lemma ksum_calls core t f es : snd (ksum core t f es) = Z.of_nat (List.length (filter f es)).
Proof.
  induction es as [|e r IH]; [reflexivity|]. cbn [ksum filter]. destruct (f e).
  - cbn [tplus snd ev_triple List.length]. rewrite IH. lia.
  - exact IH.
Qed.

Fixpoint qsum_on (f : uev -> bool) (g : uev -> Q) (es : list uev) : Q :=
  match es with [] => 0 | e :: r => if f e then g e + qsum_on f g r else qsum_on f g r end.

Lemma ksum_time core t f es : fst (fst (ksum core t f es)) == qsum_on f u_dur es.
Proof.
  induction es as [|e r IH]; [reflexivity|]. cbn [ksum qsum_on]. destruct (f e).
  - cbn [tplus fst ev_triple]. rewrite IH. reflexivity.
  - exact IH.
Qed.

Lemma ksum_ideal core t f es :
  snd (fst (ksum core t f es)) == qsum_on f (fun e => ideal_dur core (get_cycles t (kernel_name e))) es.
Proof.
  induction es as [|e r IH]; [reflexivity|]. cbn [ksum qsum_on]. destruct (f e).
  - cbn [tplus fst snd ev_triple]. rewrite IH. reflexivity.
  - exact IH.
Qed.

(* the table of a rank exists exactly when the rank has a kernel slice, and has the fixed key set *)
Lemma phase2_present sb core t es : forall st p,
  (exists d, zlookup p (fst (phase2 sb core t st es)) = Some d) <->
  (exists d, zlookup p st = Some d) \/ existsb (on_pid p) es = true.
Proof.
  induction es as [|e r IH]; intros st p.
  - cbn. split; [auto|]. intros [H|H]; [exact H|discriminate].
  - rewrite phase2_state_cons, IH. cbn [existsb]. rewrite orb_true_iff.
    unfold on_pid at 2. destruct (is_kernel e) eqn:K.
    + rewrite step2_kernel by exact K. cbn [fst andb]. split.
      * intros [[d H]|H]; [|tauto]. rewrite zlookup_accumulate in H.
        destruct (p =? u_pid e)%Z eqn:P.
        -- right. left. apply Z.eqb_eq in P. subst. apply Z.eqb_refl.
        -- left. eauto.
      * intros [[d H]|[H|H]]; [| |tauto].
        -- left. rewrite zlookup_accumulate. destruct (p =? u_pid e)%Z; eauto.
        -- left. rewrite zlookup_accumulate. rewrite Z.eqb_sym, H. eauto.
    + rewrite step2_pass by exact K. cbn. split; [tauto|]. intros [H|[H|H]]; [tauto|discriminate|tauto].
Qed.

(* ------------------------------------------------------------------ the csv *)
Section Isort.
  Context {A : Type} (leb : A -> A -> bool).
  Lemma insert_sorted_perm' x l : Permutation (insert_sorted leb x l) (x :: l).
  Proof.
    induction l as [|y r IH]; cbn; [reflexivity|]. destruct (leb x y); [reflexivity|].
    rewrite IH. apply perm_swap.
  Qed.
  Lemma isort_perm' l : Permutation (isort leb l) l.
  Proof.
    induction l as [|x r IH]; cbn; [reflexivity|].
    unfold isort in IH. rewrite insert_sorted_perm'. now constructor.
  Qed.
  Hypothesis total : forall a b, leb a b = true \/ leb b a = true.
  Hypothesis trans : forall a b c, leb a b = true -> leb b c = true -> leb a c = true.
  Lemma insert_sorted_sorted x l :
    StronglySorted (fun a b => leb a b = true) l ->
    StronglySorted (fun a b => leb a b = true) (insert_sorted leb x l).
  Proof.
    induction l as [|y r IH]; intros H; cbn.
    - constructor; constructor.
    - inversion H as [|? ? Hr Hy]; subst. destruct (leb x y) eqn:E.
      + constructor; [exact H|]. constructor; [exact E|].
        eapply Forall_impl; [|exact Hy]. intros z Hz. eapply trans; eassumption.
      + constructor; [now apply IH|].
        assert (L : leb y x = true) by (destruct (total x y); congruence).
        eapply Permutation_Forall; [symmetry; apply insert_sorted_perm'|]. constructor; assumption.
  Qed.
  Lemma isort_sorted' l : StronglySorted (fun a b => leb a b = true) (isort leb l).
  Proof.
    induction l as [|x r IH]; cbn; [constructor|]. now apply insert_sorted_sorted.
  Qed.
End Isort.

Lemma crow_leb_total a b : crow_leb a b = true \/ crow_leb b a = true.
Proof.
  unfold crow_leb. destruct (Z.ltb_spec (cr_pid a) (cr_pid b)); [now left|].
  destruct (Z.ltb_spec (cr_pid b) (cr_pid a)); [now right|].
  assert (E : cr_pid a = cr_pid b) by lia. rewrite E, Z.eqb_refl. cbn.
  destruct (Qle_bool (cr_dur a) (cr_dur b)) eqn:F; [now left|]. right.
  apply Qle_bool_iff. destruct (Qlt_le_dec (cr_dur b) (cr_dur a)) as [L|L]; [lra|].
  apply Qle_bool_iff in L. congruence.
Qed.

Lemma crow_leb_trans a b c : crow_leb a b = true -> crow_leb b c = true -> crow_leb a c = true.
Proof.
  unfold crow_leb. rewrite !orb_true_iff, !andb_true_iff, !Z.ltb_lt, !Z.eqb_eq, !Qle_bool_iff.
  intros [H|[H H']] [G|[G G']]; try (left; lia).
  right. split; [lia|lra].
Qed.

Theorem csv_rows_perm core ph st : Permutation (csv_rows core ph st) (rows_unsorted core ph st).
Proof. apply isort_perm'. Qed.

Theorem csv_rows_sorted core ph st :
  StronglySorted (fun a b => crow_leb a b = true) (csv_rows core ph st).
Proof. apply isort_sorted'; [apply crow_leb_total|apply crow_leb_trans]. Qed.

Lemma rows_unsorted_in core ph st r :
  In r (rows_unsorted core ph st) <->
  exists p d kx, In (p, d) st /\ In kx d /\ r = row_of core ph p (total_of d) kx.
Proof.
  unfold rows_unsorted. rewrite in_flat_map. split.
  - intros [[p d] [H1 H2]]. apply in_map_iff in H2. destruct H2 as [kx [E H2]]. cbn in *. eauto 8.
  - intros (p & d & kx & H1 & H2 & ->). exists (p, d). split; [exact H1|]. apply in_map_iff. eauto.
Qed.

Lemma row_of_fields core ph p total itot n k dur ideal calls :
  row_of core ph p (total, itot, n) (k, (dur, ideal, calls)) =
  mkCrow p ph k dur (frac_or_0 dur total) calls ideal (Qtrunc (ideal / Qabs (1 / core)))
         (frac_or_0 ideal itot) (frac_or_0 ideal dur).
Proof. reflexivity. Qed.

Lemma frac_or_0_div a b : near0 b = false -> frac_or_0 a b = a / b.
Proof. intros H. unfold frac_or_0. now rewrite H. Qed.
Lemma frac_or_0_zero a b : near0 b = true -> frac_or_0 a b = 0.
Proof. intros H. unfold frac_or_0. now rewrite H. Qed.

(* Ideal_Cyc gives back the cycle count when the ideal time is cycles / core *)
Lemma Qtrunc_inject x n : x == inject_Z n -> Qtrunc x = n.
Proof.
  intros E. unfold Qtrunc, round_half_even.
  rewrite (Qfloor_comp _ _ E), Qfloor_Z.
  assert (H : Qlt_b (x - inject_Z n) (1 # 2) = true) by (apply Qlt_b_true; rewrite E; lra).
  rewrite H. reflexivity.
Qed.

Lemma ideal_cyc_exact core ideal n :
  0 < core -> ideal == inject_Z n * (1 / core) -> Qtrunc (ideal / Qabs (1 / core)) = n.
Proof.
  intros Hc E. apply Qtrunc_inject.
  assert (P : 0 <= 1 / core).
  { apply Qle_shift_div_l; [exact Hc|]. lra. }
  rewrite (Qabs_pos _ P), E. field. lra.
Qed.

(* printed cells: round half even at 4 decimals is within half a unit of the last place *)
Lemma round_half_even_err y : Qabs (inject_Z (round_half_even y) - y) <= 1 # 2.
Proof.
  unfold round_half_even.
  pose proof (Qfloor_le y) as L. pose proof (Qlt_floor y) as U.
  rewrite inject_Z_plus in U. change (inject_Z 1) with 1 in U.
  set (f := Qfloor y) in *.
  destruct (Qlt_b (y - inject_Z f) (1 # 2)) eqn:A.
  - apply Qlt_b_true in A. apply Qabs_case; intros; lra.
  - apply Qlt_b_false in A. destruct (Qlt_b (1 # 2) (y - inject_Z f)) eqn:B.
    + apply Qlt_b_true in B. rewrite inject_Z_plus. change (inject_Z 1) with 1.
      apply Qabs_case; intros; lra.
    + apply Qlt_b_false in B. destruct (Z.even f).
      * apply Qabs_case; intros; lra.
      * rewrite inject_Z_plus. change (inject_Z 1) with 1. apply Qabs_case; intros; lra.
Qed.

Theorem round4_err x : Qabs (round4 x - x) <= 1 # 20000.
Proof.
  unfold round4. pose proof (round_half_even_err (x * 10000)) as H.
  set (k := inject_Z (round_half_even (x * 10000))) in *.
  assert (E : k / 10000 - x == (k - x * 10000) / 10000) by (field).
  rewrite E. unfold Qdiv. rewrite Qabs_Qmult.
  assert (I : Qabs (/ 10000) == 1 # 10000) by reflexivity.
  rewrite I.
  setoid_replace (1 # 20000) with ((1 # 2) * (1 # 10000)) by reflexivity.
  apply Qmult_le_compat_r; [exact H|discriminate].
Qed.

(* ------------------------------------------------------------------ parser: tables always carry other -> other *)
Lemma amem_app_l {V} k (d : list (string * V)) x : amem k d = true -> amem k (d ++ [x]) = true.
Proof.
  rewrite !amem_iff. unfold keys. rewrite map_app, in_app_iff. auto.
Qed.

Lemma add_kernel_ok t b ps c : tbl_ok t -> tbl_ok (add_kernel t b ps c).
Proof.
  unfold tbl_ok, add_kernel. cbn [t_cats]. intros H.
  destruct (amem (b ++ " Cmpt Exec") (t_cats t)); [exact H|]. now apply amem_app_l.
Qed.

Lemma empty_tbl_ok ph : tbl_ok (empty_tbl ph).
Proof. reflexivity. Qed.

Definition pst_ok (s : pst) : Prop := tbl_ok (p_cur s) /\ Forall tbl_ok (p_done s).

Lemma pstep_ok s i : pst_ok s -> pst_ok (pstep s i).
Proof.
  intros [H1 H2]. unfold pstep. destruct (p_stop s); [now split|].
  destruct i as [| | | | |pre|base pieces cyc].
  - split; [apply empty_tbl_ok|exact H2].
  - destruct (p_active s); [|now split]. split; [exact H1|]. cbn.
    apply Forall_app. split; [exact H2|]. constructor; [exact H1|constructor].
  - now split.
  - now split.
  - now split.
  - now split.
  - destruct (p_active s && negb (row_ignored base pieces) && negb (String.eqb base "Total")); [|now split].
    split; [now apply add_kernel_ok|exact H2].
Qed.

Theorem parse_log_ok its : Forall tbl_ok (parse_log its).
Proof.
  unfold parse_log.
  assert (G : forall s, pst_ok s -> pst_ok (fold_left pstep its s)).
  { induction its as [|i r IH]; intros s H; [exact H|]. cbn. apply IH. now apply pstep_ok. }
  apply G. split; [apply empty_tbl_ok|constructor].
Qed.

(* ------------------------------------------------------------------ the whole run *)
Lemma run_tbl_ok_events c t es :
  c_stats c = false ->
  run_tbl c t es =
    Ok t (flat_map (out_of (c_stats c) (c_core c) t) es) (fst (phase2 (c_stats c) (c_core c) t [] es))
       (match fst (phase2 (c_stats c) (c_core c) t [] es) with
        | [] => None
        | _ => Some (csv_rows (c_core c) (t_phase t) (fst (phase2 (c_stats c) (c_core c) t [] es)))
        end).
Proof.
  intros H. unfold run_tbl. pose proof (phase2_out (c_stats c) (c_core c) t es []) as E.
  destruct (phase2 (c_stats c) (c_core c) t [] es) as [st o2]. cbn [fst snd] in *. subst o2.
  rewrite H. cbn. reflexivity.
Qed.

Lemma run_tbl_stats c t es :
  c_stats c = true ->
  existsb stats_asserts (flat_map (out_of (c_stats c) (c_core c) t) es) = false ->
  run_tbl c t es =
    Ok t (flat_map stats_rule (flat_map (out_of (c_stats c) (c_core c) t) es)) (fst (phase2 (c_stats c) (c_core c) t [] es))
       (match fst (phase2 (c_stats c) (c_core c) t [] es) with
        | [] => None
        | _ => Some (csv_rows (c_core c) (t_phase t) (fst (phase2 (c_stats c) (c_core c) t [] es)))
        end).
Proof.
  intros H A. unfold run_tbl. pose proof (phase2_out (c_stats c) (c_core c) t es []) as E.
  destruct (phase2 (c_stats c) (c_core c) t [] es) as [st o2]. cbn [fst snd] in *. subst o2.
  rewrite A, H. cbn. reflexivity.
Qed.

(* calculate_stats' assertion cannot fire when every slice named '... Cmpt Exec' has dur > 0 *)
Lemma no_assert sb core t es :
  (forall e, In e es -> String.eqb (u_ph e) "X" = true -> contains CE (u_name e) = true -> 0 < u_dur e) ->
  existsb stats_asserts (flat_map (out_of sb core t) es) = false.
Proof.
  intros H. destruct (existsb stats_asserts (flat_map (out_of sb core t) es)) eqn:E; [|reflexivity].
  exfalso. apply existsb_exists in E. destruct E as [o [I A]]. apply in_flat_map in I.
  destruct I as [e [Ie Io]]. unfold out_of in Io.
  assert (B : forall e', (o = OPass e' \/ exists pt cat, o = OKern e' pt cat) -> e' = e -> False).
  { intros e' D ->. assert (S : String.eqb (u_ph e) "X" && contains CE (u_name e) && Qle_bool (u_dur e) 0 = true).
    { destruct D as [->|(pt & cat & ->)]; exact A. }
    apply andb_true_iff in S. destruct S as [S S3]. apply andb_true_iff in S. destruct S as [S1 S2].
    specialize (H e Ie S1 S2). apply Qle_bool_iff in S3. lra. }
  destruct (is_kernel e).
  - unfold kernel_out in Io. destruct Io as [<-|Io]; [eapply B; [right; eauto|reflexivity]|].
    unfold counters in Io. destruct sb.
    + destruct Io as [<-|Io]; [discriminate|].
      destruct (Qlt_b 0 _); [destruct Io as [<-|[]]; discriminate|destruct Io].
    + destruct (Qlt_b 0 _); [destruct Io as [<-|[<-|[]]]; discriminate|destruct Io].
  - destruct Io as [<-|[]]. eapply B; [left; reflexivity|reflexivity].
Qed.

(* ------------------------------------------------------------------ components, in the property's words *)
Theorem total_calls sb core t es p :
  tbl_ok t -> no_total t ->
  snd (cget (fst (phase2 sb core t [] es)) p "Total") = Z.of_nat (List.length (filter (on_pid p) es)).
Proof.
  intros Ht Hn. destruct (total_is_all_slices sb core t es p Ht Hn) as (_ & _ & E).
  rewrite E. apply ksum_calls.
Qed.

Theorem category_components sb core t es p c :
  tbl_ok t -> c <> "Total"%string ->
  let x := cget (fst (phase2 sb core t [] es)) p c in
  fst (fst x) == qsum_on (in_cat t p c) u_dur es /\
  snd (fst x) == qsum_on (in_cat t p c) (fun e => ideal_dur core (get_cycles t (kernel_name e))) es /\
  snd x = Z.of_nat (List.length (filter (in_cat t p c) es)).
Proof.
  intros Ht Hc x. destruct (category_is_its_slices sb core t es p c Ht Hc) as (A & B & C). fold x in A, B, C.
  repeat split.
  - rewrite A. apply ksum_time.
  - rewrite B. apply ksum_ideal.
  - rewrite C. apply ksum_calls.
Qed.

(* every kernel slice of a rank is in exactly one category row (never Total) *)
Lemma in_cat_unique t p e :
  tbl_ok t -> no_total t -> on_pid p e = true ->
  exists c, In c (cat_keys t) /\ in_cat t p c e = true /\
            forall c', in_cat t p c' e = true -> c' = c.
Proof.
  intros Ht Hn O. exists (cat_of t (kernel_name e)). split; [now apply cat_of_cat_keys|]. split.
  - unfold in_cat. rewrite O, String.eqb_refl. reflexivity.
  - intros c' H. unfold in_cat in H. rewrite O in H. cbn in H. now apply String.eqb_eq in H.
Qed.

(* ideal time of a sum of slices = (sum of their cycles) / core, hence Ideal_Cyc is that sum *)
Fixpoint zsum_on (f : uev -> bool) (g : uev -> Z) (es : list uev) : Z :=
  match es with [] => 0%Z | e :: r => if f e then (g e + zsum_on f g r)%Z else zsum_on f g r end.

Lemma qsum_ideal_cycles core t f es :
  qsum_on f (fun e => ideal_dur core (get_cycles t (kernel_name e))) es ==
  inject_Z (zsum_on f (fun e => get_cycles t (kernel_name e)) es) * (1 / core).
Proof.
  induction es as [|e r IH]; cbn [qsum_on zsum_on]; [cbn; ring|].
  destruct (f e); [|exact IH]. rewrite IH, inject_Z_plus. unfold ideal_dur. ring.
Qed.

Theorem category_ideal_cyc sb core t es p c :
  0 < core -> tbl_ok t -> c <> "Total"%string ->
  Qtrunc (snd (fst (cget (fst (phase2 sb core t [] es)) p c)) / Qabs (1 / core)) =
  zsum_on (in_cat t p c) (fun e => get_cycles t (kernel_name e)) es.
Proof.
  intros Hc Ht Hn. apply ideal_cyc_exact; [exact Hc|].
  destruct (category_components sb core t es p c Ht Hn) as (_ & B & _). rewrite B.
  apply qsum_ideal_cycles.
Qed.

(* ------------------------------------------------------------------ what the table of a log is *)
Definition kkey (base : string) : string := (base ++ " Cmpt Exec")%string.
Definition rowt : Type := (string * list string * Z)%type.

Definition row_accepted (b : string) (ps : list string) : bool :=
  negb (row_ignored b ps) && negb (String.eqb b "Total").

(* effect of one line inside an active table *)
Definition body_step (t : tbl) (i : item) : tbl :=
  match i with
  | IRow b ps c => if row_accepted b ps then add_kernel t b ps c else t
  | _ => t
  end.

(* the accepted data rows of a table body, in order *)
Fixpoint body_rows (body : list item) : list rowt :=
  match body with
  | [] => []
  | IRow b ps c :: r => if row_accepted b ps then (b, ps, c) :: body_rows r else body_rows r
  | _ :: r => body_rows r
  end.

(* first non-zero cycle count / first category among the rows of a kernel *)
Fixpoint first_nz (k : string) (rows : list rowt) : Z :=
  match rows with
  | [] => 0%Z
  | (b, _, c) :: r => if String.eqb k (kkey b) && negb (c =? 0)%Z then c else first_nz k r
  end.
Fixpoint first_cat (k : string) (rows : list rowt) : option string :=
  match rows with
  | [] => None
  | (b, ps, _) :: r => if String.eqb k (kkey b) then Some (handle_category (b :: ps)) else first_cat k r
  end.

Lemma alookup_app {V} (k : string) (l : list (string * V)) k' v :
  alookup k (l ++ [(k', v)]) =
    match alookup k l with Some x => Some x | None => if String.eqb k k' then Some v else None end.
Proof.
  induction l as [|[a b] r IH]; cbn; [reflexivity|]. destruct (String.eqb k a); [reflexivity|exact IH].
Qed.

Lemma get_cycles_body body : forall t k,
  get_cycles (fold_left body_step body t) k =
    match alookup k (t_cycles t) with Some c => c | None => first_nz k (body_rows body) end.
Proof.
  induction body as [|i r IH]; intros t k; cbn [fold_left body_rows].
  - cbn. unfold get_cycles. destruct (alookup k (t_cycles t)); reflexivity.
  - rewrite IH. destruct i; cbn [body_step]; try reflexivity.
    destruct (row_accepted base pieces); [|reflexivity].
    cbn [first_nz]. unfold add_kernel. cbn [t_cycles]. fold (kkey base).
    unfold amem. destruct (alookup (kkey base) (t_cycles t)) eqn:M.
    + destruct (alookup k (t_cycles t)) eqn:L; [reflexivity|].
      destruct (String.eqb k (kkey base)) eqn:E; [|reflexivity].
      apply String.eqb_eq in E. subst k. congruence.
    + destruct (cyc =? 0)%Z eqn:Z0.
      * destruct (alookup k (t_cycles t)); [reflexivity|]. cbn. rewrite andb_false_r. reflexivity.
      * rewrite alookup_app. destruct (alookup k (t_cycles t)); [reflexivity|].
        cbn [negb]. rewrite andb_true_r. destruct (String.eqb k (kkey base)); reflexivity.
Qed.

Lemma cat_body body : forall t k,
  alookup k (t_cats (fold_left body_step body t)) =
    match alookup k (t_cats t) with Some c => Some c | None => first_cat k (body_rows body) end.
Proof.
  induction body as [|i r IH]; intros t k; cbn [fold_left body_rows].
  - cbn. destruct (alookup k (t_cats t)); reflexivity.
  - rewrite IH. destruct i; cbn [body_step]; try reflexivity.
    destruct (row_accepted base pieces); [|reflexivity].
    cbn [first_cat]. unfold add_kernel. cbn [t_cats]. fold (kkey base).
    unfold amem. destruct (alookup (kkey base) (t_cats t)) eqn:M.
    + destruct (alookup k (t_cats t)) eqn:L; [reflexivity|].
      destruct (String.eqb k (kkey base)) eqn:E; [|reflexivity].
      apply String.eqb_eq in E. subst k. congruence.
    + rewrite alookup_app. destruct (alookup k (t_cats t)); [reflexivity|].
      destruct (String.eqb k (kkey base)); reflexivity.
Qed.

(* ------------------------------------------------------------------ the parser on a single-table log *)
Definition not_start_auto (i : item) : bool := match i with IStart | IAuto => false | _ => true end.
Definition body_item (i : item) : bool := match i with IStart | IAuto | IEnd => false | _ => true end.
Definition not_start (i : item) : bool := match i with IStart => false | _ => true end.

(* phase flags after the lines that precede the table *)
Definition flag_step (f : bool * bool) (i : item) : bool * bool :=
  match i with IPhase pre => (false, pre) | _ => f end.

Lemma pre_segment pre : forall u p,
  forallb not_start_auto pre = true ->
  fold_left pstep pre (mkPst false u p (empty_tbl "UNKN") [] false) =
  mkPst false (fst (fold_left flag_step pre (u, p))) (snd (fold_left flag_step pre (u, p)))
        (empty_tbl "UNKN") [] false.
Proof.
  induction pre as [|i r IH]; intros u p H; [reflexivity|].
  cbn [forallb] in H. apply andb_true_iff in H. destruct H as [Hi Hr].
  cbn [fold_left]. destruct i; try discriminate; cbn; apply IH; exact Hr.
Qed.

Lemma body_segment body : forall u p t dn,
  forallb body_item body = true ->
  exists u' p',
    fold_left pstep body (mkPst true u p t dn false) = mkPst true u' p' (fold_left body_step body t) dn false.
Proof.
  induction body as [|i r IH]; intros u p t dn H; [now exists u, p|].
  cbn [forallb] in H. apply andb_true_iff in H. destruct H as [Hi Hr].
  cbn [fold_left]. destruct i; try discriminate; cbn [pstep p_stop p_active p_unknown p_prefill p_cur p_done body_step];
    try (apply IH; exact Hr).
  unfold row_accepted. cbn [andb].
  destruct (negb (row_ignored base pieces) && negb (String.eqb base "Total")); apply IH; exact Hr.
Qed.

Lemma post_segment post : forall u p t dn st,
  forallb not_start post = true ->
  p_done (fold_left pstep post (mkPst false u p t dn st)) = dn.
Proof.
  induction post as [|i r IH]; intros u p t dn st H; [reflexivity|].
  cbn [forallb] in H. apply andb_true_iff in H. destruct H as [Hi Hr].
  cbn [fold_left]. unfold pstep. cbn [p_stop]. destruct st.
  - apply IH; exact Hr.
  - destruct i; try discriminate; cbn; apply IH; exact Hr.
Qed.

Theorem parse_single_table pre body post :
  forallb not_start_auto pre = true -> forallb body_item body = true -> forallb not_start post = true ->
  let f := fold_left flag_step pre (true, false) in
  parse_log (pre ++ IStart :: body ++ IEnd :: post) =
    [fold_left body_step body (empty_tbl (phase_of (fst f) (snd f)))].
Proof.
  intros Hpre Hbody Hpost f. unfold parse_log, pst0.
  rewrite fold_left_app, pre_segment by exact Hpre. fold f.
  cbn [fold_left]. unfold pstep at 2. cbn [p_stop p_unknown p_prefill p_done].
  rewrite fold_left_app.
  destruct (body_segment body (fst f) (snd f) (empty_tbl (phase_of (fst f) (snd f))) [] Hbody) as (u' & p' & E).
  rewrite E. cbn [fold_left]. unfold pstep at 2. cbn [p_stop p_active p_unknown p_prefill p_cur p_done app].
  apply post_segment. exact Hpost.
Qed.
