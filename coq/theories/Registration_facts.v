(* Registration_facts.v — facts about the GENERATED registration program and profiles (gen/Registration.v,
   gen/Profiles.v are rewritten from /repo's sources on every run; these lemmas are re-checked against them).
   Everything here is decided by computation on the generated terms and then lifted to all valuations of the
   guard atoms by the general lemmas of Profile_proofs.v. *)
From Coq Require Import List String Bool Arith.
Import ListNotations.
From AiuModel Require Import Profile Profile_proofs.
From AiuGen Require Import Registration Profiles.
Local Open Scope string_scope.

Lemma program_sep : sep_static the_program = true.
Proof. vm_compute. reflexivity. Qed.
Lemma names_aligned : map fst everything = names the_program.
Proof. vm_compute. reflexivity. Qed.
Lemma everything_enabled : forallb snd everything = true.
Proof. vm_compute. reflexivity. Qed.
Lemma everything_nonempty : everything <> [].
Proof. vm_compute. discriminate. Qed.

(* default.json is the empty object: from_json substitutes the all-stages list *)
Lemma default_is_everything : from_json profile_default everything = Some everything.
Proof. vm_compute. reflexivity. Qed.

Definition torch_minimal : prof := match profile_torch_minimal with Some p => p | None => [] end.
Lemma torch_minimal_ingested : from_json profile_torch_minimal everything = Some torch_minimal.
Proof. vm_compute. reflexivity. Qed.
Lemma torch_minimal_names : map fst torch_minimal = names the_program.
Proof. vm_compute. reflexivity. Qed.

Theorem default_registers_all v :
  forall P, from_json profile_default everything = Some P ->
  registered P (calls v the_program) = calls v the_program.
Proof.
  intros P H. rewrite default_is_everything in H. injection H as <-.
  apply registered_all_enabled; [exact program_sep|exact names_aligned|exact everything_enabled].
Qed.

Theorem everything_registers_all v : registered everything (calls v the_program) = calls v the_program.
Proof. apply registered_all_enabled; [exact program_sep|exact names_aligned|exact everything_enabled]. Qed.

Lemma disable_at_nonempty k : disable_at k everything <> [].
Proof.
  pose proof everything_nonempty as H. destruct everything as [|[n f] P]; [congruence|].
  destruct k; cbn [disable_at]; discriminate.
Qed.

Theorem single_disabled v k :
  from_json (Some (disable_at k everything)) everything = Some (disable_at k everything) /\
  registered (disable_at k everything) (calls v the_program) = sel everything (mask_off k (mask v the_program)).
Proof.
  split.
  - cbn [from_json]. apply ingest_same_names; [apply disable_at_nonempty|apply disable_at_names].
  - apply registered_one_disabled; [exact program_sep|exact names_aligned|exact everything_enabled].
Qed.

Theorem torch_minimal_registers v :
  registered torch_minimal (calls v the_program) = keep (calls v the_program) (selflags torch_minimal (mask v the_program)).
Proof. apply registered_any_profile; [exact program_sep|exact torch_minimal_names]. Qed.

(* any requested profile whatsoever: after ingestion it has the names of everything.json, so forward matching
   hits each executed registration at its own entry *)
Theorem any_profile v pd P :
  from_json pd everything = Some P ->
  registered P (calls v the_program) = keep (calls v the_program) (selflags P (mask v the_program)).
Proof.
  intros H. apply registered_any_profile; [exact program_sep|].
  rewrite <- names_aligned. destruct pd as [l|]; cbn [from_json] in H; eapply ingest_names; exact H.
Qed.

(* what [sel everything (mask_off k M)] means: the requested list, minus the registration of entry k *)
Lemma mask_off_noop : forall k M, nth k M false = false -> k < List.length M -> mask_off k M = M.
Proof.
  induction k as [|k IH]; intros [|b M] Hn Hl; cbn [List.length] in Hl; try (exfalso; inversion Hl; fail).
  - cbn in Hn. subst b. reflexivity.
  - cbn [mask_off]. f_equal. apply IH; [exact Hn|]. apply Nat.succ_lt_mono. exact Hl.
Qed.

(* ---- facts used by C08: the last registration is the unconditional global sort by (ts, -dur) ---- *)
Definition final_sort_ctor : string :=
  "event_pipe.EventSortingContext(event_types=None, sortkey=self._default_sort_ts_and_rev_dur, global_sort=True)".
Lemma last_is_final_sort :
  exists pre r, the_program = (pre ++ [r])%list /\ r_guard r = GTrue /\ r_name r = "sort_events" /\
                r_ctor r = final_sort_ctor /\ r_kwargs r = [].
Proof.
  exists (removelast the_program), (last the_program {| r_guard := GAtom 0; r_name := ""; r_ctx := 0; r_ctor := ""; r_kwargs := [] |}).
  vm_compute. repeat split; reflexivity.
Qed.
Lemma default_sortkey : default_sort_ts_and_rev_dur = "ts,dur:r".
Proof. vm_compute. reflexivity. Qed.
(* the final sort is always selected and is the last call, for every valuation *)
Lemma calls_last_is_sort v : exists pre, calls v the_program = (pre ++ ["sort_events"])%list.
Proof.
  destruct last_is_final_sort as (pre & r & Hp & Hg & Hn & _).
  exists (calls v pre). unfold calls. rewrite Hp, filter_app, map_app. cbn [filter]. rewrite Hg. cbn [geval map].
  rewrite Hn. reflexivity.
Qed.

(* ---- context sharing: two registrations that share a context object are adjacent or separated by a barrier ----
   (DESIGN 3.2 "sharing_ok").  For every pair i < j of registrations with the same non-None context that are not
   adjacent, some pipeline_barrier registration k with i < k < j is unconditional or carries the guard of i or of j:
   whenever both i and j execute, a barrier executes between them, so the second stage starts only after the first
   has seen the whole stream (Pipeline.barrier_separates).  Decided by computation on the generated program. *)
Definition regs_between (i j : nat) (p : program) : list reg :=
  firstn (j - i - 1) (skipn (S i) p).
Definition is_barrier_reg (r : reg) : bool := String.eqb (r_name r) "pipeline_barrier".
Definition sep_by_barrier (ri rj : reg) (mid : list reg) : bool :=
  existsb (fun r => is_barrier_reg r &&
                    (is_true (r_guard r) || guard_eqb (r_guard r) (r_guard ri) || guard_eqb (r_guard r) (r_guard rj))) mid.
Definition adjacent_regs (mid : list reg) : bool := match mid with [] => true | _ => false end.
Fixpoint number_regs (i : nat) (p : program) : list (nat * reg) :=
  match p with [] => [] | r :: rest => (i, r) :: number_regs (S i) rest end.
Definition sharing_ok (p : program) : bool :=
  let np := number_regs 0 p in
  forallb (fun x => forallb (fun y =>
     if Nat.ltb (fst x) (fst y) && negb (Nat.eqb (r_ctx (snd x)) 0) && Nat.eqb (r_ctx (snd x)) (r_ctx (snd y))
        && negb (is_barrier_reg (snd x))
     then let mid := regs_between (fst x) (fst y) p in adjacent_regs mid || sep_by_barrier (snd x) (snd y) mid
     else true) np) np.
Lemma program_sharing_ok : sharing_ok the_program = true.
Proof. vm_compute. reflexivity. Qed.

(* the pairs concerned, as a readable list (name of first, name of second, is-adjacent) *)
Definition shared_pairs (p : program) : list (string * string * bool) :=
  let np := number_regs 0 p in
  flat_map (fun x => flat_map (fun y =>
     if Nat.ltb (fst x) (fst y) && negb (Nat.eqb (r_ctx (snd x)) 0) && Nat.eqb (r_ctx (snd x)) (r_ctx (snd y))
        && negb (is_barrier_reg (snd x))
     then [(r_name (snd x), r_name (snd y), adjacent_regs (regs_between (fst x) (fst y) p))] else []) np) np.
Lemma program_shared_pairs :
  shared_pairs the_program =
  [("normalize_phase1", "normalize_phase2", false); ("frequency_align_collect", "frequency_align_apply", false);
   ("detect_partial_overlap_tids", "detect_partial_overlap_events", false);
   ("compute_utilization_fingerprints", "compute_utilization", false);
   ("communication_event_collection", "communication_event_apply", false);
   ("launch_flow_collect", "launch_flow_create_missing", false);
   ("event_categorizer", "event_categorizer_update", false);
   ("tb_refinement_intrusive", "tb_refinement_lightweight", true)].
Proof. vm_compute. reflexivity. Qed.

(* ---- the same check in split form, with its soundness for EVERY valuation of the guard atoms ---- *)
Definition share (ri rj : reg) : bool :=
  negb (Nat.eqb (r_ctx ri) 0) && Nat.eqb (r_ctx ri) (r_ctx rj) && negb (is_barrier_reg ri).
Fixpoint partners_ok (ri : reg) (mid : list reg) (rest : program) : bool :=
  match rest with
  | [] => true
  | rj :: rest' => (if share ri rj then adjacent_regs mid || sep_by_barrier ri rj mid else true)
                   && partners_ok ri (mid ++ [rj])%list rest'
  end.
Fixpoint sharing_ok2 (p : program) : bool :=
  match p with [] => true | ri :: rest => partners_ok ri [] rest && sharing_ok2 rest end.
Lemma program_sharing_ok2 : sharing_ok2 the_program = true.
Proof. vm_compute. reflexivity. Qed.

Lemma guard_eqb_eq : forall a b, guard_eqb a b = true -> a = b.
Proof.
  induction a as [|n|a IH|a1 IH1 a2 IH2]; intros [|m|b|b1 b2] H; cbn [guard_eqb] in H; try discriminate; try reflexivity.
  - apply Nat.eqb_eq in H. now subst.
  - f_equal. now apply IH.
  - apply andb_prop in H. destruct H as [H1 H2]. f_equal; [now apply IH1|now apply IH2].
Qed.

Lemma partners_ok_sound ri : forall mid m0 rj b,
  partners_ok ri m0 (mid ++ rj :: b)%list = true -> share ri rj = true ->
  adjacent_regs (m0 ++ mid)%list = true \/ sep_by_barrier ri rj (m0 ++ mid)%list = true.
Proof.
  induction mid as [|x mid IH]; intros m0 rj b H Hs.
  - cbn [app partners_ok] in H. rewrite Hs in H. apply andb_prop in H. destruct H as [H _].
    rewrite app_nil_r. apply orb_prop in H. exact H.
  - cbn [app partners_ok] in H. apply andb_prop in H. destruct H as [_ H].
    specialize (IH (m0 ++ [x])%list rj b H Hs). rewrite <- app_assoc in IH. exact IH.
Qed.

(* whenever two registrations that share a context object both execute and something lies between them, a
   pipeline_barrier registration between them executes too *)
Theorem sharing_sound (v : nat -> bool) : forall p, sharing_ok2 p = true ->
  forall a ri mid rj b, p = (a ++ ri :: mid ++ rj :: b)%list -> share ri rj = true -> mid <> [] ->
  geval v (r_guard ri) = true -> geval v (r_guard rj) = true ->
  exists r, In r mid /\ is_barrier_reg r = true /\ geval v (r_guard r) = true.
Proof.
  induction p as [|x p IH]; intros Hok a ri mid rj b Hp Hs Hm Hi Hj.
  - destruct a; discriminate.
  - cbn [sharing_ok2] in Hok. apply andb_prop in Hok. destruct Hok as [H1 H2].
    destruct a as [|y a]; cbn [app] in Hp; injection Hp as -> ->.
    + destruct (partners_ok_sound ri mid [] rj b H1 Hs) as [Ha|Hb]; cbn [app] in *.
      * destruct mid; [congruence|discriminate].
      * unfold sep_by_barrier in Hb. apply existsb_exists in Hb. destruct Hb as (r & Hin & Hr).
        apply andb_prop in Hr. destruct Hr as [Hbar Hg]. exists r. split; [exact Hin|]. split; [exact Hbar|].
        apply orb_prop in Hg. destruct Hg as [Hg|Hg].
        -- apply orb_prop in Hg. destruct Hg as [Hg|Hg]; [now apply is_true_eval|].
           apply guard_eqb_eq in Hg. now rewrite Hg.
        -- apply guard_eqb_eq in Hg. now rewrite Hg.
    + eapply IH; eauto.
Qed.

Theorem program_sharing_sound (v : nat -> bool) :
  forall a ri mid rj b, the_program = (a ++ ri :: mid ++ rj :: b)%list -> share ri rj = true -> mid <> [] ->
  geval v (r_guard ri) = true -> geval v (r_guard rj) = true ->
  exists r, In r mid /\ is_barrier_reg r = true /\ geval v (r_guard r) = true.
Proof. apply sharing_sound. exact program_sharing_ok2. Qed.
