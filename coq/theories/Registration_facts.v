(* Registration_facts.v — facts about the GENERATED registration program and profiles (gen/Registration.v,
   gen/Profiles.v are rewritten from /repo's sources on every run; these lemmas are re-checked against them).
   Everything here is decided by computation on the generated terms and then lifted to all valuations of the
   guard atoms by the general lemmas of Profile_proofs.v. *)
From Coq Require Import List String Bool Arith.
Import ListNotations.
From AiuModel Require Import Profile Profile_proofs.
From AiuGen Require Import Registration Profiles.
Local Open Scope string_scope.

Lemma program_sep : sep_static the_program = true.
Proof. vm_compute. reflexivity. Qed.
Lemma names_aligned : map fst everything = names the_program.
Proof. vm_compute. reflexivity. Qed.
Lemma everything_enabled : forallb snd everything = true.
Proof. vm_compute. reflexivity. Qed.
Lemma everything_nonempty : everything <> [].
Proof. vm_compute. discriminate. Qed.

(* default.json is the empty object: from_json substitutes the all-stages list *)
Lemma default_is_everything : from_json profile_default everything = Some everything.
Proof. vm_compute. reflexivity. Qed.

Definition torch_minimal : prof := match profile_torch_minimal with Some p => p | None => [] end.
Lemma torch_minimal_ingested : from_json profile_torch_minimal everything = Some torch_minimal.
Proof. vm_compute. reflexivity. Qed.
Lemma torch_minimal_names : map fst torch_minimal = names the_program.
Proof. vm_compute. reflexivity. Qed.

Theorem default_registers_all v :
  forall P, from_json profile_default everything = Some P ->
  registered P (calls v the_program) = calls v the_program.
Proof.
  intros P H. rewrite default_is_everything in H. injection H as <-.
  apply registered_all_enabled; [exact program_sep|exact names_aligned|exact everything_enabled].
Qed.

Theorem everything_registers_all v : registered everything (calls v the_program) = calls v the_program.
Proof. apply registered_all_enabled; [exact program_sep|exact names_aligned|exact everything_enabled]. Qed.

Lemma disable_at_nonempty k : disable_at k everything <> [].
Proof.
  pose proof everything_nonempty as H. destruct everything as [|[n f] P]; [congruence|].
  destruct k; cbn [disable_at]; discriminate.
Qed.

Theorem single_disabled v k :
  from_json (Some (disable_at k everything)) everything = Some (disable_at k everything) /\
  registered (disable_at k everything) (calls v the_program) = sel everything (mask_off k (mask v the_program)).
Proof.
  split.
  - cbn [from_json]. apply ingest_same_names; [apply disable_at_nonempty|apply disable_at_names].
  - apply registered_one_disabled; [exact program_sep|exact names_aligned|exact everything_enabled].
Qed.

Theorem torch_minimal_registers v :
  registered torch_minimal (calls v the_program) = keep (calls v the_program) (selflags torch_minimal (mask v the_program)).
Proof. apply registered_any_profile; [exact program_sep|exact torch_minimal_names]. Qed.

(* any requested profile whatsoever: after ingestion it has the names of everything.json, so forward matching
   hits each executed registration at its own entry *)
Theorem any_profile v pd P :
  from_json pd everything = Some P ->
  registered P (calls v the_program) = keep (calls v the_program) (selflags P (mask v the_program)).
Proof.
  intros H. apply registered_any_profile; [exact program_sep|].
  rewrite <- names_aligned. destruct pd as [l|]; cbn [from_json] in H; eapply ingest_names; exact H.
Qed.

(* what [sel everything (mask_off k M)] means: the requested list, minus the registration of entry k *)
Lemma mask_off_noop : forall k M, nth k M false = false -> k < List.length M -> mask_off k M = M.
Proof.
  induction k as [|k IH]; intros [|b M] Hn Hl; cbn [List.length] in Hl; try (exfalso; inversion Hl; fail).
  - cbn in Hn. subst b. reflexivity.
  - cbn [mask_off]. f_equal. apply IH; [exact Hn|]. apply Nat.succ_lt_mono. exact Hl.
Qed.

(* ---- facts used by C08: the last registration is the unconditional global sort by (ts, -dur) ---- *)
Definition final_sort_ctor : string :=
  "event_pipe.EventSortingContext(event_types=None, sortkey=self._default_sort_ts_and_rev_dur, global_sort=True)".
Lemma last_is_final_sort :
  exists pre r, the_program = (pre ++ [r])%list /\ r_guard r = GTrue /\ r_name r = "sort_events" /\
                r_ctor r = final_sort_ctor /\ r_kwargs r = [].
Proof.
  exists (removelast the_program), (last the_program {| r_guard := GAtom 0; r_name := ""; r_ctx := 0; r_ctor := ""; r_kwargs := [] |}).
  vm_compute. repeat split; reflexivity.
Qed.
Lemma default_sortkey : default_sort_ts_and_rev_dur = "ts,dur:r".
Proof. vm_compute. reflexivity. Qed.
(* the final sort is always selected and is the last call, for every valuation *)
Lemma calls_last_is_sort v : exists pre, calls v the_program = (pre ++ ["sort_events"])%list.
Proof.
  destruct last_is_final_sort as (pre & r & Hp & Hg & Hn & _).
  exists (calls v pre). unfold calls. rewrite Hp, filter_app, map_app. cbn [filter]. rewrite Hg. cbn [geval map].
  rewrite Hn. reflexivity.
Qed.
