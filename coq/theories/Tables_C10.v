(* the hand model of power.py uses exactly the constants of the current source (gen/Tables.v) *)
From Coq Require Import ZArith QArith.
From AiuModel Require Import Power.
From AiuGen Require Import Tables.
Lemma power_constants_are_source :
  Power.VOLT = Tables.power_voltage /\ Power.LSB = Tables.power_lsb /\ Power.CAP = Tables.power_cap /\
  Power.cutoff = Tables.power_cutoff /\ Power.W32 = (2 ^ Tables.power_wrap_exp)%Z.
Proof. repeat split; reflexivity. Qed.
