(* Job ids of the inputs of one run (types.py::GlobalIngestData.add_job_info / new_input_set, called from
   ingestion.py::MultifileIngest.__init__ and the per-file ingesters it creates).

     jobhash = crc32(path) % 10000
     while len(in_use) < 10000 and in_use.get(jobhash, path) != path:  jobhash = (jobhash + 1) % 10000
     in_use[jobhash] = path

   A path is represented by a key (nat): equal keys <-> equal path strings; crc32 itself is an input of the model
   (the harness supplies crc32(path) % 10000 for every path).  [in_use] is an association list without duplicate ids.
   The model of one run starts from the table that holds the id of the multi-file ingest itself
   ("top_level_multifile", key 0). *)
From Coq Require Import ZArith List Lia Bool Arith.
Import ListNotations.
Local Open Scope Z_scope.

Definition M : Z := 10000.
Definition table := list (Z * nat).          (* id -> path key *)

Fixpoint lookup (j : Z) (t : table) : option nat :=
  match t with
  | [] => None
  | (k, p) :: r => if k =? j then Some p else lookup j r
  end.

Definition bind (j : Z) (p : nat) (t : table) : table :=
  match lookup j t with None => (j, p) :: t | Some _ => t end.

(* the while loop; [fuel] bounds the number of increments (10000 suffice, probe_total) *)
Fixpoint probe (fuel : nat) (t : table) (p : nat) (j : Z) : option Z :=
  if M <=? Z.of_nat (length t) then Some j else
  match lookup j t with
  | None => Some j
  | Some q =>
      if Nat.eqb q p then Some j else
      match fuel with
      | O => None
      | S f => probe f t p ((j + 1) mod M)
      end
  end.

Definition add_job (t : table) (p : nat) (h : Z) : option (Z * table) :=
  match probe (Z.to_nat M) t p (h mod M) with
  | None => None
  | Some j => Some (j, bind j p t)
  end.

(* the inputs of one run in -i order: (path key, crc32 of the path) *)
Fixpoint assign (t : table) (l : list (nat * Z)) : option (list Z) :=
  match l with
  | [] => Some []
  | (p, h) :: r =>
      match add_job t p h with
      | None => None
      | Some (j, t') => match assign t' r with None => None | Some js => Some (j :: js) end
      end
  end.

Definition run_ids (top_hash : Z) (l : list (nat * Z)) : option (list Z) :=
  match add_job [] 0%nat top_hash with
  | None => None
  | Some (_, t) => assign t l
  end.
