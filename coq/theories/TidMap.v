(* tid_mapping.py: TIDMappingContext + map_tid_to_range (FLEX slices only; everything else passes unchanged).
   The context keeps the tids in order of first appearance (tid_original) and the eye-friendly numbers handed out
   (tid_remap, pre-filled with remap_size entries start, start+step, ...).  Since the repair of the IndexError defect
   (more than remap_size distinct tids in one run) the range is continued on demand:
       if len(tid_original) > len(tid_remap): tid_remap.append(tid_remap[-1] + remap_step)
   [None] = the IndexError the Python code raises (tid_remap[-1] of an empty list / tid_remap[index] out of range).
   Since the repair of the lane-1000 defect (a device stream that shows up first took the number the host slices of a rank
   are merged onto) the first entry is kept free when the very first slice is a device slice:
       if len(tid_original) == 0 and "TS1" in event["args"]: tid_original.append(None)
   tid_original is therefore a list of [option Z] (None = the placeholder, equal to no tid). *)
From Coq Require Import ZArith List.
Import ListNotations.
Local Open Scope Z_scope.

Record tstate := mkT { t_orig : list (option Z); t_remap : list Z }.

Definition t_init (size : nat) (start step : Z) : tstate :=
  mkT [] (map (fun i => start + Z.of_nat i * step) (seq 0 size)).

Definition slot_is (x : Z) (y : option Z) : bool := match y with Some v => Z.eqb x v | None => false end.

Fixpoint index_of (x : Z) (l : list (option Z)) : option nat :=
  match l with
  | [] => None
  | y :: r => if slot_is x y then Some 0%nat else option_map S (index_of x r)
  end.

(* the `if tid not in context.tid_original:` block; dev = the slice carries TS1 (a device slice) *)
Definition t_register (step : Z) (s : tstate) (dev : bool) (tid : Z) : option tstate :=
  match index_of tid (t_orig s) with
  | Some _ => Some s
  | None =>
      let o0 := match t_orig s with [] => if dev then [None] else [] | _ => t_orig s end in
      let o' := o0 ++ [Some tid] in
      if Nat.ltb (length (t_remap s)) (length o') then
        match rev (t_remap s) with
        | [] => None                                   (* tid_remap[-1] of an empty list *)
        | lastv :: _ => Some (mkT o' (t_remap s ++ [lastv + step]))
        end
      else Some (mkT o' (t_remap s))
  end.

(* one FLEX slice through map_tid_to_range: new state and the new tid *)
Definition t_step (step : Z) (s : tstate) (dt : bool * Z) : option (tstate * Z) :=
  let tid := snd dt in
  match t_register step s (fst dt) tid with
  | None => None
  | Some s' =>
      match index_of tid (t_orig s') with
      | None => Some (s', 0)                           (* tid_new = 0 stays (cannot happen: the tid was just registered) *)
      | Some i => match nth_error (t_remap s') i with
                  | Some v => Some (s', v)
                  | None => None                       (* tid_remap[index]: IndexError *)
                  end
      end
  end.

Fixpoint t_run (step : Z) (s : tstate) (tids : list (bool * Z)) : option (tstate * list Z) :=
  match tids with
  | [] => Some (s, [])
  | t :: r =>
      match t_step step s t with
      | None => None
      | Some (s', v) =>
          match t_run step s' r with
          | None => None
          | Some (s'', vs) => Some (s'', v :: vs)
          end
      end
  end.

(* what the correspondence check evaluates *)
Definition tidmap_val (size : nat) (start step : Z) (tids : list (bool * Z)) : option (list Z) :=
  option_map snd (t_run step (t_init size start step) tids).

From Coq Require Import String.
From AiuModel Require Import Base.

(* input of the tie: ((remap_size, (remap_start, remap_step)), (device?, tid) of the FLEX slices in stream order) *)
Definition tidmap_tie (c : (nat * (Z * Z)) * list (bool * Z)) : val :=
  match tidmap_val (fst (fst c)) (fst (snd (fst c))) (snd (snd (fst c))) (snd c) with
  | Some vs => VL (map VZ vs)
  | None => VE "IndexError"%string
  end.
