(* Flow_proofs.v - lemmas and proofs about the model in Flow.v (property C09).
   Sections: generic; ids and the emission invariant (every run emits numbered send/receive pairs);
   consequences (paired ids, placement, pass-through cleanliness); order-independent characterisation of
   detect_final and its permutation invariance; the canonical chain all-reduce group for any number of ranks. *)
From Coq Require Import ZArith QArith Qabs List Bool String Ascii Lia Permutation.
Import ListNotations.
From AiuModel Require Import Base Flow.
Local Open Scope Z_scope.

(* ---------- generic *)
Lemma bind_ok {A B} (r : res A) (f : A -> res B) b :
  bind r f = Ok b -> exists a, r = Ok a /\ f a = Ok b.
Proof. destruct r; simpl; intros H; [eauto | discriminate]. Qed.

Lemma insert_sorted_perm {A} (leb : A -> A -> bool) x l : Permutation (insert_sorted leb x l) (x :: l).
Proof.
  induction l as [|y r IH]; simpl; [reflexivity|].
  destruct (leb x y); [reflexivity|]. rewrite IH. apply perm_swap.
Qed.
Lemma isort_perm {A} (leb : A -> A -> bool) l : Permutation (isort leb l) l.
Proof.
  induction l as [|x r IH]; [reflexivity|]. unfold isort in *. simpl.
  rewrite insert_sorted_perm. now constructor.
Qed.
Lemma filter_perm {A} (p : A -> bool) l l' : Permutation l l' -> Permutation (filter p l) (filter p l').
Proof.
  induction 1; simpl; try reflexivity.
  - destruct (p x); [now constructor | assumption].
  - destruct (p x), (p y); try reflexivity. apply perm_swap.
  - etransitivity; eassumption.
Qed.

(* ---------- ids *)
Fixpoint ids_from (n : Z) (k : nat) : list Z :=
  match k with O => [] | S k' => (n + 1) :: ids_from (n + 1) k' end.
Lemma ids_from_app n a b : ids_from n (a + b) = ids_from n a ++ ids_from (n + Z.of_nat a) b.
Proof.
  revert n; induction a as [|a IH]; intros n; simpl.
  - now rewrite Z.add_0_r.
  - rewrite IH. do 3 f_equal. lia.
Qed.
Lemma ids_from_lt n k x : In x (ids_from n k) -> n < x <= n + Z.of_nat k.
Proof.
  revert n; induction k as [|k IH]; intros n; simpl; [tauto|].
  intros [<-|H]; [lia|]. apply IH in H. lia.
Qed.
Lemma ids_from_nodup n k : NoDup (ids_from n k).
Proof.
  revert n; induction k as [|k IH]; intros n; simpl; constructor; [|apply IH].
  intros H. apply ids_from_lt in H. lia.
Qed.

Definition flows_of (np : list (Z * (hev * hev))) : list oev := flat_map pair_events np.

Lemma number_pairs_fst n ps : map fst (number_pairs n ps) = ids_from n (List.length ps).
Proof. revert n; induction ps as [|p r IH]; intros n; simpl; [reflexivity|]. now rewrite IH. Qed.
Lemma number_pairs_snd n ps : map snd (number_pairs n ps) = ps.
Proof. revert n; induction ps as [|p r IH]; intros n; simpl; [reflexivity|]. now rewrite IH. Qed.

Lemma flows_of_cons id e d r : flows_of ((id, (e, d)) :: r) = mk_s id e :: mk_f id e d :: flows_of r.
Proof. reflexivity. Qed.
Lemma flows_all_flow np : filter is_flow (flows_of np) = flows_of np.
Proof.
  induction np as [|[id [e d]] r IH]; [reflexivity|].
  rewrite flows_of_cons. cbn [filter].
  replace (is_flow (mk_s id e)) with true by reflexivity.
  replace (is_flow (mk_f id e d)) with true by reflexivity.
  now rewrite IH.
Qed.
Lemma flows_of_app a b : flows_of (a ++ b) = flows_of a ++ flows_of b.
Proof. unfold flows_of. apply flat_map_app. Qed.

Lemma cleanup_flows l : filter is_flow (cleanup l) = filter is_flow l.
Proof.
  unfold cleanup. induction l as [|o r IH]; simpl; [reflexivity|].
  destruct (String.eqb (o_ph o) "F") eqn:E; simpl.
  - apply String.eqb_eq in E. unfold is_flow at 2. rewrite E. simpl. exact IH.
  - destruct (is_flow o); now rewrite IH.
Qed.

(* ---------- the emission invariant *)
Section Inv.
Variable P : hev -> Prop.

Definition queues_ok (gs : list grp) : Prop := Forall (fun g => Forall P (g_queue g)) gs.
Definition pair_good (p : hev * hev) : Prop :=
  P (fst p) /\ P (snd p) /\ h_type (fst p) = T_SEND /\ h_type (snd p) = T_DONE /\
  h_sync (snd p) = h_sync (fst p) /\ exists rest, h_peers (fst p) = h_pid (snd p) :: rest.
Definition emits (n n' : Z) (fl : list oev) : Prop :=
  exists np, Permutation fl (flows_of np) /\ map fst np = ids_from n (List.length np) /\
             n' = n + Z.of_nat (List.length np) /\ Forall pair_good (map snd np).

Lemma emits_nil n : emits n n [].
Proof. exists []. simpl. repeat split; auto. lia. Qed.

Lemma emits_app n n1 n2 a b : emits n n1 a -> emits n1 n2 b -> emits n n2 (a ++ b).
Proof.
  intros (np1 & Hp1 & Hi1 & Hn1 & Hg1) (np2 & Hp2 & Hi2 & Hn2 & Hg2).
  exists (np1 ++ np2). rewrite flows_of_app, !map_app, app_length, ids_from_app, Forall_app.
  repeat split; auto.
  - now apply Permutation_app.
  - rewrite Hi1, Hi2. now subst n1.
  - subst. lia.
Qed.

Lemma emits_perm n n' a b : Permutation a b -> emits n n' b -> emits n n' a.
Proof. intros H (np & Hp & R). exists np. split; [now rewrite H | exact R]. Qed.

Lemma find_partner_good e q o :
  Forall P q -> find_partner e q = Ok o -> match o with Some d => P d /\ h_type d = T_DONE /\
     h_sync d = h_sync e /\ exists rest, h_peers e = h_pid d :: rest | None => True end.
Proof.
  unfold find_partner. intros Hq. destruct (h_peers e) as [|p rest] eqn:E; [discriminate|].
  intros H; inversion H; subst o; clear H.
  destruct (find (partner_ok e p) q) as [d|] eqn:F; [|exact I].
  apply find_some in F. destruct F as [Hin Hok].
  unfold partner_ok in Hok. apply andb_prop in Hok. destruct Hok as [Hok Hpid].
  apply andb_prop in Hok. destruct Hok as [Hs Ht].
  apply String.eqb_eq in Hs. apply Z.eqb_eq in Ht. apply Z.eqb_eq in Hpid.
  repeat split; auto.
  - rewrite Forall_forall in Hq. now apply Hq.
  - exists rest. now rewrite Hpid.
Qed.

Lemma build_pairs_from_good q rest ps :
  Forall P q -> Forall P rest -> build_pairs_from q rest = Ok ps -> Forall pair_good ps.
Proof.
  intros Hq. revert ps. induction rest as [|e r IH]; intros ps Hr H; simpl in H.
  - inversion H. constructor.
  - inversion Hr as [|? ? He Hr']; subst.
    destruct (h_type e =? T_SEND) eqn:Et; [|now apply IH].
    apply bind_ok in H. destruct H as (o & Ho & H).
    apply bind_ok in H. destruct H as (ps' & Hps & H).
    inversion H; subst ps; clear H.
    pose proof (find_partner_good e q o Hq Ho) as G.
    specialize (IH ps' Hr' Hps).
    destruct o as [d|]; [|exact IH].
    constructor; [|exact IH]. destruct G as (Pd & Td & Sd & Rd).
    unfold pair_good; simpl. apply Z.eqb_eq in Et. repeat split; auto.
Qed.

Lemma build_flows_emits c q c' out :
  Forall P q -> build_flows c q = Ok (c', out) ->
  emits (c_next c) (c_next c') out /\ c_groups c' = c_groups c /\ filter is_flow out = out.
Proof.
  intros Hq H. unfold build_flows in H. apply bind_ok in H. destruct H as (ps & Hps & H).
  inversion H; subst c' out; clear H. simpl. split; [|split; [reflexivity|]].
  - exists (number_pairs (c_next c) ps). rewrite number_pairs_fst, number_pairs_snd.
    assert (L : List.length (number_pairs (c_next c) ps) = List.length ps).
    { rewrite <- (map_length fst), number_pairs_fst.
      clear. generalize (c_next c). induction (List.length ps); intros; simpl; auto. }
    rewrite L. repeat split; auto.
    apply (build_pairs_from_good q q ps Hq Hq Hps).
  - apply flows_all_flow.
Qed.

Lemma remove_group_ok cat gs : queues_ok gs -> queues_ok (remove_group cat gs).
Proof.
  unfold queues_ok, remove_group. rewrite !Forall_forall. intros H g Hg.
  apply filter_In in Hg. now apply H.
Qed.

Lemma check_drop_ok c g ts :
  queues_ok (c_groups c) -> queues_ok (c_groups (check_drop c g ts)) /\ c_next (check_drop c g ts) = c_next c.
Proof.
  intros H. unfold check_drop. destruct (is_stale _ _ _); simpl; auto using remove_group_ok.
Qed.

Lemma scan_inv cands : forall c ts c' out,
  queues_ok (c_groups c) -> queues_ok cands -> scan c cands ts = Ok (c', out) ->
  queues_ok (c_groups c') /\ emits (c_next c) (c_next c') (filter is_flow out).
Proof.
  induction cands as [|g r IH]; intros c ts c' out Hc Hr H; simpl in H.
  - inversion H; subst. split; [assumption | apply emits_nil].
  - inversion Hr as [|? ? Hg Hr']; subst.
    destruct (detect_final (g_queue g)).
    + apply bind_ok in H. destruct H as ([c1 o1] & Hb & H). inversion H; subst c' out; clear H. simpl.
      apply build_flows_emits in Hb; [|exact Hg]. destruct Hb as (He & Hgs & Hf). simpl in *.
      split.
      * rewrite Hgs. now apply remove_group_ok.
      * eapply emits_perm; [apply filter_perm, isort_perm|]. now rewrite Hf.
    + destruct (check_drop_ok c g ts Hc) as [Hc1 Hn1].
      specialize (IH _ ts c' out Hc1 Hr' H). now rewrite Hn1 in IH.
Qed.

Lemma upd_group_ok cat f gs :
  queues_ok gs -> (forall og, match og with Some g => Forall P (g_queue g) | None => True end -> Forall P (g_queue (f og))) ->
  queues_ok (upd_group cat f gs).
Proof.
  intros H Hf. induction gs as [|g r IH]; simpl.
  - constructor; [apply (Hf None I) | constructor].
  - inversion H; subst. destruct (String.eqb (g_cat g) cat).
    + constructor; [apply (Hf (Some g)); assumption | assumption].
    + constructor; [assumption | now apply IH].
Qed.

Lemma insert_inv c h c1 :
  queues_ok (c_groups c) -> P h -> insert c h = Ok c1 -> queues_ok (c_groups c1) /\ c_next c1 = c_next c.
Proof.
  intros Hc Ph H. unfold insert in H. destruct (h_dur h); [|discriminate].
  destruct (Qlt_b 0 q); [|discriminate]. inversion H; subst c1; clear H. simpl. split; [|reflexivity].
  apply upd_group_ok; [assumption|]. intros og Hog. unfold insert_grp.
  destruct og as [g|]; simpl; [apply Forall_app; split; auto | repeat constructor; assumption].
Qed.

Lemma candidates_ok c ts : queues_ok (c_groups c) -> queues_ok (candidates c ts).
Proof.
  unfold queues_ok, candidates. rewrite !Forall_forall. intros H g Hg. apply filter_In in Hg. now apply H.
Qed.

Lemma extract_inv c h c' out :
  queues_ok (c_groups c) -> P h -> extract c h = Ok (c', out) ->
  queues_ok (c_groups c') /\ emits (c_next c) (c_next c') (filter is_flow out).
Proof.
  intros Hc Ph H. unfold extract in H. apply bind_ok in H. destruct H as (c1 & Hi & H).
  destruct (insert_inv _ _ _ Hc Ph Hi) as [Hc1 Hn1].
  apply scan_inv in H; auto using candidates_ok. now rewrite Hn1 in H.
Qed.

Definition plain (e : iev) : Prop := is_flow (pass_of e) = false.

Lemma prep_ph e e1 oh : prep e = Ok (e1, oh) -> i_ph e1 = i_ph e.
Proof.
  unfold prep. destruct (negb (ph_in_Xbe (i_ph e) && i_args e)); [intros H; now inversion H|].
  intros H. apply bind_ok in H. destruct H as (peers & _ & H).
  destruct (find_sync _); [|now inversion H].
  apply bind_ok in H. destruct H as (ty & _ & H).
  destruct (i_job _); [|discriminate]. destruct peers; [|discriminate]. now inversion H.
Qed.

Lemma step_inv c e c' out :
  queues_ok (c_groups c) -> plain e -> (forall e1 h, prep e = Ok (e1, Some h) -> P h) ->
  step c e = Ok (c', out) ->
  queues_ok (c_groups c') /\ emits (c_next c) (c_next c') (filter is_flow out).
Proof.
  intros Hc Hpl Hp H. unfold step in H. apply bind_ok in H. destruct H as ([e1 oh] & Hprep & H).
  assert (Hf : is_flow (pass_of e1) = false).
  { unfold plain, is_flow, pass_of in *. simpl in *. now rewrite (prep_ph _ _ _ Hprep). }
  destruct oh as [h|].
  - apply bind_ok in H. destruct H as ([c2 o2] & He & H). cbn [fst snd] in H.
    assert (E : c' = c2 /\ out = cleanup (pass_of e1 :: o2)) by (split; congruence).
    destruct E; subst c' out; clear H.
    rewrite cleanup_flows. cbn [filter]. rewrite Hf.
    eapply extract_inv; eauto.
  - assert (E : c' = c /\ out = cleanup [pass_of e1]) by (split; congruence).
    destruct E; subst c' out; clear H. rewrite cleanup_flows. cbn [filter]. rewrite Hf.
    split; [assumption | apply emits_nil].
Qed.

Lemma filter_app' {A} (p : A -> bool) a b : filter p (a ++ b) = filter p a ++ filter p b.
Proof. apply filter_app. Qed.

Lemma steps_inv es : forall c c' out,
  queues_ok (c_groups c) -> Forall plain es ->
  (forall e e1 h, In e es -> prep e = Ok (e1, Some h) -> P h) ->
  steps c es = Ok (c', out) ->
  queues_ok (c_groups c') /\ emits (c_next c) (c_next c') (filter is_flow out).
Proof.
  induction es as [|e r IH]; intros c c' out Hc Hpl Hp H; simpl in H.
  - inversion H; subst. split; [assumption | apply emits_nil].
  - inversion Hpl; subst.
    apply bind_ok in H. destruct H as ([c1 o1] & Hs & H).
    apply bind_ok in H. destruct H as ([c2 o2] & Hr & H). inversion H; subst c' out; clear H. simpl in *.
    apply step_inv in Hs; auto; [|intros; eapply Hp; eauto].
    destruct Hs as [Hc1 He1].
    apply IH in Hr; auto; [|intros; eapply Hp; eauto].
    destruct Hr as [Hc2 He2]. split; [assumption|].
    rewrite filter_app. eapply emits_app; eauto.
Qed.

Lemma drain_groups_inv gs : forall c c' out,
  queues_ok gs -> drain_groups c gs = Ok (c', out) ->
  emits (c_next c) (c_next c') (filter is_flow out).
Proof.
  induction gs as [|g r IH]; intros c c' out Hg H; simpl in H.
  - inversion H; subst. apply emits_nil.
  - inversion Hg; subst. destruct (detect_final (g_queue g)).
    + apply bind_ok in H. destruct H as ([c1 o1] & Hb & H).
      apply bind_ok in H. destruct H as ([c2 o2] & Hd & H). inversion H; subst c' out; clear H. simpl in *.
      apply build_flows_emits in Hb; auto. destruct Hb as (He & _ & Hf).
      apply IH in Hd; auto. rewrite filter_app, Hf. eapply emits_app; eauto.
    + apply IH in H; auto.
Qed.

Theorem run_flow_emits es c out :
  Forall plain es -> (forall e e1 h, In e es -> prep e = Ok (e1, Some h) -> P h) ->
  run_flow es = Ok (c, out) ->
  emits 1000000 (c_next c) (filter is_flow out).
Proof.
  intros Hpl Hp H. unfold run_flow in H.
  apply bind_ok in H. destruct H as ([c1 o1] & Hs & H).
  apply bind_ok in H. destruct H as ([c2 o2] & Hd & H). inversion H; subst c out; clear H. simpl in *.
  apply steps_inv in Hs; auto; [|constructor]. destruct Hs as [Hc1 He1].
  unfold drain in Hd. apply drain_groups_inv in Hd; auto. simpl in *.
  rewrite filter_app, cleanup_flows. eapply emits_app; eauto.
Qed.
End Inv.

(* ---------- consequences *)
Definition no_flow_input (es : list iev) : Prop := Forall plain es.

Definition from_input (es : list iev) (h : hev) : Prop :=
  exists e e1, In e es /\ prep e = Ok (e1, Some h).

(* the arrows of a run: numbered pairs, every member a helper copy of an input slice *)
Theorem run_flow_pairs es c out :
  no_flow_input es -> run_flow es = Ok (c, out) ->
  exists np, Permutation (filter is_flow out) (flows_of np) /\
             map fst np = ids_from 1000000 (List.length np) /\
             c_next c = 1000000 + Z.of_nat (List.length np) /\
             Forall (pair_good (from_input es)) (map snd np).
Proof.
  intros Hpl H. eapply (run_flow_emits (from_input es)) in H; eauto.
  intros e e1 h Hin Hp. exists e, e1. auto.
Qed.

Definition cnt (ph : string) (i : Z) (l : list oev) : nat :=
  List.length (filter (fun o => String.eqb (o_ph o) ph && match o_id o with Some j => j =? i | None => false end) l).

Lemma cnt_perm ph i a b : Permutation a b -> cnt ph i a = cnt ph i b.
Proof. intros H. unfold cnt. apply Permutation_length. now apply filter_perm. Qed.

Lemma cnt_flows ph i np : (ph = "s" \/ ph = "f")%string ->
  cnt ph i (flows_of np) = count_occ Z.eq_dec (map fst np) i.
Proof.
  intros Hph. induction np as [|[id [e d]] r IH]; [reflexivity|].
  rewrite flows_of_cons. unfold cnt in *. cbn [filter map fst count_occ].
  cbn [mk_s mk_f o_ph o_id].
  destruct (Z.eq_dec id i) as [->|Hne].
  - rewrite Z.eqb_refl. destruct Hph as [-> | ->]; cbn; now rewrite IH.
  - apply Z.eqb_neq in Hne. rewrite Hne. rewrite !andb_false_r. exact IH.
Qed.

Lemma cnt_filter ph i l : (ph = "s" \/ ph = "f")%string -> cnt ph i (filter is_flow l) = cnt ph i l.
Proof.
  intros Hph. unfold cnt. induction l as [|o r IH]; [reflexivity|]. cbn [filter].
  destruct (is_flow o) eqn:F; cbn [filter].
  - destruct (_ && _); cbn [List.length]; now rewrite IH.
  - assert (E : String.eqb (o_ph o) ph = false).
    { unfold is_flow in F. apply orb_false_elim in F. destruct F as [F1 F2]. destruct Hph as [-> | ->]; assumption. }
    rewrite E. cbn. exact IH.
Qed.

(* every id occurs on exactly one s and one f (or on none), with the same name *)
Theorem ids_paired es c out :
  no_flow_input es -> run_flow es = Ok (c, out) ->
  forall i, cnt "s" i out = cnt "f" i out /\ (cnt "s" i out <= 1)%nat /\
            (forall a b, In a out -> In b out -> is_flow a = true -> is_flow b = true ->
                         o_id a = Some i -> o_id b = Some i -> o_name a = o_name b).
Proof.
  intros Hpl H i. destruct (run_flow_pairs es c out Hpl H) as (np & Hp & Hi & _ & _).
  assert (ND : NoDup (map fst np)) by (rewrite Hi; apply ids_from_nodup).
  rewrite <- (cnt_filter "s" i out), <- (cnt_filter "f" i out) by auto.
  rewrite (cnt_perm _ _ _ _ Hp), (cnt_perm "f" _ _ _ Hp), !cnt_flows by auto.
  split; [reflexivity|]. split.
  - now apply NoDup_count_occ.
  - intros a b Ha Hb Fa Fb Ia Ib.
    assert (Ha' : In a (flows_of np)).
    { apply (Permutation_in _ Hp). apply filter_In. auto. }
    assert (Hb' : In b (flows_of np)).
    { apply (Permutation_in _ Hp). apply filter_In. auto. }
    clear - ND Ha' Hb' Ia Ib.
    assert (K : forall x, In x (flows_of np) -> o_id x = Some i ->
                exists e d, In (i, (e, d)) np /\ o_name x = h_sync e).
    { intros x Hx Ix. unfold flows_of in Hx. apply in_flat_map in Hx. destruct Hx as ([id [e d]] & Hin & Hx).
      simpl in Hx. destruct Hx as [<-|[<-|[]]]; simpl in Ix; inversion Ix; subst; eauto. }
    destruct (K a Ha' Ia) as (e1 & d1 & In1 & N1). destruct (K b Hb' Ib) as (e2 & d2 & In2 & N2).
    assert (E : (e1, d1) = (e2, d2)).
    { clear - ND In1 In2. induction np as [|[j p] r IH]; [destruct In1|].
      simpl in ND. inversion ND as [|? ? Hn ND']; subst.
      destruct In1 as [E1|In1], In2 as [E2|In2].
      - congruence.
      - inversion E1; subst. exfalso. apply Hn. change i with (fst (i, (e2, d2))). now apply in_map.
      - inversion E2; subst. exfalso. apply Hn. change i with (fst (i, (e1, d1))). now apply in_map.
      - now apply IH. }
    inversion E; subst. congruence.
Qed.

(* the pairing of one group check: exactly the SEND events that have a DONE partner, in queue order *)
Definition has_partner (q : list hev) (e : hev) : bool :=
  match h_peers e with p :: _ => existsb (partner_ok e p) q | [] => false end.

Lemma find_existsb {A} (p : A -> bool) l : existsb p l = match find p l with Some _ => true | None => false end.
Proof. induction l as [|x r IH]; simpl; [reflexivity|]. destruct (p x); simpl; auto. Qed.

Lemma build_pairs_from_complete q rest ps :
  build_pairs_from q rest = Ok ps ->
  map fst ps = filter (fun e => (h_type e =? T_SEND) && has_partner q e) rest /\
  Forall (fun p => In (fst p) rest /\ In (snd p) q) ps.
Proof.
  revert ps. induction rest as [|e r IH]; intros ps H; simpl in H.
  - inversion H. split; [reflexivity | constructor].
  - cbn [filter]. destruct (h_type e =? T_SEND) eqn:Et; cbn [andb].
    + apply bind_ok in H. destruct H as (o & Ho & H). apply bind_ok in H. destruct H as (ps' & Hps & H).
      inversion H; subst ps; clear H. destruct (IH _ Hps) as [IH1 IH2].
      assert (IH2' : Forall (fun p => In (fst p) (e :: r) /\ In (snd p) q) ps').
      { eapply Forall_impl; [|exact IH2]. simpl. intuition. }
      unfold find_partner in Ho. unfold has_partner. destruct (h_peers e) as [|p rest']; [discriminate|].
      inversion Ho; subst o; clear Ho. rewrite find_existsb.
      destruct (find (partner_ok e p) q) as [d|] eqn:F.
      * simpl. rewrite IH1. split; [reflexivity|]. constructor; [|exact IH2'].
        simpl. split; [now left|]. now apply find_some in F.
      * split; assumption.
    + destruct (IH _ H) as [IH1 IH2]. split; [assumption|].
      eapply Forall_impl; [|exact IH2]. simpl. intuition.
Qed.

(* placement of the two arrow ends *)
Lemma arrow_fields id e d :
  let s := mk_s id e in let f := mk_f id e d in
  o_ph s = "s"%string /\ o_ph f = "f"%string /\ o_id s = Some id /\ o_id f = Some id /\
  o_name s = h_sync e /\ o_name f = h_sync e /\
  o_pid s = h_pid e /\ o_tid s = h_tid e /\ o_ts s = h_ts e /\
  o_pid f = h_pid d /\ o_tid f = h_tid d /\ o_bp f = true /\ o_bp s = false /\
  o_ts f = b64_round (h_end d - c_0001)%Q /\ o_dur s = None /\ o_dur f = None.
Proof. cbv zeta. repeat split. Qed.

Lemma f_exact_inside d dur :
  h_dur d = Some dur -> (c_0001 <= dur)%Q ->
  (h_ts d <= h_end d - c_0001)%Q /\ (h_end d - c_0001 < h_end d)%Q.
Proof.
  intros Hd Hle. unfold h_end. rewrite Hd. split.
  - apply Qle_minus_iff. apply Qle_minus_iff in Hle.
    setoid_replace (h_ts d + dur - c_0001 + - h_ts d)%Q with (dur + - c_0001)%Q by ring. exact Hle.
  - apply Qlt_minus_iff. setoid_replace (h_ts d + dur + - (h_ts d + dur - c_0001))%Q with c_0001 by ring.
    reflexivity.
Qed.

(* no helper event leaves the three stages *)
Lemma steps_clean es : forall c c' out, steps c es = Ok (c', out) -> Forall (fun o => o_ph o <> "F"%string) out.
Proof.
  induction es as [|e r IH]; intros c c' out H; simpl in H.
  - inversion H. constructor.
  - apply bind_ok in H. destruct H as ([c1 o1] & Hs & H). apply bind_ok in H. destruct H as ([c2 o2] & Hr & H).
    cbn [fst snd] in H. assert (E : out = o1 ++ o2) by congruence. subst out.
    apply Forall_app. split; [|eapply IH; eauto].
    unfold step in Hs. apply bind_ok in Hs. destruct Hs as ([e1 oh] & _ & Hs).
    assert (C : exists l, o1 = cleanup l).
    { destruct oh.
      - apply bind_ok in Hs. destruct Hs as (y & _ & Hs). exists (pass_of e1 :: snd y). congruence.
      - exists [pass_of e1]. congruence. }
    destruct C as [l ->]. apply Forall_forall. intros o Ho.
    unfold cleanup in Ho. apply filter_In in Ho. destruct Ho as [_ Ho]. intros E. rewrite E in Ho. discriminate.
Qed.

Theorem run_flow_clean es c out : run_flow es = Ok (c, out) -> Forall (fun o => o_ph o <> "F"%string) out.
Proof.
  intros H. unfold run_flow in H. apply bind_ok in H. destruct H as ([c1 o1] & Hs & H).
  apply bind_ok in H. destruct H as ([c2 o2] & Hd & H). cbn [fst snd] in H.
  assert (E : out = o1 ++ cleanup o2) by congruence. subst out. apply Forall_app. split.
  - eapply steps_clean; eauto.
  - apply Forall_forall. intros o Ho. unfold cleanup in Ho. apply filter_In in Ho. destruct Ho as [_ Ho].
    intros E. rewrite E in Ho. discriminate.
Qed.

(* ---------- detect_final: order-independent characterisation *)
Definition hard (h : hev) : bool := (h_type h =? T_BCLIST) || (h_type h =? T_MCAST).
Definition open_c (h : hev) : Z :=
  if h_type h =? T_BCLIST then Z.of_nat (List.length (h_peers h))
  else if h_type h =? T_MCAST then 1 else if h_type h =? T_SEND then 1 else 0.
Definition close_c (h : hev) : Z := if h_type h =? T_DONE then 1 else 0.
Definition sum_z (f : hev -> Z) (l : list hev) : Z := fold_right (fun h a => f h + a) 0 l.
Definition pids (h : hev) : list Z := h_pid h :: h_peers h.
Definition npeers (l : list hev) : Z := Z.of_nat (List.length (nodup Z.eq_dec (flat_map pids l))).
Definition closed_of (np op cl : Z) (mc : bool) : bool :=
  let closed0 := (1 <? np) && (0 <? cl) in
  if mc then closed0 && (2 * np - 1 =? op) && (cl =? np - 1) else closed0 && (0 <? op) && (cl =? np - 1).
Definition closed_spec (l : list hev) : bool :=
  closed_of (npeers l) (sum_z open_c l) (sum_z close_c l) (existsb hard l || (2 <? npeers l)).
Definition evs (s : string) (q : list hev) : list hev := filter (fun h => String.eqb (h_sync h) s) q.
Definition tags (q : list hev) : list string := nodup string_dec (map h_sync q).
Definition detect_spec (q : list hev) : bool :=
  (1 <? Z.of_nat (List.length (tags q))) && forallb (fun s => closed_spec (evs s q)) (tags q).

Definition init (s : string) : sg := mkS s false false 0 0 [].
Definition F (s : string) (q : list hev) : sg := fold_left sg_step (evs s q) (init s).

Lemma sum_z_app f a b : sum_z f (a ++ b) = sum_z f a + sum_z f b.
Proof. induction a; simpl; lia. Qed.

Lemma add_set_in x l y : In y (add_set x l) <-> y = x \/ In y l.
Proof.
  unfold add_set. destruct (existsb (Z.eqb x) l) eqn:E.
  - apply existsb_exists in E. destruct E as (z & Hz & Ez). apply Z.eqb_eq in Ez. subst z. intuition. subst; auto.
  - rewrite in_app_iff. simpl. intuition.
Qed.
Lemma nodup_snoc {A} (x : A) l : NoDup l -> ~ In x l -> NoDup (l ++ [x]).
Proof.
  intros H Hx. induction H as [|y r Hy Hr IH]; simpl.
  - repeat constructor. intros [].
  - constructor.
    + rewrite in_app_iff. simpl. intros [K|[K|[]]]; [now apply Hy|]. subst. apply Hx. now left.
    + apply IH. intros K. apply Hx. now right.
Qed.
Lemma add_set_nodup x l : NoDup l -> NoDup (add_set x l).
Proof.
  intros H. unfold add_set. destruct (existsb (Z.eqb x) l) eqn:E; [assumption|].
  apply nodup_snoc; [assumption|]. intros K.
  assert (existsb (Z.eqb x) l = true) by (apply existsb_exists; exists x; split; [assumption | apply Z.eqb_refl]).
  congruence.
Qed.
Lemma add_set_len x l : (List.length l <= List.length (add_set x l))%nat.
Proof. unfold add_set. destruct (existsb _ _); [lia|]. rewrite app_length. simpl. lia. Qed.

Definition peers_step (acc : list Z) (h : hev) : list Z :=
  fold_left (fun acc p => add_set p acc) (h_peers h) (add_set (h_pid h) acc).

Lemma fold_add_in ps : forall acc y, In y (fold_left (fun acc p => add_set p acc) ps acc) <-> In y ps \/ In y acc.
Proof.
  induction ps as [|p r IH]; intros acc y; simpl; [tauto|].
  rewrite IH, add_set_in. intuition.
Qed.
Lemma fold_add_nodup ps : forall acc, NoDup acc -> NoDup (fold_left (fun acc p => add_set p acc) ps acc).
Proof. induction ps as [|p r IH]; intros acc H; simpl; [assumption|]. apply IH. now apply add_set_nodup. Qed.
Lemma fold_add_len ps : forall acc, (List.length acc <= List.length (fold_left (fun acc p => add_set p acc) ps acc))%nat.
Proof.
  induction ps as [|p r IH]; intros acc; simpl; [lia|].
  etransitivity; [apply (add_set_len p)|apply IH].
Qed.
Lemma peers_step_in acc h y : In y (peers_step acc h) <-> In y (pids h) \/ In y acc.
Proof. unfold peers_step, pids. rewrite fold_add_in, add_set_in. simpl. intuition. Qed.
Lemma peers_step_nodup acc h : NoDup acc -> NoDup (peers_step acc h).
Proof. intros. unfold peers_step. now apply fold_add_nodup, add_set_nodup. Qed.
Lemma peers_step_len acc h : (List.length acc <= List.length (peers_step acc h))%nat.
Proof. unfold peers_step. etransitivity; [apply (add_set_len (h_pid h))|apply fold_add_len]. Qed.

Lemma len_nodup_set (l1 l2 : list Z) : NoDup l1 -> (forall y, In y l1 <-> In y l2) ->
  List.length l1 = List.length (nodup Z.eq_dec l2).
Proof.
  intros H1 H. apply Permutation_length. apply NoDup_Permutation; [assumption | apply NoDup_nodup|].
  intros y. rewrite nodup_In. apply H.
Qed.

Lemma sg_step_fields st h :
  s_key (sg_step st h) = s_key st /\
  s_peers (sg_step st h) = peers_step (s_peers st) h /\
  s_open (sg_step st h) = s_open st + open_c h /\
  s_close (sg_step st h) = s_close st + close_c h /\
  s_mcast (sg_step st h) = (s_mcast st || hard h || (2 <? Z.of_nat (List.length (peers_step (s_peers st) h)))) /\
  s_closed (sg_step st h) = closed_of (Z.of_nat (List.length (peers_step (s_peers st) h)))
                               (s_open st + open_c h) (s_close st + close_c h)
                               (s_mcast st || hard h || (2 <? Z.of_nat (List.length (peers_step (s_peers st) h)))).
Proof.
  unfold sg_step, open_c, close_c, hard, closed_of. fold (peers_step (s_peers st) h).
  set (pl := peers_step (s_peers st) h).
  unfold T_BCLIST, T_MCAST, T_SEND, T_DONE.
  assert (C : h_type h = 1 \/ h_type h = 3 \/ h_type h = 2 \/ h_type h = 4 \/
              (h_type h <> 1 /\ h_type h <> 3 /\ h_type h <> 2 /\ h_type h <> 4)) by lia.
  destruct C as [C|[C|[C|[C|C]]]];
    repeat match goal with
           | |- context [h_type h =? ?k] =>
               first [ replace (h_type h =? k) with true by (symmetry; apply Z.eqb_eq; lia)
                     | replace (h_type h =? k) with false by (symmetry; apply Z.eqb_neq; lia) ]
           end;
    cbv beta iota zeta; cbn [s_key s_peers s_open s_close s_mcast s_closed orb];
    rewrite ?orb_true_r, ?orb_false_r, ?Z.add_0_r; repeat split; reflexivity.
Qed.

(* state of one sync group after its events [l] (in any order of arrival [l]) *)
Lemma fold_sg l : forall s, let st := fold_left sg_step l (init s) in
  s_key st = s /\ NoDup (s_peers st) /\ (forall y, In y (s_peers st) <-> In y (flat_map pids l)) /\
  s_open st = sum_z open_c l /\ s_close st = sum_z close_c l /\
  s_mcast st = (existsb hard l || ((2 <? Z.of_nat (List.length (s_peers st))) && negb (match l with [] => true | _ => false end))) /\
  (l <> [] -> s_closed st = closed_of (Z.of_nat (List.length (s_peers st))) (s_open st) (s_close st) (s_mcast st)).
Proof.
  induction l as [|h l IH] using rev_ind; intros s; cbv zeta.
  - simpl. repeat split; auto; try constructor; try tauto; try congruence.
  - rewrite fold_left_app. cbn [fold_left]. specialize (IH s). cbv zeta in IH.
    set (st := fold_left sg_step l (init s)) in *.
    destruct IH as (K & ND & IN & OP & CL & MC & _).
    destruct (sg_step_fields st h) as (K' & P' & O' & C' & M' & D').
    rewrite K', P', O', C', M', D'. rewrite flat_map_app, !sum_z_app, existsb_app. cbn [flat_map existsb]. unfold sum_z at 2 4. cbn [fold_right].
    rewrite app_nil_r, orb_false_r, ?Z.add_0_r.
    split; [assumption|]. split; [now apply peers_step_nodup|]. split.
    { intros y. rewrite peers_step_in, in_app_iff, IN. tauto. }
    split; [lia|]. split; [lia|].
    assert (ML : s_mcast st || hard h || (2 <? Z.of_nat (List.length (peers_step (s_peers st) h)))
                 = existsb hard l || hard h || ((2 <? Z.of_nat (List.length (peers_step (s_peers st) h))) &&
                    negb match l ++ [h] with [] => true | _ => false end)).
    { assert (NE : match l ++ [h] with [] => true | _ => false end = false) by (destruct l; reflexivity).
      rewrite NE, andb_true_r, MC.
      pose proof (peers_step_len (s_peers st) h) as LE.
      destruct (existsb hard l); [reflexivity|]. cbn [orb].
      destruct (2 <? Z.of_nat (List.length (s_peers st))) eqn:E2; cbn [andb orb]; [|destruct l; reflexivity].
      apply Z.ltb_lt in E2.
      assert (2 <? Z.of_nat (List.length (peers_step (s_peers st) h)) = true) by (apply Z.ltb_lt; lia).
      rewrite H. now rewrite !orb_true_r. }
    split; [exact ML|]. intros _. rewrite OP, CL. reflexivity.
Qed.

Lemma F_closed s q : evs s q <> [] -> s_closed (F s q) = closed_spec (evs s q).
Proof.
  intros NE. unfold F. destruct (fold_sg (evs s q) s) as (_ & ND & IN & OP & CL & MC & CD).
  rewrite (CD NE), OP, CL, MC. unfold closed_spec, npeers.
  rewrite <- (len_nodup_set _ _ ND IN).
  replace (negb match evs s q with [] => true | _ => false end) with true by (destruct (evs s q); [congruence | reflexivity]).
  now rewrite andb_true_r.
Qed.

Lemma evs_snoc s q h : evs s (q ++ [h]) = evs s q ++ (if String.eqb (h_sync h) s then [h] else []).
Proof. unfold evs. rewrite filter_app. simpl. now destruct (String.eqb (h_sync h) s). Qed.

Lemma F_snoc_same q h : F (h_sync h) (q ++ [h]) = sg_step (F (h_sync h) q) h.
Proof. unfold F. rewrite evs_snoc, String.eqb_refl, fold_left_app. reflexivity. Qed.
Lemma F_snoc_other s q h : s <> h_sync h -> F s (q ++ [h]) = F s q.
Proof.
  intros N. unfold F. rewrite evs_snoc. destruct (String.eqb (h_sync h) s) eqn:E.
  - apply String.eqb_eq in E. congruence.
  - now rewrite app_nil_r.
Qed.
Lemma F_key s q : s_key (F s q) = s.
Proof. unfold F. now destruct (fold_sg (evs s q) s) as (K & _). Qed.

Definition table_ok (q : list hev) (t : list sg) : Prop :=
  NoDup (map s_key t) /\ (forall s, In s (map s_key t) <-> In s (map h_sync q)) /\
  Forall (fun st => st = F (s_key st) q) t.

Lemma upd_sg_gen q h : forall t',
  NoDup (map s_key t') -> Forall (fun st => st = F (s_key st) q) t' ->
  (~ In (h_sync h) (map s_key t') -> evs (h_sync h) q = []) ->
  NoDup (map s_key (upd_sg h t')) /\
  (forall s, In s (map s_key (upd_sg h t')) <-> In s (map s_key t') \/ s = h_sync h) /\
  Forall (fun st => st = F (s_key st) (q ++ [h])) (upd_sg h t').
Proof.
  induction t' as [|st r IH]; intros ND FA E0.
  - cbn [upd_sg]. destruct (sg_step_fields (mkS (h_sync h) false false 0 0 []) h) as (K' & _).
    cbn [map]. rewrite K'. cbn [s_key]. split; [repeat constructor; intros []|].
    split; [intros s; simpl; intuition|].
    constructor; [|constructor]. rewrite K'. cbn [s_key]. rewrite F_snoc_same.
    unfold F. rewrite (E0 (fun x => x)). reflexivity.
  - cbn [upd_sg]. inversion FA as [|? ? Hst FA']; subst. cbn [map] in ND. inversion ND as [|? ? Hn ND']; subst.
    destruct (String.eqb (s_key st) (h_sync h)) eqn:E.
    + apply String.eqb_eq in E. destruct (sg_step_fields st h) as (K' & _).
      cbn [map]. rewrite K'. split; [now constructor|].
      split; [intros s; simpl; rewrite <- E; intuition|].
      constructor.
      * rewrite K', E, F_snoc_same. rewrite <- E. now rewrite <- Hst.
      * rewrite Forall_forall in *. intros x Hx. rewrite F_snoc_other; [now apply FA'|].
        intros K. apply Hn. rewrite E, <- K. now apply in_map.
    + assert (NE : s_key st <> h_sync h) by (intros K; rewrite K, String.eqb_refl in E; discriminate).
      destruct (IH ND' FA') as (ND2 & KS2 & FA2).
      { intros K. apply E0. cbn [map]. intros [K1|K1]; [congruence | now apply K]. }
      cbn [map]. split.
      * constructor; [|assumption]. intros K. apply KS2 in K. destruct K as [K|K]; [now apply Hn | congruence].
      * split; [intros s; simpl; rewrite KS2; intuition|].
        constructor; [|assumption]. rewrite F_snoc_other by assumption. exact Hst.
Qed.

Lemma evs_nil_iff s q : evs s q = [] <-> ~ In s (map h_sync q).
Proof.
  unfold evs. induction q as [|h r IH]; simpl; [tauto|].
  destruct (String.eqb (h_sync h) s) eqn:E.
  - apply String.eqb_eq in E. split; [discriminate | intros K; exfalso; apply K; now left].
  - assert (h_sync h <> s) by (intros K; rewrite K, String.eqb_refl in E; discriminate).
    rewrite IH. tauto.
Qed.

Lemma sync_table_snoc q h : sync_table (q ++ [h]) = upd_sg h (sync_table q).
Proof. unfold sync_table. now rewrite fold_left_app. Qed.

Lemma sync_table_ok q : table_ok q (sync_table q).
Proof.
  induction q as [|h q IH] using rev_ind.
  - unfold sync_table, table_ok. simpl. repeat split; try constructor; tauto.
  - destruct IH as (ND & KS & FA). rewrite sync_table_snoc.
    destruct (upd_sg_gen q h (sync_table q) ND FA) as (ND2 & KS2 & FA2).
    { intros K. apply evs_nil_iff. now rewrite <- KS. }
    split; [assumption|]. split; [|assumption].
    intros s. rewrite KS2, KS, map_app, in_app_iff. simpl. intuition.
Qed.

Theorem detect_final_spec q : detect_final q = detect_spec q.
Proof.
  unfold detect_final, detect_spec. destruct (sync_table_ok q) as (ND & KS & FA).
  set (t := sync_table q) in *.
  assert (L : List.length t = List.length (tags q)).
  { rewrite <- (map_length s_key). apply Permutation_length. apply NoDup_Permutation; [assumption | apply NoDup_nodup|].
    intros s. unfold tags. rewrite nodup_In. apply KS. }
  rewrite L. f_equal.
  apply eq_true_iff_eq. rewrite !forallb_forall. split.
  - intros H s Hs. unfold tags in Hs. rewrite nodup_In in Hs. apply KS in Hs.
    apply in_map_iff in Hs. destruct Hs as (st & Ks & Hst).
    rewrite Forall_forall in FA. specialize (H st Hst). rewrite (FA st Hst), Ks in H.
    rewrite <- F_closed; [assumption|]. apply KS in Hst0 || idtac.
    intros K. apply evs_nil_iff in K. apply K. apply KS. rewrite <- Ks. now apply in_map.
  - intros H st Hst. rewrite Forall_forall in FA. rewrite (FA st Hst).
    assert (Hs : In (s_key st) (map h_sync q)) by (apply KS; now apply in_map).
    rewrite F_closed; [|intros K; apply evs_nil_iff in K; now apply K].
    apply H. unfold tags. now rewrite nodup_In.
Qed.

(* permutation invariance *)
Lemma sum_z_perm f a b : Permutation a b -> sum_z f a = sum_z f b.
Proof. induction 1; simpl; lia. Qed.
Lemma existsb_perm {A} (p : A -> bool) a b : Permutation a b -> existsb p a = existsb p b.
Proof.
  intros H. apply eq_true_iff_eq. rewrite !existsb_exists.
  split; intros (x & Hx & Px); exists x; split; auto; [eapply Permutation_in; eauto | eapply Permutation_in; [symmetry|]; eauto].
Qed.
Lemma npeers_perm a b : Permutation a b -> npeers a = npeers b.
Proof.
  intros H. unfold npeers. f_equal. apply Permutation_length.
  apply NoDup_Permutation; try apply NoDup_nodup. intros y. rewrite !nodup_In, !in_flat_map.
  split; intros (x & Hx & Px); exists x; split; auto; [eapply Permutation_in; eauto | eapply Permutation_in; [symmetry|]; eauto].
Qed.
Lemma closed_spec_perm a b : Permutation a b -> closed_spec a = closed_spec b.
Proof.
  intros H. unfold closed_spec.
  now rewrite (npeers_perm _ _ H), (sum_z_perm open_c _ _ H), (sum_z_perm close_c _ _ H), (existsb_perm hard _ _ H).
Qed.

Theorem detect_final_perm q q' : Permutation q q' -> detect_final q = detect_final q'.
Proof.
  intros H. rewrite !detect_final_spec. unfold detect_spec.
  assert (T : forall s, In s (tags q) <-> In s (tags q')).
  { intros s. unfold tags. rewrite !nodup_In. split; apply Permutation_in; [|symmetry]; now apply Permutation_map. }
  assert (L : List.length (tags q) = List.length (tags q')).
  { apply Permutation_length. apply NoDup_Permutation; try apply NoDup_nodup. exact T. }
  rewrite L. f_equal. apply eq_true_iff_eq. rewrite !forallb_forall.
  split; intros K s Hs; apply T in Hs; specialize (K s Hs); unfold evs in *.
  - now rewrite <- (closed_spec_perm _ _ (filter_perm (fun h => String.eqb (h_sync h) s) _ _ H)).
  - now rewrite (closed_spec_perm _ _ (filter_perm (fun h => String.eqb (h_sync h) s) _ _ H)).
Qed.

(* ---------- the canonical chain all-reduce group over N = n+1 ranks, any n >= 1 *)
Section Chain.
Variable n : nat.
Variable tag : nat -> string.
Variable tagM : string.
Hypothesis n_pos : (1 <= n)%nat.
Hypothesis tag_inj : forall i j, (i < n)%nat -> (j < n)%nat -> tag i = tag j -> i = j.
Hypothesis tagM_fresh : forall i, (i < n)%nat -> tag i <> tagM.
Variable dec : nat -> hev.        (* supplies tid, ts, dur, name, cat, jobhash of the k-th slice: arbitrary *)

Definition deco (k : nat) (pid : Z) (sync : string) (ty : Z) (peers : list Z) : hev :=
  let d := dec k in mkH pid (h_tid d) (h_ts d) (h_dur d) (h_name d) (h_cat d) sync ty peers (h_job d).
Definition zn (i : nat) : Z := Z.of_nat i.
Definition send_i (i : nat) : hev := deco i (zn i) (tag i) T_SEND [zn (S i)].
Definition recv_i (i : nat) : hev := deco (n + i) (zn (S i)) (tag i) T_DONE [zn i].
Definition bcl : hev := deco (2 * n) (zn n) tagM T_BCLIST (map zn (seq 0 n)).
Definition xseg_j (j : nat) : hev := deco (2 * n + 1 + j) (zn n) tagM T_SEND [zn j].
Definition data : hev := deco (3 * n + 1) (zn n) tagM T_MCAST [].
Definition mrecv_j (j : nat) : hev := deco (3 * n + 2 + j) (zn j) tagM T_DONE [zn n].
Definition chain : list hev :=
  map send_i (seq 0 n) ++ map recv_i (seq 0 n) ++ [bcl] ++ map xseg_j (seq 0 n) ++ [data] ++ map mrecv_j (seq 0 n).

Lemma filter_seq_gen (f : nat -> hev) (p : hev -> bool) k : forall len a,
  (forall i, (a <= i < a + len)%nat -> p (f i) = Nat.eqb i k) ->
  filter p (map f (seq a len)) = if (Nat.leb a k && Nat.ltb k (a + len))%bool then [f k] else [].
Proof.
  induction len as [|len IH]; intros a H.
  - simpl. destruct (Nat.leb a k) eqn:E1; [|reflexivity]. cbn [andb].
    destruct (Nat.ltb k (a + 0)) eqn:E2; [|reflexivity].
    apply Nat.leb_le in E1. apply Nat.ltb_lt in E2. lia.
  - cbn [seq map filter]. rewrite (H a) by lia. rewrite IH by (intros; apply H; lia).
    destruct (Nat.eqb_spec a k), (Nat.leb_spec (S a) k), (Nat.leb_spec a k),
      (Nat.ltb_spec k (S a + len)), (Nat.ltb_spec k (a + S len));
      cbn [andb]; try reflexivity; try lia; try (subst; reflexivity).
Qed.
Lemma filter_seq_one (f : nat -> hev) (p : hev -> bool) k :
  (k < n)%nat -> (forall i, (i < n)%nat -> p (f i) = Nat.eqb i k) -> filter p (map f (seq 0 n)) = [f k].
Proof.
  intros Hk H. rewrite (filter_seq_gen f p k n 0) by (intros; apply H; lia).
  replace (Nat.ltb k (0 + n)) with true by (symmetry; apply Nat.ltb_lt; lia). reflexivity.
Qed.
Lemma filter_all {A} (p : A -> bool) l : (forall x, In x l -> p x = true) -> filter p l = l.
Proof. induction l as [|x r IH]; intros H; simpl; [reflexivity|]. rewrite (H x) by now left. f_equal. apply IH. intros; apply H; now right. Qed.
Lemma filter_none {A} (p : A -> bool) l : (forall x, In x l -> p x = false) -> filter p l = [].
Proof. induction l as [|x r IH]; intros H; simpl; [reflexivity|]. rewrite (H x) by now left. apply IH. intros; apply H; now right. Qed.

Lemma tag_eqb i k : (i < n)%nat -> (k < n)%nat -> String.eqb (tag i) (tag k) = Nat.eqb i k.
Proof.
  intros Hi Hk. destruct (Nat.eqb i k) eqn:E.
  - apply Nat.eqb_eq in E. subst. apply String.eqb_refl.
  - apply Nat.eqb_neq in E. apply String.eqb_neq. intros K. apply E. now apply tag_inj.
Qed.

Lemma evs_tag k : (k < n)%nat -> evs (tag k) chain = [send_i k; recv_i k].
Proof.
  intros Hk. unfold evs, chain. rewrite !filter_app.
  rewrite (filter_seq_one send_i _ k Hk) by (intros; cbn; now apply tag_eqb).
  rewrite (filter_seq_one recv_i _ k Hk) by (intros; cbn; now apply tag_eqb).
  assert (NM : String.eqb tagM (tag k) = false).
  { apply String.eqb_neq. intros K. now apply (tagM_fresh k Hk). }
  rewrite (filter_none _ (map xseg_j _)), (filter_none _ (map mrecv_j _)).
  - cbn. now rewrite NM.
  - intros x Hx. apply in_map_iff in Hx. destruct Hx as (j & <- & _). exact NM.
  - intros x Hx. apply in_map_iff in Hx. destruct Hx as (j & <- & _). exact NM.
Qed.

Definition mgroup : list hev := [bcl] ++ map xseg_j (seq 0 n) ++ [data] ++ map mrecv_j (seq 0 n).
Lemma evs_tagM : evs tagM chain = mgroup.
Proof.
  unfold evs, chain, mgroup. rewrite !filter_app.
  rewrite (filter_none _ (map send_i _)), (filter_none _ (map recv_i _)).
  - rewrite (filter_all _ (map xseg_j _)), (filter_all _ (map mrecv_j _)).
    + cbn. now rewrite String.eqb_refl.
    + intros x Hx. apply in_map_iff in Hx. destruct Hx as (j & <- & _). apply String.eqb_refl.
    + intros x Hx. apply in_map_iff in Hx. destruct Hx as (j & <- & _). apply String.eqb_refl.
  - intros x Hx. apply in_map_iff in Hx. destruct Hx as (j & <- & Hj). apply in_seq in Hj.
    apply String.eqb_neq. apply tagM_fresh. lia.
  - intros x Hx. apply in_map_iff in Hx. destruct Hx as (j & <- & Hj). apply in_seq in Hj.
    apply String.eqb_neq. apply tagM_fresh. lia.
Qed.

Lemma closed_tag k : (k < n)%nat -> closed_spec [send_i k; recv_i k] = true.
Proof.
  intros Hk. unfold closed_spec.
  assert (NP : npeers [send_i k; recv_i k] = 2).
  { unfold npeers. rewrite <- (len_nodup_set [zn k; zn (S k)]); [reflexivity| |].
    - constructor; [|repeat constructor; intros []]. simpl. unfold zn. intros [K|[]]. lia.
    - intros y. cbn. tauto. }
  rewrite NP. reflexivity.
Qed.

Lemma sum_const f (g : nat -> hev) c len : forall a, (forall i, f (g i) = c) -> sum_z f (map g (seq a len)) = c * Z.of_nat len.
Proof. induction len as [|len IH]; intros a H; [simpl; lia|]. cbn [seq map sum_z fold_right]. fold (sum_z f (map g (seq (S a) len))). rewrite IH, H by assumption. lia. Qed.

Lemma zn_seq_nodup len : forall a, NoDup (map zn (seq a len)).
Proof.
  induction len as [|len IH]; intros a; simpl; constructor; [|apply IH].
  intros K. apply in_map_iff in K. destruct K as (j & E & Hj). apply in_seq in Hj. unfold zn in E. lia.
Qed.

Lemma closed_tagM : closed_spec mgroup = true.
Proof.
  unfold closed_spec.
  assert (NP : npeers mgroup = Z.of_nat n + 1).
  { unfold npeers. rewrite <- (len_nodup_set (zn n :: map zn (seq 0 n))).
    - cbn [List.length]. rewrite map_length, seq_length. lia.
    - constructor; [|apply zn_seq_nodup]. intros K. apply in_map_iff in K. destruct K as (j & E & Hj).
      apply in_seq in Hj. unfold zn in E. lia.
    - intros y. unfold mgroup. rewrite !flat_map_app, !in_app_iff. cbn [flat_map pids bcl data deco h_pid h_peers app].
      rewrite !in_flat_map. split.
      + intros K. left. exact (or_introl K) || (rewrite app_nil_r; exact K).
      + rewrite app_nil_r. intros [K|[K|[K|K]]].
        * exact K.
        * destruct K as (x & Hx & Hy). apply in_map_iff in Hx. destruct Hx as (j & <- & Hj). cbn in Hy.
          destruct Hy as [<-|[<-|[]]]; [now left | right; now apply in_map].
        * cbn in K. destruct K as [<-|[]]. now left.
        * destruct K as (x & Hx & Hy). apply in_map_iff in Hx. destruct Hx as (j & <- & Hj). cbn in Hy.
          destruct Hy as [<-|[<-|[]]]; [right; now apply in_map | now left]. }
  assert (S1 : forall f x, sum_z f [x] = f x) by (intros; unfold sum_z; simpl; lia).
  assert (OB : open_c bcl = Z.of_nat n).
  { unfold open_c, bcl, deco. cbn [h_type h_peers]. change (T_BCLIST =? T_BCLIST) with true. cbv iota.
    now rewrite map_length, seq_length. }
  assert (OP : sum_z open_c mgroup = 2 * Z.of_nat n + 1).
  { unfold mgroup. rewrite !sum_z_app, !S1. rewrite (sum_const open_c xseg_j 1), (sum_const open_c mrecv_j 0) by reflexivity.
    rewrite OB. replace (open_c data) with 1 by reflexivity. lia. }
  assert (CL : sum_z close_c mgroup = Z.of_nat n).
  { unfold mgroup. rewrite !sum_z_app, !S1. rewrite (sum_const close_c xseg_j 0), (sum_const close_c mrecv_j 1) by reflexivity.
    replace (close_c data) with 0 by reflexivity. replace (close_c bcl) with 0 by reflexivity. lia. }
  rewrite NP, OP, CL. replace (existsb hard mgroup) with true by reflexivity. cbn [orb].
  unfold closed_of.
  replace (1 <? Z.of_nat n + 1) with true by (symmetry; apply Z.ltb_lt; lia).
  replace (0 <? Z.of_nat n) with true by (symmetry; apply Z.ltb_lt; lia).
  replace (2 * (Z.of_nat n + 1) - 1 =? 2 * Z.of_nat n + 1) with true by (symmetry; apply Z.eqb_eq; lia).
  replace (Z.of_nat n =? Z.of_nat n + 1 - 1) with true by (symmetry; apply Z.eqb_eq; lia).
  reflexivity.
Qed.

Lemma chain_tags s : In s (map h_sync chain) <-> (exists k, (k < n)%nat /\ s = tag k) \/ s = tagM.
Proof.
  unfold chain. rewrite !map_app, !in_app_iff, !map_map. cbn [map h_sync bcl data deco].
  rewrite !in_map_iff. split.
  - intros [K|[K|[K|[K|[K|K]]]]].
    + destruct K as (j & <- & Hj). apply in_seq in Hj. left. exists j. split; [lia | reflexivity].
    + destruct K as (j & <- & Hj). apply in_seq in Hj. left. exists j. split; [lia | reflexivity].
    + destruct K as [<-|[]]. now right.
    + destruct K as (j & <- & Hj). now right.
    + destruct K as [<-|[]]. now right.
    + destruct K as (j & <- & Hj). now right.
  - intros [(k & Hk & ->)| ->].
    + left. exists k. split; [reflexivity | apply in_seq; lia].
    + right. right. left. now left.
Qed.

Lemma two_distinct {A} (l : list A) a b : NoDup l -> In a l -> In b l -> a <> b -> (2 <= List.length l)%nat.
Proof.
  intros ND Ha Hb N. destruct l as [|x [|y r]]; simpl in *; try lia; try tauto.
  destruct Ha as [<-|[]], Hb as [<-|[]]. congruence.
Qed.

Theorem chain_final_spec : detect_spec chain = true.
Proof.
  unfold detect_spec. apply andb_true_intro. split.
  - apply Z.ltb_lt.
    assert (2 <= List.length (tags chain))%nat; [|lia].
    apply (two_distinct _ (tag 0) tagM); [apply NoDup_nodup | | |].
    + unfold tags. rewrite nodup_In. apply chain_tags. left. exists 0%nat. split; [lia | reflexivity].
    + unfold tags. rewrite nodup_In. apply chain_tags. now right.
    + apply tagM_fresh. lia.
  - apply forallb_forall. intros s Hs. unfold tags in Hs. rewrite nodup_In in Hs. apply chain_tags in Hs.
    destruct Hs as [(k & Hk & ->)| ->].
    + rewrite evs_tag by assumption. now apply closed_tag.
    + rewrite evs_tagM. apply closed_tagM.
Qed.

(* in every arrival order *)
Theorem chain_final q : Permutation q chain -> detect_final q = true.
Proof. intros H. rewrite (detect_final_perm _ _ H), detect_final_spec. apply chain_final_spec. Qed.

(* a chain group that lacks any single slice is never final, in any arrival order *)
Lemma closed_of_mc np op cl : closed_of np op cl true = true -> 2 * np - 1 = op /\ cl = np - 1.
Proof.
  unfold closed_of. intros H. apply andb_prop in H. destruct H as [H H2]. apply andb_prop in H. destruct H as [_ H1].
  apply Z.eqb_eq in H1. apply Z.eqb_eq in H2. lia.
Qed.

Theorem chain_minus_one h q : Permutation (h :: q) chain -> detect_final q = false.
Proof.
  intros HP. rewrite detect_final_spec. destruct (detect_spec q) eqn:D; [exfalso|reflexivity].
  unfold detect_spec in D. apply andb_prop in D. destruct D as [_ D]. rewrite forallb_forall in D.
  set (s := h_sync h).
  assert (PE : Permutation (h :: evs s q) (evs s chain)).
  { unfold evs. rewrite <- (filter_perm _ _ _ HP). cbn [filter]. unfold s. now rewrite String.eqb_refl. }
  assert (Hin : In h chain) by (apply (Permutation_in _ HP); now left).
  assert (Hs : In s (map h_sync chain)) by (unfold s; now apply in_map).
  apply chain_tags in Hs.
  assert (CL : evs s q <> [] -> closed_spec (evs s q) = true).
  { intros NE. apply D. unfold tags. rewrite nodup_In. destruct (in_dec string_dec s (map h_sync q)) as [K|K]; [exact K|].
    apply evs_nil_iff in K. contradiction. }
  destruct Hs as [(k & Hk & Es)| Es]; rewrite Es in *.
  - rewrite (evs_tag k Hk) in PE.
    assert (NE : evs (tag k) q <> []).
    { intros K. rewrite K in PE. apply Permutation_length in PE. discriminate. }
    specialize (CL NE).
    assert (Hh : In h [send_i k; recv_i k]) by (apply (Permutation_in _ PE); now left).
    destruct Hh as [<-|[<-|[]]].
    + apply Permutation_cons_inv in PE. rewrite (closed_spec_perm _ _ PE) in CL.
      unfold closed_spec in CL. replace (sum_z open_c [recv_i k]) with 0 in CL by reflexivity.
      replace (existsb hard [recv_i k]) with false in CL by reflexivity.
      assert (NP : npeers [recv_i k] = 2).
      { unfold npeers. rewrite <- (len_nodup_set [zn (S k); zn k]); [reflexivity| |].
        - constructor; [|repeat constructor; intros []]. simpl. unfold zn. intros [K|[]]. lia.
        - intros y. cbn. tauto. }
      rewrite NP in CL. discriminate CL.
    + assert (PE' : Permutation (recv_i k :: evs (tag k) q) [recv_i k; send_i k]) by (rewrite PE; apply perm_swap).
      apply Permutation_cons_inv in PE'. rewrite (closed_spec_perm _ _ PE') in CL.
      unfold closed_spec in CL. replace (sum_z close_c [send_i k]) with 0 in CL by reflexivity.
      unfold closed_of in CL. replace (0 <? 0) with false in CL by reflexivity.
      rewrite andb_false_r in CL. destruct (existsb hard [send_i k] || _); discriminate CL.
  - rewrite evs_tagM in PE.
    assert (NE : evs tagM q <> []).
    { intros K. rewrite K in PE. apply Permutation_length in PE. unfold mgroup in PE.
      rewrite !app_length in PE. simpl in PE. lia. }
    specialize (CL NE). unfold closed_spec in CL.
    assert (S1 : forall f x, sum_z f [x] = f x) by (intros; unfold sum_z; simpl; lia).
    assert (OB : open_c bcl = Z.of_nat n).
    { unfold open_c, bcl, deco. cbn [h_type h_peers]. change (T_BCLIST =? T_BCLIST) with true. cbv iota.
      now rewrite map_length, seq_length. }
    assert (OP : open_c h + sum_z open_c (evs tagM q) = 2 * Z.of_nat n + 1).
    { change (open_c h + sum_z open_c (evs tagM q)) with (sum_z open_c (h :: evs tagM q)).
      rewrite (sum_z_perm _ _ _ PE). unfold mgroup. rewrite !sum_z_app, !S1.
      rewrite (sum_const open_c xseg_j 1), (sum_const open_c mrecv_j 0) by reflexivity.
      rewrite OB. replace (open_c data) with 1 by reflexivity. lia. }
    assert (CS : close_c h + sum_z close_c (evs tagM q) = Z.of_nat n).
    { change (close_c h + sum_z close_c (evs tagM q)) with (sum_z close_c (h :: evs tagM q)).
      rewrite (sum_z_perm _ _ _ PE). unfold mgroup. rewrite !sum_z_app, !S1.
      rewrite (sum_const close_c xseg_j 0), (sum_const close_c mrecv_j 1) by reflexivity.
      replace (close_c data) with 0 by reflexivity. replace (close_c bcl) with 0 by reflexivity. lia. }
    assert (Hh : In h mgroup) by (apply (Permutation_in _ PE); now left).
    assert (Rem : forall x, In x mgroup -> x <> h -> In x (evs tagM q)).
    { intros x Hx Nx. apply (Permutation_in _ (Permutation_sym PE)) in Hx. destruct Hx as [K|K]; [congruence | exact K]. }
    assert (MC : forall x, In x mgroup -> x <> h -> hard x = true ->
                 existsb hard (evs tagM q) || (2 <? npeers (evs tagM q)) = true).
    { intros x Hx Nx Hd. apply orb_true_intro. left. apply existsb_exists. exists x. split; [now apply Rem | exact Hd]. }
    assert (Bin : In bcl mgroup) by (unfold mgroup; now left).
    assert (Din : In data mgroup) by (unfold mgroup; rewrite !in_app_iff; right; right; left; now left).
    unfold mgroup in Hh. rewrite !in_app_iff in Hh. destruct Hh as [Hh|[Hh|[Hh|Hh]]].
    + destruct Hh as [<-|[]]. rewrite (MC data Din) in CL; [|discriminate|reflexivity].
      apply closed_of_mc in CL. rewrite OB in OP. replace (close_c bcl) with 0 in CS by reflexivity. lia.
    + apply in_map_iff in Hh. destruct Hh as (j & <- & _). rewrite (MC bcl Bin) in CL; [|discriminate|reflexivity].
      apply closed_of_mc in CL. replace (open_c (xseg_j j)) with 1 in OP by reflexivity. lia.
    + destruct Hh as [<-|[]]. rewrite (MC bcl Bin) in CL; [|discriminate|reflexivity].
      apply closed_of_mc in CL. replace (open_c data) with 1 in OP by reflexivity. lia.
    + apply in_map_iff in Hh. destruct Hh as (j & <- & _). rewrite (MC bcl Bin) in CL; [|discriminate|reflexivity].
      apply closed_of_mc in CL. replace (open_c (mrecv_j j)) with 0 in OP by reflexivity.
      replace (close_c (mrecv_j j)) with 1 in CS by reflexivity. lia.
Qed.
End Chain.

(* every SEND-typed slice of a complete chain group has its DONE partner in the queue, in any arrival order *)
Section ChainMatched.
Variable n : nat.
Variable tag : nat -> string.
Variable tagM : string.
Variable dec : nat -> hev.
Lemma chain_sends_matched q : Permutation q (chain n tag tagM dec) ->
  forall e, In e q -> h_type e = T_SEND -> has_partner q e = true.
Proof.
  intros HP e He Ht. assert (Hc : In e (chain n tag tagM dec)) by (now apply (Permutation_in _ HP)).
  assert (Back : forall x, In x (chain n tag tagM dec) -> In x q) by (intros x; apply Permutation_in; now symmetry).
  unfold chain in Hc. rewrite !in_app_iff in Hc. destruct Hc as [Hc|[Hc|[Hc|[Hc|[Hc|Hc]]]]].
  - apply in_map_iff in Hc. destruct Hc as (k & <- & Hk). unfold has_partner. cbn [send_i deco h_peers].
    apply existsb_exists. exists (recv_i n tag dec k). split.
    + apply Back. unfold chain. rewrite !in_app_iff. right; left. now apply in_map.
    + unfold partner_ok, send_i, recv_i, xseg_j, mrecv_j, deco. cbn [h_sync h_type h_pid].
      now rewrite String.eqb_refl, !Z.eqb_refl.
  - apply in_map_iff in Hc. destruct Hc as (k & <- & Hk). discriminate Ht.
  - destruct Hc as [<-|[]]. discriminate Ht.
  - apply in_map_iff in Hc. destruct Hc as (j & <- & Hj). unfold has_partner. cbn [xseg_j deco h_peers].
    apply existsb_exists. exists (mrecv_j n tagM dec j). split.
    + apply Back. unfold chain. rewrite !in_app_iff. do 5 right. now apply in_map.
    + unfold partner_ok, send_i, recv_i, xseg_j, mrecv_j, deco. cbn [h_sync h_type h_pid].
      now rewrite String.eqb_refl, !Z.eqb_refl.
  - destruct Hc as [<-|[]]. discriminate Ht.
  - apply in_map_iff in Hc. destruct Hc as (j & <- & Hj). discriminate Ht.
Qed.
End ChainMatched.
