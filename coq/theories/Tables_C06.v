(* the hand model of timesync.py / tools.py uses exactly the keyword tables of the current source (gen/Tables.v) *)
From Coq Require Import List String.
From AiuModel Require Import Timesync.
From AiuGen Require Import Tables.
Lemma timesync_tables_are_source :
  Timesync.op_keywords = Tables.op_keywords /\ Timesync.ref_rules = Tables.conv_ref_chain /\
  Timesync.flex_map = Tables.flex_map /\
  (forall name, Timesync.ref_idx name =
                fold_left (fun acc r => if Timesync.ends_with (fst r) name then snd r else acc)
                          Tables.conv_ref_chain Tables.conv_ref_default).
Proof. repeat split; reflexivity. Qed.
