(* C01_proofs.v — the abstract stages of C01Model.v obey the local accounting laws of Conservation.v, hence the
   registration program generated from acelyzer.py, run under ANY valuation of its guard atoms, ANY profile flags,
   ANY option values and ANY input stream, exports each slice uid exactly as often as it came in minus the number
   of times a stage recorded it in its ledger of documented drops. *)
From Coq Require Import List String Bool Arith ZArith Lia.
Import ListNotations.
From AiuModel Require Import Base Pipeline Profile Conservation C01Model.
From AiuGen Require Import Registration Profiles.

Definition hldf (s : cell) : list Z := keys (c_hold s).
Definition ledf (s : cell) : list Z := map snd (c_led s).

Section Fix_u.
Variable u : Z.
Notation cntu := (cnt Z.eq_dec u).
Notation accu := (acc Z.eq_dec hldf ledf u).

Lemma cnt_app' a b : cntu (a ++ b) = cntu a + cntu b.
Proof. apply cnt_app. Qed.

Lemma acc_note s r e : accu (note s r e) = accu s + cntu (keyl e).
Proof.
  unfold acc, hldf, ledf, note. cbn [c_hold c_led]. rewrite map_app, cnt_app', map_map. cbn [snd].
  rewrite map_id. lia.
Qed.
Lemma acc_hold s e : accu (hold s e) = accu s + cntu (keyl e).
Proof.
  unfold acc, hldf, ledf, hold. cbn [c_hold c_led]. unfold keys. rewrite flat_map_app, cnt_app'. cbn [flat_map].
  rewrite app_nil_r. lia.
Qed.
Lemma acc_count s n : accu {| c_hold := c_hold s; c_count := n; c_led := c_led s |} = accu s.
Proof. reflexivity. Qed.

Lemma keys_single e : Conservation.keys keyl [e] = keyl e.
Proof. unfold Conservation.keys. cbn [flat_map]. apply app_nil_r. Qed.

Lemma abs_cb_law o k s e :
  cntu (Conservation.keys keyl (snd (abs_cb o k s e))) + accu (fst (abs_cb o k s e)) = cntu (keyl e) + accu s.
Proof.
  destruct k; cbn [abs_cb].
  - cbn [fst snd]. rewrite keys_single. lia.
  - cbn [fst snd]. rewrite acc_hold. cbn. lia.
  - cbn [fst snd]. rewrite acc_hold. cbn. lia.
  - unfold limit_cb. destruct (a_meta e); [cbn [fst snd]; rewrite keys_single; lia|].
    set (n := if a_inwin e then (c_count s + 1)%Z else c_count s).
    destruct (a_inwin e && Z.ltb (o_skip o) n && Z.leb n (o_skip o + o_count o)).
    + destruct (a_x e && a_filt e); cbn [fst snd].
      * rewrite acc_note, acc_count. cbn. lia.
      * rewrite keys_single, acc_count. lia.
    + cbn [fst snd]. rewrite acc_note, acc_count. cbn. lia.
  - destruct (a_x e && a_prep e && negb (o_keep_prep o)); cbn [fst snd];
      [rewrite acc_note; cbn; lia|rewrite keys_single; lia].
  - destruct (a_glob e); cbn [fst snd]; [rewrite acc_note; cbn; lia|rewrite keys_single; lia].
  - destruct (a_x e && negb (o_fx o)); cbn [fst snd]; [rewrite acc_note; cbn; lia|rewrite keys_single; lia].
  - destruct (a_x e && o_drop o && a_ovl e); cbn [fst snd]; [rewrite acc_note; cbn; lia|rewrite keys_single; lia].
Qed.

Lemma abs_dr_law s :
  cntu (Conservation.keys keyl (snd (abs_dr s))) + accu (fst (abs_dr s)) = accu s.
Proof.
  unfold abs_dr. cbn [fst snd]. unfold acc, hldf, ledf, keys, Conservation.keys. cbn [c_hold c_led flat_map].
  unfold cnt at 2. cbn [count_occ]. lia.
Qed.
End Fix_u.

Lemma abs_dr_empties s : hldf (fst (abs_dr s)) = [].
Proof. reflexivity. Qed.

Section Program.
Variables (o : aopts) (gs : list (stage aev cell)).
(* any pipeline made of abstract stages (whatever kinds, whatever cells, shared or not) *)
Hypothesis gs_abs : Forall (fun g => exists k, cb g = abs_cb o k /\ dr g = abs_dr) gs.

Lemma all_cb_law u : Forall (cb_law Z.eq_dec keyl hldf ledf u) gs.
Proof.
  eapply Forall_impl; [|exact gs_abs]. intros g (k & Hc & _) s e. rewrite Hc. apply abs_cb_law.
Qed.
Lemma all_dr_law u : Forall (dr_law Z.eq_dec keyl hldf ledf u) gs.
Proof.
  eapply Forall_impl; [|exact gs_abs]. intros g (k & _ & Hd) s. rewrite Hd. apply abs_dr_law.
Qed.
Lemma all_dr_empties : Forall (dr_empties hldf) gs.
Proof.
  eapply Forall_impl; [|exact gs_abs]. intros g (k & _ & Hd) s. rewrite Hd. apply abs_dr_empties.
Qed.

Definition cells : list nat := nodup Nat.eq_dec (map (@cid aev cell) gs).
Lemma cells_cover : Forall (fun g => In (cid g) cells) gs.
Proof. apply Forall_forall. intros g Hg. apply nodup_In. now apply in_map. Qed.

Fixpoint sum_led (u : Z) (cs : list nat) (st : store cell) : nat :=
  match cs with [] => 0 | c :: r => count_occ Z.eq_dec (ledf (st c)) u + sum_led u r st end.

Lemma phi_final u (st : store cell) : forall cs,
  (forall c, In c cs -> hldf (st c) = []) ->
  phi Z.eq_dec hldf ledf u cs st = sum_led u cs st.
Proof.
  induction cs as [|c r IH]; intros H; [reflexivity|]. cbn [phi sum_led]. rewrite IH by (intros; apply H; now right).
  unfold acc, cnt. rewrite (H c (or_introl eq_refl)). cbn. reflexivity.
Qed.
Lemma phi_init u : forall cs, phi Z.eq_dec hldf ledf u cs st0 = 0.
Proof. induction cs as [|c r IH]; [reflexivity|]. cbn [phi]. rewrite IH. reflexivity. Qed.

(* exported + recorded drops = input, per uid; nothing is withheld after the drain *)
Theorem abstract_conservation (es : list aev) (u : Z) :
  let '(st1, o1) := inputs gs st0 es in
  let '(st2, o2) := drain gs st1 in
  count_occ Z.eq_dec (keys (o1 ++ o2)) u + sum_led u cells st2 = count_occ Z.eq_dec (keys es) u
  /\ (forall g, In g gs -> c_hold (st2 (cid g)) = []).
Proof.
  pose proof (@run_conservation aev cell Z Z.eq_dec keyl hldf ledf u cells (NoDup_nodup _ _) gs st0 es
                (all_cb_law u) (all_dr_law u) cells_cover) as H.
  destruct (inputs gs st0 es) as [st1 o1].
  assert (Hd : Forall (fun g => forall s, c_hold (fst (dr g s)) = []) gs).
  { eapply Forall_impl; [|exact gs_abs]. intros g (k & _ & Hd) s. rewrite Hd. reflexivity. }
  pose proof (@drain_leaves_nothing aev cell aev (fun s => c_hold s) gs Hd st1) as Hh.
  destruct (drain gs st1) as [st2 o2]. cbn [fst] in Hh.
  split; [|exact Hh].
  rewrite phi_init in H. rewrite Nat.add_0_r in H. unfold cnt, Conservation.keys in H. unfold keys.
  rewrite phi_final in H; [exact H|].
  intros c Hc. apply nodup_In in Hc. apply in_map_iff in Hc. destruct Hc as (g & <- & Hg).
  unfold hldf. rewrite (Hh g Hg). reflexivity.
Qed.
End Program.

(* the pipeline built from the generated program consists of abstract stages *)
Lemma abs_pipeline_abs o v P p :
  Forall (fun g => exists k, cb g = abs_cb o k /\ dr g = abs_dr) (abs_pipeline o v P p).
Proof.
  unfold abs_pipeline. apply Forall_forall. intros g Hg. apply in_map_iff in Hg. destruct Hg as (x & <- & _).
  exists (kind_of (r_name (snd x))). split; reflexivity.
Qed.

Theorem program_conservation (o : aopts) (v : nat -> bool) (P : prof) (es : list aev) (u : Z) :
  let '(out, st, gs) := run_full o v P es in
  count_occ Z.eq_dec (keys out) u + sum_led u (cells gs) st = count_occ Z.eq_dec (keys es) u
  /\ (forall g, In g gs -> c_hold (st (cid g)) = []).
Proof.
  unfold run_full.
  pose proof (@abstract_conservation o (abs_pipeline o v P the_program) (abs_pipeline_abs o v P the_program) es u) as H.
  destruct (inputs (abs_pipeline o v P the_program) st0 es) as [st1 o1].
  destruct (drain (abs_pipeline o v P the_program) st1) as [st2 o2]. exact H.
Qed.

(* ---------------- every recorded drop is a documented one ---------------- *)
From AiuModel Require Import Suffix.

Definition rule_ok (o : aopts) (r : rule) (e : aev) : bool :=
  match r with
  | RLimit => negb (a_meta e)                                   (* metadata is never limited *)
  | REventFilter => negb (a_meta e) && a_x e && a_filt e
  | RPrep => a_x e && a_prep e && negb (o_keep_prep o)
  | RGlobal => a_glob e
  | RPhFilter => a_x e && negb (o_fx o)
  | ROverlapDrop => a_x e && o_drop o && a_ovl e
  end.

Section Documented.
Variables (o : aopts) (es : list aev).
Definition from_input (e : aev) : Prop := In e es.
Definition led_ok (ru : rule * Z) : Prop := exists e, In e es /\ In (snd ru) (keyl e) /\ rule_ok o (fst ru) e = true.
Definition cell_ok (s : cell) : Prop := Forall from_input (c_hold s) /\ Forall led_ok (c_led s).

Lemma note_ok s r e : cell_ok s -> from_input e -> rule_ok o r e = true -> cell_ok (note s r e).
Proof.
  intros [Hh Hl] He Hr. split; [exact Hh|]. unfold note. cbn [c_led]. apply Forall_app. split; [exact Hl|].
  apply Forall_forall. intros [r' u] Hin. apply in_map_iff in Hin. destruct Hin as (u' & Heq & Hu). injection Heq as <- <-.
  exists e. cbn [fst snd]. auto.
Qed.
Lemma count_ok s n : cell_ok s -> cell_ok {| c_hold := c_hold s; c_count := n; c_led := c_led s |}.
Proof. intros H. exact H. Qed.

Lemma abs_keeps k c b : keeps_clean from_input cell_ok {| cb := abs_cb o k; cid := c; dr := abs_dr; bar := b |}.
Proof.
  split; cbn [cb dr].
  - intros s e He Hs. destruct k; cbn [abs_cb].
    + split; [repeat constructor; exact He|exact Hs].
    + split; [constructor|]. destruct Hs as [Hh Hl]. split; [|exact Hl]. cbn [hold c_hold]. apply Forall_app. split; [exact Hh|repeat constructor; exact He].
    + split; [constructor|]. destruct Hs as [Hh Hl]. split; [|exact Hl]. cbn [hold c_hold]. apply Forall_app. split; [exact Hh|repeat constructor; exact He].
    + unfold limit_cb. destruct (a_meta e) eqn:Em; [split; [repeat constructor; exact He|exact Hs]|].
      set (n := if a_inwin e then (c_count s + 1)%Z else c_count s).
      destruct (a_inwin e && Z.ltb (o_skip o) n && Z.leb n (o_skip o + o_count o)).
      * destruct (a_x e && a_filt e) eqn:Ef; cbn [fst snd].
        -- split; [constructor|]. apply note_ok; [now apply count_ok|exact He|]. cbn [rule_ok]. rewrite Em.
           apply andb_prop in Ef. destruct Ef as [-> ->]. reflexivity.
        -- split; [repeat constructor; exact He|now apply count_ok].
      * cbn [fst snd]. split; [constructor|]. apply note_ok; [now apply count_ok|exact He|]. cbn [rule_ok]. now rewrite Em.
    + destruct (a_x e && a_prep e && negb (o_keep_prep o)) eqn:Ep; cbn [fst snd];
        [split; [constructor|apply note_ok; auto]|split; [repeat constructor; exact He|exact Hs]].
    + destruct (a_glob e) eqn:Eg; cbn [fst snd];
        [split; [constructor|apply note_ok; auto]|split; [repeat constructor; exact He|exact Hs]].
    + destruct (a_x e && negb (o_fx o)) eqn:Ep; cbn [fst snd];
        [split; [constructor|apply note_ok; auto]|split; [repeat constructor; exact He|exact Hs]].
    + destruct (a_x e && o_drop o && a_ovl e) eqn:Ep; cbn [fst snd];
        [split; [constructor|apply note_ok; auto]|split; [repeat constructor; exact He|exact Hs]].
  - intros s [Hh Hl]. unfold abs_dr. cbn [fst snd]. split; [exact Hh|]. split; [constructor|exact Hl].
Qed.

Theorem drops_documented (v : nat -> bool) (P : prof) :
  let '(out, st, gs) := run_full o v P es in
  Forall from_input out /\
  forall g, In g gs -> Forall led_ok (c_led (st (cid g))).
Proof.
  unfold run_full.
  assert (Hk : Forall (keeps_clean from_input cell_ok) (abs_pipeline o v P the_program)).
  { unfold abs_pipeline. apply Forall_forall. intros g Hg. apply in_map_iff in Hg. destruct Hg as (x & <- & _).
    unfold abs_stage. apply abs_keeps. }
  assert (H0 : SInv cell_ok (abs_pipeline o v P the_program) st0)
    by (intros g _; split; constructor).
  pose proof (@run_invariant aev cell from_input cell_ok (abs_pipeline o v P the_program) Hk st0 es H0
                (proj2 (Forall_forall _ _) (fun x H => H))) as H.
  destruct (inputs (abs_pipeline o v P the_program) st0 es) as [st1 o1].
  destruct (drain (abs_pipeline o v P the_program) st1) as [st2 o2]. destruct H as [Ho Hs].
  split; [exact Ho|]. intros g Hg. exact (proj2 (Hs g Hg)).
Qed.
End Documented.

(* ---------------- the stage list of C01Model is the list forward matching registers (C16) ---------------- *)
From AiuModel Require Import Profile_proofs Registration_facts.

Lemma number_combine_names (v : nat -> bool) : forall (p : program) (P : prof) (i : nat),
  map fst P = names p ->
  map (fun x => r_name (snd x))
      (map fst (filter (fun x => geval v (r_guard (snd (fst x))) && snd (snd x)) (combine (number i p) P)))
  = keep (calls v p) (selflags P (mask v p)).
Proof.
  induction p as [|r p IH]; intros P i Hn.
  - destruct P; reflexivity.
  - destruct P as [|[n f] P]; [discriminate|]. cbn [map names fst] in Hn. injection Hn as Hn1 Hn2.
    cbn [number combine filter fst snd]. unfold calls, mask. cbn [map filter selflags].
    destruct (geval v (r_guard r)) eqn:Eg; cbn [andb].
    + destruct f; cbn [map fst snd keep]; [f_equal|]; apply (IH P (S i) Hn2).
    + apply (IH P (S i) Hn2).
Qed.

(* names of the stages C01Model runs = names of the stages EventProcessor.register_stage keeps, for every valuation
   and every profile over the program's names (default, torch_minimal, any ingested profile) *)
Theorem selected_is_registered (v : nat -> bool) (P : prof) :
  map fst P = names the_program ->
  map (fun x => r_name (snd x)) (selected v P the_program) = registered P (calls v the_program).
Proof.
  intros Hn. unfold selected. rewrite (number_combine_names v the_program P 0 Hn).
  symmetry. apply registered_any_profile; [exact program_sep|exact Hn].
Qed.
