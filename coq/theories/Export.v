(* Export.v — layer B kernel: TensorBoard per-rank export and DataFrame export.

   Code modelled (src/aiu_trace_analyzer/export/exporter.py):
     TensorBoardFileTraceExporter._parse_by_rank_id        -> [parse_by_rank_id]  (defaultdict(list) in insertion
                                                               order = [groups]; int keys >= 1000 are folded once by
                                                               -1000 [fold_rank]; non-int keys are skipped; a missing
                                                               key raises KeyError = [None])
     TensorBoardFileTraceExporter._parse_events_by_id      -> [rank_ids] (self.rank_ids = sorted(keys >= 0): the ranks that
                                                               are present, not necessarily 0..n-1 — the rule after fix
                                                               0f462ed), [rank_cnt] = len(rank_ids) (number of groups
                                                               with key >= 0, fix 6bb49ce); the two earlier rules are kept
                                                               as [rank_ids_dense] (workers 0..rank_cnt-1, before 0f462ed)
                                                               and [rank_ids_old] (0..groups-2, before 6bb49ce) for the
                                                               regression lemmas only
     TensorBoardFileTraceExporter._update_traceview_value_by_rank -> [tb_views] (one view per r in rank_ids, view of r =
                                                               groups[r], default [] because the dict is a defaultdict)
     TensorBoardFileTraceExporter._save_events_by_id / _save_overall_trace / flush -> [tb_flush]
                                                               (rank_cnt = 1: combined file only; otherwise one worker file
                                                               per r in rank_ids — written even with save_to_file = False —
                                                               and the combined file iff save_to_file), file names
                                                               [overall_name], [fbase], [worker_name]
     JsonFileTraceExporter.export                           -> [json_export]  (every event, as its dict)
     DataframeExporter.export / _convert_trace_event / _extract_value / flush -> [df_export], [df_row]
                                                               (one tuple per CompleteEvents whose ph is "X", the nine
                                                               columns of the default data_map with their defaults)
   The events of the TB part are an arbitrary type [A] observed only through the value found under the grouping key
   ([keyv]); the tie instantiates A with (uid, pid). *)
From Coq Require Import ZArith QArith List Bool String Ascii Arith DecimalString.
Import ListNotations.
From AiuModel Require Import Base.
Local Open Scope Z_scope.

(* ------------------------------------------------------------------ grouping by rank id *)

(* what [event[key]] yields: an int (bool excluded, see TRUSTED of the check), something that is not an int
   (None, str, float: skipped by the isinstance test), or no such key (KeyError) *)
Inductive keyv := KInt (z : Z) | KOther | KMissing.

Definition fold_rank (z : Z) : Z := if 1000 <=? z then z - 1000 else z.

Definition groups (A : Type) : Type := list (Z * list A).   (* dict: rank id -> list, insertion order *)

Fixpoint g_add {A} (k : Z) (x : A) (g : groups A) : groups A :=
  match g with
  | [] => [(k, [x])]
  | (k', l) :: r => if k =? k' then (k', l ++ [x]) :: r else (k', l) :: g_add k x r
  end.

(* defaultdict.__getitem__: the list under k, [] when absent *)
Definition g_get {A} (k : Z) (g : groups A) : list A :=
  match find (fun p => fst p =? k) g with Some p => snd p | None => [] end.

Definition g_keys {A} (g : groups A) : list Z := map fst g.

Fixpoint parse_from {A} (key : A -> keyv) (data : list A) (g : groups A) : option (groups A) :=
  match data with
  | [] => Some g
  | x :: r => match key x with
              | KMissing => None
              | KOther => parse_from key r g
              | KInt z => parse_from key r (g_add (fold_rank z) x g)
              end
  end.
Definition parse_by_rank_id {A} (key : A -> keyv) (data : list A) : option (groups A) :=
  parse_from key data [].

(* sorted() on a list of ints (insertion sort; on the distinct dict keys every correct sort gives the same list) *)
Fixpoint z_insert (x : Z) (l : list Z) : list Z :=
  match l with
  | [] => [x]
  | y :: r => if x <=? y then x :: l else y :: z_insert x r
  end.
Fixpoint z_sort (l : list Z) : list Z :=
  match l with [] => [] | x :: r => z_insert x (z_sort r) end.

(* the number of groups with key >= 0 *)
Definition rank_cnt {A} (g : groups A) : nat := List.length (filter (fun k => 0 <=? k) (g_keys g)).
(* self.rank_ids = sorted(rank_id for rank_id in events_by_id if rank_id >= 0);  self.rank_cnt = len(self.rank_ids) *)
Definition rank_ids {A} (g : groups A) : list Z := z_sort (filter (fun k => 0 <=? k) (g_keys g)).
(* the rule before fix 0f462ed: for rid in range(0, rank_cnt) *)
Definition rank_ids_dense {A} (g : groups A) : list Z := map Z.of_nat (seq 0 (rank_cnt g)).
(* the rule before fix 6bb49ce: range(0, len(groups) - 1 if len(groups) > 1 else len(groups)) *)
Definition rank_cnt_old {A} (g : groups A) : nat :=
  if Nat.ltb 1 (List.length g) then (List.length g - 1)%nat else List.length g.
Definition rank_ids_old {A} (g : groups A) : list Z := map Z.of_nat (seq 0 (rank_cnt_old g)).

Record tb_result (A D : Type) : Type := {
  tb_rank_ids : list Z;                  (* self.rank_ids *)
  tb_rank_cnt : nat;                     (* self.rank_cnt *)
  tb_views : list (list A * list D);     (* traceview_by_rank[r] for r in rank_ids, in that order: (trace_events, device_data) *)
  tb_workers_written : bool;             (* <base>_worker_<r>.pt.trace.json written for every r in rank_ids *)
  tb_combined_written : bool;            (* the combined file is written *)
  tb_combined : list A * list D          (* self.traceview: what get_data()/the combined file hold *)
}.
Arguments tb_rank_ids {A D}. Arguments tb_rank_cnt {A D}. Arguments tb_views {A D}. Arguments tb_workers_written {A D}.
Arguments tb_combined_written {A D}. Arguments tb_combined {A D}.

Section TB.
  Context {A D : Type} (pid : A -> keyv) (did : D -> keyv).

  Definition views_of (ids : list Z) (eg : groups A) (dg : groups D) : list (list A * list D) :=
    map (fun r => (g_get r eg, g_get r dg)) ids.

  (* flush() with an arbitrary rule for the worker ids (the current one is [rank_ids]) *)
  Definition tb_flush_with (ids_of : groups A -> list Z) (events : list A) (devices : list D) (save_to_file : bool)
    : option (tb_result A D) :=
    match parse_by_rank_id pid events with
    | None => None
    | Some eg =>
        match parse_by_rank_id did devices with
        | None => None
        | Some dg =>
            let ids := ids_of eg in
            let n := List.length ids in
            Some {| tb_rank_ids := ids;
                    tb_rank_cnt := n;
                    tb_views := views_of ids eg dg;
                    tb_workers_written := negb (Nat.eqb n 1);
                    tb_combined_written := save_to_file;
                    tb_combined := (events, devices) |}
        end
    end.
  Definition tb_flush := tb_flush_with rank_ids.
  Definition tb_flush_dense := tb_flush_with rank_ids_dense.     (* before fix 0f462ed *)
  Definition tb_flush_old := tb_flush_with rank_ids_old.         (* before fix 6bb49ce *)

  (* the event lists of the worker views, in the order of [tb_rank_ids] *)
  Definition workers (res : tb_result A D) : list (list A) := map fst (tb_views res).
  (* the view kept for rank id r (traceview_by_rank[r]), if there is one *)
  Definition view_of_rank (res : tb_result A D) (r : Z) : option (list A * list D) :=
    match find (fun p => fst p =? r) (combine (tb_rank_ids res) (tb_views res)) with
    | Some p => Some (snd p) | None => None end.
End TB.

(* ------------------------------------------------------------------ file names *)
Local Open Scope string_scope.

Definition ends_with (suf s : string) : bool :=
  let n := String.length s in
  let m := String.length suf in
  if Nat.leb m n then String.eqb (substring (n - m) m s) suf else false.

(* Python str.replace(old, new), old non-empty: leftmost non-overlapping occurrences *)
Fixpoint repl (old new : string) (skip : nat) (s : string) : string :=
  match s with
  | EmptyString => EmptyString
  | String c r =>
      match skip with
      | S k => repl old new k r
      | O => if prefix old s then new ++ repl old new (String.length old - 1) r
             else String c (repl old new 0 r)
      end
  end.
Definition replace_all (old new s : string) : string := repl old new 0 s.

(* index of the last occurrence of c, counted from 0 *)
Fixpoint rindex_from (c : ascii) (l : list ascii) (i : nat) (acc : option nat) : option nat :=
  match l with
  | [] => acc
  | x :: r => rindex_from c r (S i) (if Ascii.eqb x c then Some i else acc)
  end.
Definition rindex (c : ascii) (l : list ascii) : option nat := rindex_from c l 0%nat None.

(* os.path.splitext(p)[0] (posixpath): the extension starts at the last dot after the last '/',
   unless only dots precede it in the file name *)
Definition splitext_root (p : string) : string :=
  let l := list_ascii_of_string p in
  let start := match rindex "/"%char l with Some i => S i | None => 0%nat end in
  match rindex "."%char l with
  | None => p
  | Some d =>
      if Nat.ltb d start then p
      else if existsb (fun c => negb (Ascii.eqb c "."%char)) (firstn (d - start) (skipn start l))
           then string_of_list_ascii (firstn d l)
           else p
  end.

Definition TB_EXT : string := ".pt.trace.json".

Definition overall_name (target : string) : string :=
  if ends_with ".json" target && negb (ends_with TB_EXT target)
  then substring 0 (String.length target - 5) target ++ TB_EXT     (* only the extension (fix C18c) *)
  else target.

Definition fbase (target : string) : string :=
  if ends_with TB_EXT target
  then substring 0 (String.length target - String.length TB_EXT) target
  else splitext_root target.

Definition dec (n : nat) : string := NilEmpty.string_of_uint (Nat.to_uint n).

Definition worker_name (target : string) (r : nat) : string :=
  fbase target ++ "_worker_" ++ dec r ++ TB_EXT.
(* the file of rank id r (a key >= 0 of the dict) *)
Definition worker_file (target : string) (r : Z) : string := worker_name target (Z.to_nat r).

Definition names_val (target : string) : val :=
  VL [VS (overall_name target); VS (fbase target); VS (worker_name target 0); VS (worker_name target 10)].

Local Close Scope string_scope.

(* ------------------------------------------------------------------ DataFrame export *)

(* the attributes of a CompleteEvents object the default data_map looks at; an absent args entry is None *)
Record slice : Type := {
  s_name : string; s_cat : string; s_ts : Q; s_dur : Q;
  s_rank : option Z; s_class : option string; s_job : option string;
  s_bytes : option Q; s_pt : option Q
}.

(* an exported event object: a CompleteEvents instance (its ph attribute is normally "X" but is an ordinary
   attribute) or an instance of another event class with its ph *)
Inductive tvev :=
| EvX (ph : string) (s : slice)
| EvOther (ph : string) (name : string) (ts : Q).

Definition ev_ph (e : tvev) : string := match e with EvX ph _ => ph | EvOther ph _ _ => ph end.

(* the event classes fix their ph: CompleteEvents sets "X", no other class accepts "X" *)
Definition wf_ev (e : tvev) : Prop :=
  match e with EvX ph _ => ph = "X"%string | EvOther ph _ _ => ph <> "X"%string end.

Record df_row_t : Type := {
  r_rank : Z; r_ts : Q; r_dur : Q; r_cat : string; r_name : string; r_class : string; r_job : string;
  r_bytes : Q; r_pt : Q
}.

Definition odef {T} (d : T) (o : option T) : T := match o with Some x => x | None => d end.

(* _convert_trace_event on the default data_map (defaults: 0, 0.0, 0.0, "other", "NoName", "UNKNOWN", "Unknown",
   0.0, 0.0; name/cat/ts/dur are always attributes of a CompleteEvents) *)
Definition df_row (s : slice) : df_row_t :=
  {| r_rank := odef 0 (s_rank s); r_ts := s_ts s; r_dur := s_dur s; r_cat := s_cat s; r_name := s_name s;
     r_class := odef "UNKNOWN"%string (s_class s); r_job := odef "Unknown"%string (s_job s);
     r_bytes := odef (0 # 1) (s_bytes s); r_pt := odef (0 # 1) (s_pt s) |}.

(* DataframeExporter.export: skip non-CompleteEvents, skip ph != "X", append one tuple *)
Definition df_conv (e : tvev) : list df_row_t :=
  match e with
  | EvX ph s => if String.eqb ph "X" then [df_row s] else []
  | EvOther _ _ _ => []
  end.
Definition df_export (evs : list tvev) : list df_row_t := flat_map df_conv evs.

(* JsonFileTraceExporter.export: every event's dict; the projection a slice of the JSON file offers for the
   comparison: (ph, args.rank or 0, ts, dur, name) *)
Record jev : Type := { j_ph : string; j_rank : option Z; j_ts : Q; j_dur : option Q; j_name : string }.
Definition ev_json (e : tvev) : jev :=
  match e with
  | EvX ph s => {| j_ph := ph; j_rank := s_rank s; j_ts := s_ts s; j_dur := Some (s_dur s); j_name := s_name s |}
  | EvOther ph n t => {| j_ph := ph; j_rank := None; j_ts := t; j_dur := None; j_name := n |}
  end.
Definition json_export (evs : list tvev) : list jev := map ev_json evs.
Definition j_is_slice (j : jev) : bool := String.eqb (j_ph j) "X".

(* the four compared columns *)
Definition row_key (r : df_row_t) : Z * Q * Q * string := (r_rank r, r_ts r, r_dur r, r_name r).
Definition jev_key (j : jev) : Z * Q * Q * string := (odef 0 (j_rank j), j_ts j, odef (0 # 1) (j_dur j), j_name j).

(* ------------------------------------------------------------------ encoders for the tie *)

Definition row_val (r : df_row_t) : val :=
  VL [VZ (r_rank r); VQ (r_ts r); VQ (r_dur r); VS (r_cat r); VS (r_name r); VS (r_class r); VS (r_job r);
      VQ (r_bytes r); VQ (r_pt r)].
(* DF tie: [rows of get_data(); was the text file written?] *)
Definition df_val (c : list tvev * bool) : val :=
  VL [VL (map row_val (df_export (fst c))); VB (snd c)].

(* TB tie: events and devices are (uid, key value); the observed result is
   [rank_cnt; in-memory views [[r; uids of worker r; device uids of worker r] ...] by ascending rank id r;
    files written [[name; uids; device uids] ...] (workers by rank id, then the combined file);
    [uids of the combined view; its device uids]]   or   VE "KeyError" *)
Definition tbev : Type := (Z * keyv)%type.
Definition view_val (v : list tbev * list tbev) : list val := [VLz (map fst (fst v)); VLz (map fst (snd v))].
Definition tb_val (c : ((list tbev * list tbev) * bool) * string) : val :=
  let '(((evs, devs), save), target) := c in
  match tb_flush (@snd Z keyv) (@snd Z keyv) evs devs save with
  | None => VE "KeyError"
  | Some r =>
      VL [VZ (Z.of_nat (tb_rank_cnt r));
          VL (map (fun iv => VL (VZ (fst iv) :: view_val (snd iv))) (combine (tb_rank_ids r) (tb_views r)));
          VL ((if tb_workers_written r
               then map (fun iv => VL (VS (worker_file target (fst iv)) :: view_val (snd iv)))
                        (combine (tb_rank_ids r) (tb_views r))
               else []) ++
              (if tb_combined_written r then [VL (VS (overall_name target) :: view_val (tb_combined r))] else []));
          VL (view_val (tb_combined r))]
  end.

(* non-triviality rule measured inside Coq: the events carry at least two distinct non-negative rank ids *)
Definition tb_nontrivial (c : (((list tbev * list tbev) * bool) * string) * val) : bool :=
  match parse_by_rank_id (@snd Z keyv) (fst (fst (fst (fst c)))) with
  | Some g => Nat.leb 2 (rank_cnt g)
  | None => false
  end.
